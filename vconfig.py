"""Per-property configuration of the checks (sidecar modules, levels, trusted base)."""

SIDECARS = [
    'contracts.typing_c',
    'contracts.typing_loops',
    'contracts.vector_c',
    'contracts.table_c',
    'contracts.csv_c',
    'contracts.display_c',
    'contracts.tracker_c',
    'contracts.relational_c',
]

TRUSTED_COMMON = [
    'pyvc itself (AST->VC generator, /verif/pyvc): path-splitting symbolic executor; its encoding of the Python subset is cross-checked against CPython by axiom validation on every run and by the mutant self-test (selftest_mutants.py)',
    'z3 5.1 / cvc5 1.0.3 / z3 4.8.12 (SMT back ends)',
    'CPython semantics assumed: left-to-right evaluation, no monkey-patching of serif or builtins, single thread, no MemoryError/RecursionError, warnings filter not "error"',
    'int is mathematical (exact for Python); float/complex/date values and their operators are uninterpreted (no IEEE reasoning); scalar operator applications are assumed defined (the quantifier says "values for which Python itself defines the scalar operation")',
    'Vector(...) construction sites use the constructor contract (tuple(values), explicit dtype or infer_dtype, name, row flag) for scalar elements; the joint __new__/__init__ body is not yet under its own proof',
]

PYFRAME_TRUST = 'pyframe (provenance abstract interpreter, /verif/pyframe): its own soundness; the induction over histories that turns per-method obligations into "every reachable heap" is a paper argument (DESIGN.md section 4)'

PROPS = {
    'C01': {
        'level': 'proof', 'extra': ['pyframe.effects'],
        'explanation': 'Every attribute-store site and every Table storage site of vector.py/table.py is an obligation of the provenance analysis (frame / pure / fresh-column / check-first); storage is an immutable tuple replaced wholesale, so these obligations are what separates two handles. Vector.copy / __getitem__ value contracts (fresh result with the stated contents) are discharged by z3. The history monitor is the bounded cross-examination.',
        'trusted': [PYFRAME_TRUST, 'tuple immutability; element objects that are themselves mutable are out of scope; deepcopy returns an independent vector'],
    },
    'C02': {
        'level': 'proof',
        'explanation': 'Table objects are modelled with a concrete column count (0..3) and a symbolic row count. Proved from the real bodies: Table.__init__ stores a rectangular table of fresh copies (same values, dtypes, names) or rejects ragged input with SerifValueError; _stack_columns and Table >> vector append columns and leave existing cells untouched, rejecting a column of another length; Table << row appends exactly one cell to every column (via the Vector.__lshift__ contract); row slices and boolean masks apply the same selection to every column (via the Vector.__getitem__ contract) and keep names/dtypes; __len__. Attribute assignment, cell/row/region assignment, .T, Row views / iteration and the dict form of >> are bounded only (operation sequences on tables up to 3x3 with a Rect / row-view monitor).',
        'trusted': ['column count bounded to 3 in the proofs (row count, values, names, dtypes arbitrary)', 'Table construction sites inside verified functions use the Table.__init__ contract'],
    },
    'C03': {
        'level': 'proof',
        'explanation': 'Truthful(result) is proved at the explicit-dtype construction sites under contract (copy, __getitem__, comparisons, isna, dropna) from Truthful(self) with a quantified hypothesis; inferred-dtype sites (arithmetic, unary, reflected add) are proved to use infer_spec of their values, whose upper-bound property is the lemma infer-upper-bound / belongs-monotone. validate_scalar accepts exactly what belongs to the kind.',
        'trusted': ['base domain (no subclasses of ladder types)', 'Truthful of inferred-dtype results: per-step lemmas are machine-checked, the induction over the fold is a paper step'],
    },
    'C04': {
        'level': 'proof',
        'explanation': 'promote_with / infer_kind / validate_scalar are loop-free over a finite tag algebra (path enumeration + z3 is a decision procedure); infer_dtype is proved for every length through a loop invariant against an axiomatised fold; order independence follows from the commutation / absorption lemmas over the spec step function.',
        'trusted': ['base domain: "other" classes are unrelated to the numeric/temporal ladders (no subclasses of int/float/date such as IntEnum)',
                    'permutation closure: adjacent transpositions generate all permutations (paper step on top of the machine-checked commutation lemma)'],
        'assumptions': ['extended domain (instances of subclasses of bool/int/float/date) is not covered by the proof'],
    },
    'C05': {
        'level': 'proof',
        'explanation': 'Generic-element VCs: for an arbitrary element pair the real body of _elementwise_operation, every arithmetic / reflected dunder, the reverse helpers, _unary_operation, MethodProxy.__call__ (method name symbolic) and every _String/_Date wrapper (enumerated from the class on each run) applies the stated operator to the i-th operands in written order, None propagating, lengths equal or ValueError. Table arithmetic and date + days are bounded only.',
        'trusted': ['operators / element methods uninterpreted; * commutative on builtin scalars (for __rmul__)'],
    },
    'C06': {
        'level': 'proof',
        'explanation': 'None clauses of the element specs (arithmetic, comparison False at None) are part of the C05/C07 generic-element VCs; reductions sum/mean/min/max/stdev/any/all hand exactly the None-free subsequence to the builtin the statement names (filter-map equality, empty cases); isna/dropna contracts; group aggregators (C12) share the same spec functions. fillna and the _Date comparison override are bounded only.',
        'trusted': ['sum/min/max/len builtins uninterpreted on sequence terms (congruence on extensionally equal arguments)', 'A-real: x**2 == x*x'],
    },
    'C07': {
        'level': 'proof', 'extra': ['pyframe.effects'],
        'explanation': 'slice_length equals len(range(n)[s]) for all integers including symbolic step; Vector.copy and __getitem__ (int, slice, bool-vector, bool-list keys) equal Python sequence semantics with dtype / name / row flag kept, IndexError / ValueError exactly when Python raises; the 12 comparison / logical dunders apply their own operator. Index-list keys and Table.__getitem__ (rows uniform, missing names, commutation) are bounded only.',
        'trusted': ['slice.indices encoding (validated against CPython on a cube each run)'],
    },
    'C08': {
        'level': 'proof', 'extra': ['pyframe.effects'],
        'explanation': "Vector.__setitem__ on the real text, for int keys (scalar or list value) and index-list keys with a list value, vectors of every length: bad index / length mismatch raise exactly when list assignment would; on success length and name are unchanged, the column kind is the ladder fold over EVERY written value (loop invariant on the decision loop; validate_scalar, _can_promote and _promote - with its state update: existing elements converted, None kept - are discharged separately), None makes the column nullable, SerifTypeError arises only from the ladder, and the CONTENTS are what sequential list assignment gives: the addressed cell holds the value (a repeated index: the last value wins), every other cell is the old element, converted only by the promotion (exact last-write-wins rule for the commit loop, with the in-range obligation for every store). Atomicity on failure: every raise precedes the first store (pyframe check-first / frame obligations). Slice and boolean-mask keys, scalar values repeated over a slice, and table cell / row / column / region assignment are bounded only (exhaustive key forms x value forms with list assignment as oracle and a snapshot comparison on every failure).",
        'trusted': ['slice and mask key forms of Vector.__setitem__, Table.__setitem__: bounded stand-in only', 'alias tracker calls: trusted stubs (protocol around them: pyframe)', 'A-real: numeric conversions int()/float()/complex() of ladder values are total'],
    },
    'C09': {
        'level': 'proof',
        'explanation': "Phase proofs on the real text of Table.inner_join, for an ARBITRARY number of rows and arbitrary key values (one key column and one payload column per side): (1) index-build loop invariant - bucket(k) is exactly the ascending list of right rows with key k, with a ghost position witness for completeness; (2) probe and emit loop invariants - the output buffers consist of one contiguous block per left row, in left order, holding one row per entry of that row's bucket in ascending right order with the paired rows' cells (four variants enumerate the valid expect values; the two cross-cardinality ones run in the thorough tier); (3) exit assertion - the returned table is the buffers wrapped column by column under the input columns' names, and has no columns when nothing matched. Together: exactly one output row per key-equal pair, left-major / right-ascending. Each phase assumes the earlier invariants at loop exits only (listed as assumptions; they are obligations of the sibling variant in the same check). Two-key-column variants of the index and probe phases run in the thorough tier. Table._validate_join_keys is under a discharged contract for Vector and two-Vector-list specs (returns the given vectors themselves, rejects keys whose length differs from the table), so the loops do not assume key lengths. Key resolution by name (strings; Table._resolve_column has its own discharged contract), three or more key columns and wider tables are covered by the bounded stand-in (all table pairs up to 3x3 rows, 4x4 thorough, 1-3 keys, several hash seeds) which also supplies replayable inputs.",
        'trusted': ['dict / list / set: insertion-ordered map, append, membership by == (symbolic container model, pyvc/symcoll.py); key equality only, no hash values', 'schema width fixed at 1 or 2 key columns + 1 payload column per side in the proofs; rows unbounded'],
    },
    'C10': {
        'level': 'proof',
        'explanation': "Phase proofs on the real text of Table.join (left join) and Table.full_join, arbitrary rows and keys, one key and one payload column per side. Left join: index-build invariant (as C09), probe / emit invariants - every left row contributes one contiguous block, in left order: one row per key-equal right row in ascending right order, or exactly one row padded with None in every right column when nothing matches - and the exit assertion (buffers wrapped under the input names; no columns for an empty left table). Full join: the same left phase plus an exact `matched_right_rows` set (a right row is recorded iff its key occurs among the processed left rows; ghost witness), the third loop appends every unmatched right row exactly once in ascending order with None in every left column and leaves the left-phase rows untouched, and the exit assertion wraps the buffers. The containment / symmetry relations between the three joins, two-key variants run in the thorough tier; three or more key columns and name-resolved keys are bounded only (same enumerator as C09: all table pairs up to 3x3 rows, 4x4 thorough).",
        'trusted': ['symbolic container model for dict / list / set (pyvc/symcoll.py)', 'schema width fixed at 1 or 2 key columns + 1 payload column per side in the proofs; rows unbounded'],
    },
    'C11': {
        'level': 'proof',
        'explanation': 'The uniqueness flags and the expect validation of inner_join / join / full_join are extracted by a mechanical statement slice (kept: the expect test and the two flag assignments; refused if they are not unconditional top-level assignments over `expect` only) and proved equal to the statement (complete 4x3 decision table plus rejection of every other string). That the flags are *used* correctly is proved for inner_join, join and full_join by the loop invariants of C09/C10 (the duplicate record after the index loop is non-empty iff some right key repeats, the left seen-set is exactly the set of processed left keys, so each raise happens iff the stated side repeats a key; arbitrary rows, one key column); multi-column keys are bounded (full decision table over all key multisets of size <=3).',
        'trusted': ['statement slice: everything except the expect test and the flag assignments is dropped in the flag obligations; the loop-invariant variants run the whole function text'],
    },
    'C12': {
        'level': 'proof',
        'explanation': 'Each built-in aggregator body (two lambdas and four nested functions of Table.aggregate, extracted with their closures) equals its textbook spec on an arbitrary group; Vector.sum/mean/min/max/stdev equal the same spec functions (whole-column agreement by construction). The partition loop is under a discharged quantified invariant (every row in exactly one bucket, buckets ascending, keys in first-appearance order; arbitrary rows, one key column); and the result assembly is proved for an arbitrary group (exit assertion on the real text: one row per distinct key in first-appearance order, key column = the keys, value column = the spec of the aggregator applied to exactly the rows of the bucket of that key; SUM in the quick tier, MEAN / MIN / MAX / COUNT in the thorough tier; one key column, one aggregated column, rows unbounded). STDEV assembly, several keys / columns, custom `apply` functions and output naming are bounded only. The partition loop and the SUM assembly are also proved for TWO key columns (thorough tier).',
        'trusted': ['sum/min/max/len uninterpreted; A-real'],
    },
    'C13': {
        'level': 'proof',
        'explanation': 'The six window aggregators equal the same spec functions as the aggregate ones (so window and aggregate values agree by construction of the proof); and the whole pipeline is proved on the real text for one key vector and one aggregated column, any number of rows: the partition loop (invariant of aggregate plus `row_keys[i]` = key of row i), the group-map loop of the nested `compute_group_values` (domain = the first k keys; for an arbitrary but fixed group G the stored value is fn applied to exactly the values of the bucket of G), `expand_to_rows`, and an exit assertion for an arbitrary row R: same row count as the input, key column reproduced unchanged (same objects), and the value of row R is the aggregator spec of the group of R - the same spec function the aggregate proof (C12) uses, so window and aggregate agree by construction. SUM in the quick tier, MEAN / MIN / MAX / COUNT in the thorough tier. STDEV, several keys / columns, custom apply functions and naming are bounded only (interleaved groups, None keys, equal-but-distinct keys). The partition loop and the SUM pipeline are also proved for TWO key columns (thorough tier).',
        'trusted': ['sum/min/max/len uninterpreted; A-real'],
    },
    'C14': {
        'level': 'proof',
        'explanation': "Table.sort_by on the real text, for one key vector (quick tier) and two key vectors with independent directions (thorough tier), any number of rows, either None placement: under the trusted stable-sort contract of list.sort (the result is a permutation; no later element compares less than an earlier one under the key order, the other way round for reverse=True; elements whose keys compare less neither way keep their order, for reverse=True too) the key function with its flipped None flag, the per-key reverse flag, the last-key-first loop and the rebuilding of the columns give, for two arbitrary output positions P < Q: distinct source rows (with the row count unchanged: a permutation), every column holding the source rows' cells (cells kept together), names kept, the later row never having to come strictly before the earlier one in the lexicographic key order (each key in its direction, None placed by na_last whatever the direction), and ties in original order (exit assertion sb_exit; the two-key case is the composition argument for successive stable sorts, done by the solver from the two sort contracts). Vector.sort_by is proved the same way through sorted() (exit assertion vsb_exit: permutation, order, None placement, stability, name and dtype kept). Table.sort_by.key_fn has its own contract (flag of the statement) and the lemma sort-none-placement. Idempotence (sorting a sorted table changes nothing), three keys, keys given by name and input-not-modified are covered by pyframe (C01) and the bounded stand-in.",
        'trusted': ['list.sort / sorted: stable, reverse=True keeps the order of equal keys (validated each run)'],
    },
    'C15': {
        'level': 'proof', 'extra': ['pyframe.effects'],
        'explanation': 'Store-protocol obligations, one per storage-swap site: unregister(self, id(old)) before and register(self, id(new)) after every store to _underlying of an initialised object; construction registers; __new__ never hands back an initialised object for re-initialisation; __setitem__ asks the tracker about the tuple it holds. The tracker methods themselves and GC / identity-reuse behaviour are bounded only (history monitor with a shadow sharing relation and an identity-reuse stress).',
        'trusted': [PYFRAME_TRUST, 'A-id: id() is injective on live objects; weakref semantics', 'tracker method bodies (register / unregister / check_writable) are not under a discharged contract'],
    },
    'C16': {
        'level': 'proof', 'extra': ['pyframe.effects'],
        'explanation': "Vector._compute_fingerprint_full is proved on the real text to return the Horner fold (base B, modulus P = 2^61-1) of the element hashes of the CURRENT contents, for any length (loop invariant fp_loop_inv: initiation + consecution); Vector.fingerprint, under memo coherence (memo absent or current), returns that fold and leaves a coherent memo; _invalidate_fp drops the memo; _hash_element is proved path by path for str / int / bool / None and for float elements (Python's own hash(), fixed codes for None and NaN), and assumed a deterministic function of the element elsewhere. Sensitivity lemmas over the step function (carry, inject, order, range) are discharged by z3 for the constants P and B of the spec functions, which the real class attributes must equal for the postcondition of _compute_fingerprint_full to hold. Protocol obligations (pyframe): the memo is dropped after every storage swap (or by every caller of a private helper that swaps), and Table.fingerprint does not return a memo that column writes cannot invalidate. _ensure_fp_powers (a cache the result does not depend on) is assumed to write only _fp_powers; Table.fingerprint's own fold over columns and coherence along whole histories (write paths through tables, promotion, column replacement) are bounded.",
        'trusted': [PYFRAME_TRUST, 'hash() deterministic within a process'],
    },
    'C17': {
        'level': 'proof', 'extra': ['pyframe.effects', 'pylang.sanitize'],
        'explanation': 'pylang: the real statements of _sanitize_user_name are interpreted as language transformers on DFAs over [a-z0-9_]; for EVERY input string the result is None or a lower-case identifier, is not a public Vector/Table attribute (the real reserved set, recomputed each run), does not look like a generated name__N or colN_ accessor, and the three accessor families are pairwise disjoint (exact automata decisions with witness strings). pyframe map-fresh: every read of the accessor map is dominated by the wild-column refresh (per read site). Resolution through __getattr__ / item assignment / dir / repr dot row is bounded.',
        'trusted': [PYFRAME_TRUST],
    },
    'C18': {
        'level': 'proof',
        'explanation': 'The name argument of the construction sites under contract is part of the whole-view postconditions: arithmetic / comparison results unnamed, copy / slice / mask / unary keep the name; _resolve_binary_name equals the statement rule. Table-level propagation and aggregate/window output names are bounded only.',
    },
    'C19': {
        'level': 'proof', 'extra': ['pyframe.csvsite'],
        'explanation': "_infer_type equals the cell rule of the statement path by path (int()/float() acceptance uninterpreted and shared with the spec). The assembly in _read_csv_from_file is proved on the real text for an arbitrary number of records of arbitrary lengths and arbitrary cell texts, first record of one or two cells (three in the thorough tier), with and without header: csv.reader is the trusted lexical layer (modelled as an arbitrary sequence of lists of str cells), _infer_type is used by its discharged contract, and the exit assertion states - for an arbitrary data row - no records -> empty table; otherwise one column per cell of the first record, named by the header cells, one row per data record in order, cell (R, j) = the typed value of the text of cell j of that record, None when the record is too short: records are never dropped, merged or reordered and cells never shifted. read_csv's handling of its input (path vs file object, newline='', delimiter, encoding) is covered by call-site obligations (pyframe.csvsite); quoting, delimiters, terminators, non-ASCII digits, blank lines and wider files are bounded (round trip through csv.writer).",
        'trusted': ['csv.reader (lexical layer) - the statement defines it as the csv module does'],
    },
    'C20': {
        'level': 'proof',
        'explanation': '_format_column never raises for truthful columns (int(float) partial on nan/inf is modelled) and shows every row of short data and exactly 2*half+1 rows of long data for every preview size incl. 0. Footer text, headers and table assembly are bounded only.',
        'trusted': ['formatting of builtin scalars (f-strings, str, isoformat) does not raise'],
    },
}

_T = 'contract-based deductive verification: AST->VC symbolic execution of the real functions against sidecar contracts, z3/cvc5'
_B = 'bounded exhaustive enumeration against an oracle written from the statement (stand-in; contracts on this property are not yet discharged)'
MANIFEST_TEXT = {}
for _p, _cfg in PROPS.items():
    MANIFEST_TEXT[_p] = {
        'text': _cfg['explanation'] + (' A bounded exhaustive stand-in (same spec functions run natively) is run as cross-examination and labelled bounded.' if _cfg['level'] == 'proof' else ''),
        'note': 'Trusted: ' + '; '.join(_cfg.get('trusted', []) + ['pyvc encoding (validated against CPython each run)', 'SMT solvers']) if _cfg['level'] == 'proof'
                else 'Bounded: exhaustive within the stated scope only; nothing is claimed beyond it.',
        'technique': (_T + ('; pyframe provenance/protocol obligations' if _cfg.get('extra') else '')) if _cfg['level'] == 'proof' else _B,
    }

"""Per-property configuration of the checks (sidecar modules, levels, trusted base)."""

SIDECARS = [
    'contracts.display_c',
    'contracts.csv_c',
    'contracts.table_c',
    'contracts.vector_c',
    'contracts.typing_c',
    'contracts.typing_loops',
]

TRUSTED_COMMON = [
    'pyvc itself (AST->VC generator, /verif/pyvc): path-splitting symbolic executor; its encoding of the Python subset is cross-checked against CPython by axiom validation on every run',
    'z3 5.1 / cvc5 1.0.3 / z3 4.8.12 (SMT back ends)',
    'CPython semantics assumed: left-to-right evaluation, no monkey-patching of serif or builtins, single thread, no MemoryError/RecursionError, warnings filter not "error"',
    'int is mathematical (exact for Python); float/complex/date values and their operators are uninterpreted (no IEEE reasoning)',
]

PROPS = {
    'C04': {
        'level': 'proof',
        'explanation': 'promote_with / infer_kind / validate_scalar are loop-free over a finite tag algebra (path enumeration + z3 is a decision procedure); infer_dtype is proved for every length through a loop invariant against an axiomatised fold; order independence follows from the commutation / absorption lemmas over the spec step function.',
        'trusted': ['base domain: "other" classes are unrelated to the numeric/temporal ladders (no subclasses of int/float/date such as IntEnum)',
                    'permutation closure: adjacent transpositions generate all permutations (paper step on top of the machine-checked commutation lemma)'],
        'assumptions': ['extended domain (instances of subclasses of bool/int/float/date) is not covered by the proof'],
    },
}

MANIFEST_TEXT = {
    'C04': {
        'text': 'Proof: every obligation generated from the real bodies of DataType.promote_with, infer_kind, infer_dtype (loop invariant, all lengths), validate_scalar, with_nullable, is_numeric, is_temporal is discharged by z3 against contracts written from the lattice in the statement; order/length/multiplicity independence are lemmas over the spec step. A bounded exhaustive enumeration (all sequences <=4 over 13 types) is run as cross-examination and labelled bounded.',
        'note': 'Trusted: pyvc encoding of the Python subset (validated against CPython on each run), SMT solvers, base domain (no subclasses of the ladder types), permutation closure from adjacent swaps.',
        'technique': 'contract-based deductive verification: AST->VC symbolic execution of the real functions, loop invariant + lemmas, z3',
    },
}

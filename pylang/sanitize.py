"""pylang: output-language obligations of naming._sanitize_user_name (C17).

The real function's AST is interpreted statement by statement as a chain of *language
transformers* over DFAs on [a-z0-9_] (after the re.sub every later step only ever sees
that alphabet).  Statements outside the transformer vocabulary make the function
undecided.  Obligations are language inclusions / disjointness, decided exactly."""
import ast
import os
import string
import time

from .dfa import DFA, SIGMA, regex_to_dfa, char_class_of_negated_plus

REPO_SRC = os.environ.get('SERIF_SRC', '/repo/src')


class Undecided(Exception):
    pass


def _src(node):
    return ast.unparse(node)


def reserved_names():
    import importlib
    import sys
    if REPO_SRC not in sys.path:
        sys.path.insert(0, REPO_SRC)
    naming = importlib.import_module('serif.naming')
    if hasattr(naming._get_reserved_names, '_cache'):
        del naming._get_reserved_names._cache
    return set(naming._get_reserved_names())


def statement_reserved():
    """The set the STATEMENT forbids ("never shadow a public Vector/Table method or property"), computed
    from the classes themselves, independently of serif.naming: every public attribute name that is a
    method (instance, class or static), another callable, or a property - lower-cased."""
    import importlib
    import inspect
    import sys
    if REPO_SRC not in sys.path:
        sys.path.insert(0, REPO_SRC)
    out = set()
    for modname, clsname in (('serif.vector', 'Vector'), ('serif.table', 'Table')):
        cls = getattr(importlib.import_module(modname), clsname)
        for name in dir(cls):
            if name.startswith('_'):
                continue
            static = inspect.getattr_static(cls, name, None)
            if isinstance(static, (property, classmethod, staticmethod)) or callable(static) \
                    or callable(getattr(cls, name, None)):
                out.add(name.lower())
    return out


def interpret():
    """Returns (final language DFA, may_return_none, notes)."""
    path = os.path.join(REPO_SRC, 'serif', 'naming.py')
    with open(path) as fh:
        tree = ast.parse(fh.read())
    fn = next(n for n in tree.body if isinstance(n, ast.FunctionDef) and n.name == '_sanitize_user_name')
    env = {}           # variable -> ('any',) | ('lang', DFA)
    param = fn.args.args[0].arg
    env[param] = ('any',)
    results = []       # DFAs of returned strings
    returns_none = False
    notes = []
    R = reserved_names()
    for st in fn.body:
        if isinstance(st, ast.Expr) and isinstance(st.value, ast.Constant):
            continue        # docstring
        s = _src(st)
        # if not isinstance(name, str): name = str(name)
        if isinstance(st, ast.If) and s.startswith(f'if not isinstance({param}, str):') and \
                len(st.body) == 1 and _src(st.body[0]) == f'{param} = str({param})' and not st.orelse:
            env[param] = ('any',)
            continue
        if isinstance(st, ast.Assign) and len(st.targets) == 1 and isinstance(st.targets[0], ast.Name):
            tgt = st.targets[0].id
            v = st.value
            # x = y.lower()
            if isinstance(v, ast.Call) and isinstance(v.func, ast.Attribute) and v.func.attr == 'lower' and not v.args \
                    and isinstance(v.func.value, ast.Name) and v.func.value.id in env:
                src = env[v.func.value.id]
                if src[0] == 'any':
                    env[tgt] = ('any',)
                else:
                    env[tgt] = src      # already lower-case alphabet
                continue
            # x = re.sub(r'[^CLASS]+', '_', y)
            if isinstance(v, ast.Call) and _src(v.func) == 're.sub' and len(v.args) == 3 and \
                    isinstance(v.args[0], ast.Constant) and isinstance(v.args[1], ast.Constant) and \
                    isinstance(v.args[2], ast.Name) and v.args[2].id in env:
                cls = char_class_of_negated_plus(v.args[0].value)
                repl = v.args[1].value
                if cls is None or set(cls) != set(SIGMA) or repl not in cls or len(repl) != 1:
                    raise Undecided(f'unrecognised substitution {s!r} (the alphabet must be exactly [a-z0-9_])')
                env[tgt] = ('lang', DFA.all())
                notes.append('after re.sub the string is over [a-z0-9_] exactly (regex semantics, any unicode input)')
                continue
            # x = y.strip('_')
            if isinstance(v, ast.Call) and isinstance(v.func, ast.Attribute) and v.func.attr == 'strip' and len(v.args) == 1 \
                    and isinstance(v.args[0], ast.Constant) and isinstance(v.func.value, ast.Name) and env.get(v.func.value.id, ('?',))[0] == 'lang':
                ch = v.args[0].value
                if len(ch) != 1 or ch not in SIGMA:
                    raise Undecided(f'strip argument {ch!r}')
                env[tgt] = ('lang', env[v.func.value.id][1].strip_char(ch))
                continue
            raise Undecided(f'assignment outside the transformer vocabulary: {s!r}')
        # base, sep, suffix = x.partition(LITERAL): remembered for guards over the three names
        if isinstance(st, ast.Assign) and len(st.targets) == 1 and isinstance(st.targets[0], ast.Tuple) and \
                len(st.targets[0].elts) == 3 and all(isinstance(e, ast.Name) for e in st.targets[0].elts) and \
                isinstance(st.value, ast.Call) and isinstance(st.value.func, ast.Attribute) and st.value.func.attr == 'partition' and \
                isinstance(st.value.func.value, ast.Name) and env.get(st.value.func.value.id, ('?',))[0] == 'lang' and \
                len(st.value.args) == 1 and isinstance(st.value.args[0], ast.Constant) and isinstance(st.value.args[0].value, str) \
                and st.value.args[0].value and all(ch in SIGMA for ch in st.value.args[0].value):
            names = [e.id for e in st.targets[0].elts]
            env['#partition'] = ('partition', st.value.func.value.id, st.value.args[0].value, names)
            continue
        if isinstance(st, ast.If) and not st.orelse and len(st.body) == 1:
            body = st.body[0]
            t = st.test
            # if x == "": return None
            if isinstance(body, ast.Return) and isinstance(t, ast.Compare) and isinstance(t.left, ast.Name) and \
                    env.get(t.left.id, ('?',))[0] == 'lang' and len(t.ops) == 1 and isinstance(t.ops[0], ast.Eq) and \
                    isinstance(t.comparators[0], ast.Constant) and t.comparators[0].value == '':
                var = t.left.id
                if not (isinstance(body.value, ast.Constant) and body.value.value is None):
                    raise Undecided(f'empty-name branch returns {_src(body)}')
                returns_none = True
                env[var] = ('lang', env[var][1].minus(DFA.finite([''])))
                continue
            # guarded rewrite:  if COND(x): x = PREFIX + x   |   x = x + SUFFIX
            if isinstance(body, ast.Assign) and len(body.targets) == 1 and isinstance(body.targets[0], ast.Name) and \
                    env.get(body.targets[0].id, ('?',))[0] == 'lang':
                var = body.targets[0].id
                L = env[var][1]
                cond = condition_language(t, var, R, env)
                bv = body.value
                if isinstance(bv, ast.BinOp) and isinstance(bv.op, ast.Add):
                    if isinstance(bv.left, ast.Constant) and isinstance(bv.right, ast.Name) and bv.right.id == var:
                        new = L.inter(cond).prepend_word(bv.left.value)
                    elif isinstance(bv.right, ast.Constant) and isinstance(bv.left, ast.Name) and bv.left.id == var:
                        new = L.inter(cond).append_word(bv.right.value)
                    else:
                        raise Undecided(f'rewrite {s!r}')
                    if any(ch not in SIGMA for ch in (bv.left.value if isinstance(bv.left, ast.Constant) else bv.right.value)):
                        raise Undecided('affix outside the alphabet')
                    env[var] = ('lang', L.minus(cond).union(new))
                    continue
            raise Undecided(f'conditional outside the transformer vocabulary: {s!r}')
        if isinstance(st, ast.Return):
            if isinstance(st.value, ast.Name) and env.get(st.value.id, ('?',))[0] == 'lang':
                results.append(env[st.value.id][1])
                continue
            raise Undecided(f'return of {_src(st)}')
        raise Undecided(f'statement outside the transformer vocabulary: {s!r}')
    if not results:
        raise Undecided('no string result')
    F = results[0]
    for r in results[1:]:
        F = F.union(r)
    return F, returns_none, notes, R


def partition_language(sep, suffix_lang):
    """{ x | x.partition(sep) = (base, sep, suffix), base non-empty, suffix in suffix_lang }: the
    split is at the FIRST occurrence of sep, so base + sep must not contain an earlier occurrence."""
    assert len(sep) == 2 and sep[0] == sep[1], 'only doubled-character separators are modelled'
    ch = sep[0]
    esc = '\\' + ch if not ch.isalnum() and ch != '_' else ch
    contains = regex_to_dfa(f'^.*{esc}{esc}.*$')
    ends = regex_to_dfa(f'^.*{esc}$')
    base = DFA.all().minus(contains).minus(ends).minus(DFA.finite(['']))
    return base.append_word(sep).concat(suffix_lang)


def condition_language(t, var, R, env=None):
    """Language of strings for which the guard holds."""
    s = _src(t)
    part = (env or {}).get('#partition')
    if part is not None and part[1] == var:
        _, _, sep, (b, sp, suf) = part
        if s == f'{b} and {sp} and {suf}.isdigit()':
            return partition_language(sep, regex_to_dfa('^[0-9]+$'))
    # x[0].isdigit()
    if s in (f'{var}[0].isdigit()', f'{var}[:1].isdigit()', f'{var}[0:1].isdigit()'):
        # x[0] on the empty string would raise; the slice form is simply False there - either way
        # the guard holds exactly for strings that start with a digit
        return regex_to_dfa('^[0-9].*$')
    # re.match(r'^...$', x)
    if isinstance(t, ast.Call) and _src(t.func) == 're.match' and len(t.args) == 2 and isinstance(t.args[0], ast.Constant) \
            and isinstance(t.args[1], ast.Name) and t.args[1].id == var:
        return regex_to_dfa(t.args[0].value)
    # x in _get_reserved_names()
    if isinstance(t, ast.Compare) and isinstance(t.left, ast.Name) and t.left.id == var and len(t.ops) == 1 and \
            isinstance(t.ops[0], ast.In) and _src(t.comparators[0]) == '_get_reserved_names()':
        return DFA.finite(R)
    raise Undecided(f'guard outside the transformer vocabulary: {s!r}')


def concrete_input_for(w):
    """Replay of a witness on the real function: an input string whose output is the witness."""
    try:
        import importlib
        naming = importlib.import_module('serif.naming')
        cands = [w, '_' + w, '$' + w, ' ' + w, w + '_', w.upper(), '(' + w + ')', w.replace('_', ' ')]
        for c in cands:
            if naming._sanitize_user_name(c) == w:
                return f'; replayed natively: _sanitize_user_name({c!r}) == {w!r}'
    except Exception:
        pass
    return '; no concrete input found among the simple candidates'


def obligations(pid, tier):
    t0 = time.time()
    q = 'naming._sanitize_user_name'

    def ob(name, status, reason='', model=None):
        return {'name': f'{pid}:{q}:{name}', 'kind': 'language', 'status': status, 'backend': 'pylang(DFA)',
                'time_s': 0.0, 'exact': True, 'reason': reason, 'model': model, 'function': q}
    try:
        F, returns_none, notes, R = interpret()
    except Undecided as e:
        return [ob('lang', 'undecided', str(e))]
    out = []
    ident = regex_to_dfa('^[a-z][a-z0-9_]*$')
    checks = [
        ('lang:identifier', F.minus(ident), 'result is not of the form [a-z][a-z0-9_]* (valid lower-case identifier)'),
        ('lang:not-reserved', F.inter(DFA.finite(R | statement_reserved())), 'result shadows a public Vector/Table attribute'),
        ('lang:not-indexed-accessor', F.inter(regex_to_dfa('^.+__[0-9]+$')), 'result looks like a generated name__N accessor'),
        ('lang:not-positional-accessor', F.inter(regex_to_dfa('^col[0-9]+_$')), 'result looks like a positional colN_ accessor'),
        ('lang:outer-underscores-stripped', F.inter(regex_to_dfa('^_.*$')), 'result starts with an underscore'),
    ]
    for name, bad, why in checks:
        w = bad.witness()
        if w is None:
            out.append(ob(name, 'discharged'))
        else:
            out.append(ob(name, 'refuted', why, f'witness output string {w!r}' + concrete_input_for(w)))
    # non-vacuity: the language is not empty and None is returned only for the empty remainder
    out.append(ob('lang:non-vacuous', 'discharged' if (not F.is_empty() and F.accepts('a') and F.accepts('c1')) else 'refuted',
                  '' if not F.is_empty() else 'empty output language'))
    # accessor families are pairwise disjoint: plain (F), F + [_]_N, colN_
    fam_indexed = regex_to_dfa('^.+__[0-9]+$')
    fam_col = regex_to_dfa('^col[0-9]+_$')
    w = fam_indexed.inter(fam_col).witness()
    out.append(ob('accessor-families:disjoint', 'discharged' if w is None and F.inter(fam_indexed).is_empty() and F.inter(fam_col).is_empty()
                  else 'refuted', '' if w is None else 'families overlap', w))
    dt = time.time() - t0
    for o in out:
        o['time_s'] = round(dt / len(out), 4)
    return out

"""Regular languages over the finite alphabet [a-z0-9_] as complete DFAs (exact decision
procedures: product, complement, concatenation with a letter, emptiness, shortest witness)."""
import itertools
import string

SIGMA = string.ascii_lowercase + string.digits + '_'
IDX = {c: i for i, c in enumerate(SIGMA)}
N = len(SIGMA)


class DFA:
    """Complete DFA: trans[state][symbol index] -> state; accepting set; start 0."""

    def __init__(self, trans, acc):
        self.trans = trans
        self.acc = set(acc)

    # ---- constructors ------------------------------------------------------------
    @staticmethod
    def all():
        return DFA([[0] * N], {0})

    @staticmethod
    def empty():
        return DFA([[0] * N], set())

    @staticmethod
    def from_nfa(n_states, delta, eps, start, finals):
        """Subset construction.  delta: {(q, symbol index): set}, eps: {q: set}."""
        def closure(S):
            S = set(S)
            stack = list(S)
            while stack:
                q = stack.pop()
                for r in eps.get(q, ()):
                    if r not in S:
                        S.add(r)
                        stack.append(r)
            return frozenset(S)
        s0 = closure({start})
        ids = {s0: 0}
        trans = []
        work = [s0]
        acc = set()
        while work:
            S = work.pop()
            row = [None] * N
            for a in range(N):
                T = set()
                for q in S:
                    T |= delta.get((q, a), set())
                T = closure(T)
                if T not in ids:
                    ids[T] = len(ids)
                    work.append(T)
                row[a] = ids[T]
            i = ids[S]
            while len(trans) <= i:
                trans.append(None)
            trans[i] = row
            if S & set(finals):
                acc.add(i)
        # rows may have been appended out of order; fill any None (cannot happen once done)
        return DFA(trans, acc)

    @staticmethod
    def finite(words):
        """Language of a finite set of words over SIGMA (words with other letters dropped)."""
        nodes = [{}]
        finals = set()
        for w in words:
            if any(ch not in IDX for ch in w):
                continue
            q = 0
            for ch in w:
                a = IDX[ch]
                if a not in nodes[q]:
                    nodes.append({})
                    nodes[q][a] = len(nodes) - 1
                q = nodes[q][a]
            finals.add(q)
        sink = len(nodes)
        trans = [[nodes[q].get(a, sink) for a in range(N)] for q in range(len(nodes))] + [[sink] * N]
        return DFA(trans, finals)

    # ---- boolean operations --------------------------------------------------------
    def complement(self):
        return DFA(self.trans, set(range(len(self.trans))) - self.acc)

    def product(self, other, op):
        ids = {(0, 0): 0}
        trans = []
        acc = set()
        work = [(0, 0)]
        while work:
            p, q = work.pop()
            i = ids[(p, q)]
            row = []
            for a in range(N):
                t = (self.trans[p][a], other.trans[q][a])
                if t not in ids:
                    ids[t] = len(ids)
                    work.append(t)
                row.append(ids[t])
            while len(trans) <= i:
                trans.append(None)
            trans[i] = row
            if op(p in self.acc, q in other.acc):
                acc.add(i)
        return DFA(trans, acc)

    def inter(self, o):
        return self.product(o, lambda a, b: a and b)

    def union(self, o):
        return self.product(o, lambda a, b: a or b)

    def minus(self, o):
        return self.product(o, lambda a, b: a and not b)

    # ---- word operations -----------------------------------------------------------
    def _as_nfa(self):
        delta = {}
        for q, row in enumerate(self.trans):
            for a, t in enumerate(row):
                delta.setdefault((q, a), set()).add(t)
        return len(self.trans), delta

    def append_word(self, w):
        """{ x + w | x in L }"""
        n, delta = self._as_nfa()
        eps = {}
        cur_states = None
        # new chain of states n .. n+len(w)
        chain = list(range(n, n + len(w) + 1))
        for q in self.acc:
            eps.setdefault(q, set()).add(chain[0])
        for k, ch in enumerate(w):
            delta.setdefault((chain[k], IDX[ch]), set()).add(chain[k + 1])
        # old accepting states are no longer accepting; original transitions out of them stay
        return DFA.from_nfa(n + len(w) + 1, delta, eps, 0, {chain[-1]})

    def concat(self, other):
        """{ x + y | x in L, y in other }"""
        n, delta = self._as_nfa()
        m, delta_o = other._as_nfa()
        for (q, a), T in delta_o.items():
            delta.setdefault((q + n, a), set()).update({t + n for t in T})
        eps = {}
        for q in self.acc:
            eps.setdefault(q, set()).add(n)        # other's start state is its state 0
        return DFA.from_nfa(n + m, delta, eps, 0, {q + n for q in other.acc})

    def prepend_word(self, w):
        """{ w + x | x in L }"""
        n, delta = self._as_nfa()
        # shift: new start chain s0..s_k then eps to old start
        off = len(w)
        delta2 = {}
        for (q, a), T in delta.items():
            delta2[(q + off + 1, a)] = {t + off + 1 for t in T}
        for k, ch in enumerate(w):
            delta2.setdefault((k, IDX[ch]), set()).add(k + 1)
        eps = {off: {off + 1}}
        return DFA.from_nfa(n + off + 1, delta2, eps, 0, {q + off + 1 for q in self.acc})

    def strip_char(self, ch):
        """{ x.strip(ch) | x in L } for L closed under the construction we use it on; computed
        exactly as  { y | exists i, j >= 0: ch^i y ch^j in L, y does not start/end with ch }."""
        a = IDX[ch]
        n, delta = self._as_nfa()
        # states reachable from start by ch* become start states; states that reach acc by ch* accept
        starts = {0}
        stack = [0]
        while stack:
            q = stack.pop()
            t = self.trans[q][a]
            if t not in starts:
                starts.add(t)
                stack.append(t)
        fin = set(self.acc)
        changed = True
        while changed:
            changed = False
            for q in range(n):
                if q not in fin and self.trans[q][a] in fin:
                    fin.add(q)
                    changed = True
        eps = {n: set(starts)}
        stripped = DFA.from_nfa(n + 1, delta, eps, n, fin)
        return stripped.inter(no_edge_char(ch))

    # ---- decisions -------------------------------------------------------------------
    def witness(self):
        """Shortest accepted word, or None when the language is empty."""
        prev = {0: None}
        order = [0]
        for q in order:
            if q in self.acc:
                w = []
                while prev[q] is not None:
                    q, a = prev[q]
                    w.append(SIGMA[a])
                return ''.join(reversed(w))
            for a in range(N):
                t = self.trans[q][a]
                if t not in prev:
                    prev[t] = (q, a)
                    order.append(t)
        return None

    def is_empty(self):
        return self.witness() is None

    def accepts(self, w):
        q = 0
        for ch in w:
            if ch not in IDX:
                return False
            q = self.trans[q][IDX[ch]]
        return q in self.acc


def no_edge_char(ch):
    """Words that neither start nor end with ch (including the empty word)."""
    a = IDX[ch]
    # states: 0 start(accepting, empty), 1 last char != ch (acc), 2 last char == ch but started ok, 3 sink
    trans = [[(3 if s == a else 1) for s in range(N)],
             [(2 if s == a else 1) for s in range(N)],
             [(2 if s == a else 1) for s in range(N)],
             [3] * N]
    return DFA(trans, {0, 1})


# ---- a small regex compiler (literals, ., \d, \w, [...], [^...], +, *, ?, ^, $) -----------
def regex_to_dfa(pattern, full=True):
    """DFA of `pattern` as used by re.match(pattern, s) with explicit ^...$ anchors."""
    p = pattern
    if p.startswith('^'):
        p = p[1:]
    anchored_end = p.endswith('$') and not p.endswith('\\$')
    if anchored_end:
        p = p[:-1]
    items = []
    i = 0
    while i < len(p):
        c = p[i]
        if c == '\\':
            nxt = p[i + 1]
            cls = {'d': set(string.digits), 'w': set(SIGMA)}.get(nxt, {nxt})
            i += 2
        elif c == '.':
            cls = set(SIGMA)
            i += 1
        elif c == '[':
            j = p.index(']', i)
            body = p[i + 1:j]
            neg = body.startswith('^')
            if neg:
                body = body[1:]
            cls = set()
            k = 0
            while k < len(body):
                if k + 2 < len(body) and body[k + 1] == '-':
                    cls |= {chr(x) for x in range(ord(body[k]), ord(body[k + 2]) + 1)}
                    k += 3
                else:
                    cls.add(body[k])
                    k += 1
            if neg:
                cls = set(SIGMA) - cls
            i = j + 1
        elif c in '()|{}':
            raise ValueError(f'unsupported regex construct {c!r} in {pattern!r}')
        else:
            cls = {c}
            i += 1
        q = ''
        if i < len(p) and p[i] in '+*?':
            q = p[i]
            i += 1
        items.append((frozenset(x for x in cls if x in IDX), q))
    # Thompson-style chain
    delta, eps = {}, {}
    state = 0
    n = 1
    for cls, q in items:
        nxt = n
        n += 1
        for ch in cls:
            delta.setdefault((state, IDX[ch]), set()).add(nxt)
        if q in ('+', '*'):
            for ch in cls:
                delta.setdefault((nxt, IDX[ch]), set()).add(nxt)
        if q in ('*', '?'):
            eps.setdefault(state, set()).add(nxt)
        state = nxt
    finals = {state}
    if not anchored_end:
        for ch in SIGMA:
            delta.setdefault((state, IDX[ch]), set()).add(state)
    return DFA.from_nfa(n, delta, eps, 0, finals)


def char_class_of_negated_plus(pattern):
    """For a pattern `[^CLASS]+` return CLASS as a set of characters, else None."""
    if pattern.startswith('[^') and pattern.endswith(']+'):
        body = pattern[2:-2]
        cls = set()
        k = 0
        while k < len(body):
            if k + 2 < len(body) and body[k + 1] == '-':
                cls |= {chr(x) for x in range(ord(body[k]), ord(body[k + 2]) + 1)}
                k += 3
            else:
                cls.add(body[k])
                k += 1
        return cls
    return None

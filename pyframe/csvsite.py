"""C19: call-site preconditions of the trusted external csv.reader in serif/csv.py.

The statement defines lexing "as the csv module defines them"; the csv module's own contract is
that the file object was opened with newline='' (otherwise universal-newline translation rewrites
\\r\\n / \\r inside quoted fields before the reader sees them) and that the reader gets the
caller's delimiter.  One obligation per call site, extracted from the AST on every run."""
import ast
import os

from .effects import _ob, REPO_SRC


def obligations(pid, tier):
    path = os.path.join(os.environ.get('SERIF_SRC', REPO_SRC), 'serif', 'csv.py')
    with open(path) as fh:
        tree = ast.parse(fh.read())
    obs = []
    opens, readers = [], []
    for fn in [n for n in ast.walk(tree) if isinstance(n, ast.FunctionDef)]:
        for n in ast.walk(fn):
            if isinstance(n, ast.Call) and isinstance(n.func, ast.Name) and n.func.id == 'open':
                opens.append((fn, n))
            if isinstance(n, ast.Call) and ast.unparse(n.func) == 'csv.reader':
                readers.append((fn, n))
    for fn, n in opens:
        q = f'csv.{fn.name}'
        kw = {k.arg: k.value for k in n.keywords}
        ok_newline = 'newline' in kw and isinstance(kw['newline'], ast.Constant) and kw['newline'].value == ''
        mode = n.args[1].value if len(n.args) > 1 and isinstance(n.args[1], ast.Constant) else \
            (kw['mode'].value if 'mode' in kw and isinstance(kw['mode'], ast.Constant) else 'r')
        ok_enc = 'encoding' in kw and isinstance(kw['encoding'], ast.Name)
        if ok_newline and 'b' not in mode and ok_enc:
            obs.append(_ob(f'{pid}:{q}:open:newline-empty', 'discharged', q, kind='call-pre'))
        else:
            obs.append(_ob(f'{pid}:{q}:open:newline-empty', 'refuted', q,
                           "the file handed to csv.reader is not opened with newline='' (and the caller's encoding): "
                           "quoted fields containing \\r\\n or \\r are altered before lexing",
                           f'csv.py:{n.lineno} {ast.unparse(n)}', 'call-pre'))
    for fn, n in readers:
        q = f'csv.{fn.name}'
        kw = {k.arg: k.value for k in n.keywords}
        ok = 'delimiter' in kw and isinstance(kw['delimiter'], ast.Name) and kw['delimiter'].id == 'delimiter' and len(n.args) == 1
        obs.append(_ob(f'{pid}:{q}:csv.reader:delimiter-passed', 'discharged' if ok else 'refuted', q,
                       '' if ok else "csv.reader is not given the caller's delimiter", None if ok else f'csv.py:{n.lineno} {ast.unparse(n)}', 'call-pre'))
    if not opens or not readers:
        obs.append(_ob(f'{pid}:csv:call-sites', 'undecided', 'csv', 'open()/csv.reader call sites not found (vacuity guard)', kind='call-pre'))
    return obs

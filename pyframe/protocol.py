"""pyframe store-protocol obligations: alias registration (C15), fingerprint memo (C16),
column-map freshness (C17).  One obligation per syntactic site, re-extracted on every run."""
import ast

from .effects import load_classes, FnInfo, stores_in, _ob


def _stmt_lists(fn):
    """Every statement list (block) in fn."""
    out = []
    for n in ast.walk(fn):
        for fld in ('body', 'orelse', 'finalbody'):
            b = getattr(n, fld, None)
            if isinstance(b, list) and b and isinstance(b[0], ast.stmt):
                out.append(b)
        if isinstance(n, ast.Try):
            for h in n.handlers:
                out.append(h.body)
    return out


def _find_block(fn, stmt):
    for b in _stmt_lists(fn):
        for i, s in enumerate(b):
            if s is stmt:
                return b, i
    return None, None


def _calls(stmt, attr):
    return [n for n in ast.walk(stmt) if isinstance(n, ast.Call) and isinstance(n.func, ast.Attribute) and n.func.attr == attr]


def _self_underlying_stores(info, fn):
    out = []
    for X, fld, val, stmt in stores_in(fn):
        if fld == '_underlying' and info.prov(X) == {'SELF'}:
            out.append((val, stmt))
    return out


def alias_protocol(pid='C15'):
    """C15: every swap of an initialised vector's storage is bracketed by
    unregister(self, id(old)) ... register(self, id(new)); construction registers; an object
    handed back by __new__ already initialised is not re-initialised without unregistering."""
    obs = []
    classes = load_classes()
    for (cname, mname, line), (fname, cnode, fn) in sorted(classes.items()):
        info = FnInfo(cname, fn)
        q = f'{fname[:-3]}.{cname}.{mname}'
        for k, (val, stmt) in enumerate(_self_underlying_stores(info, fn)):
            block, i = _find_block(fn, stmt)
            site = f'{pid}:{q}:bracket'
            where = f'{fname}:{stmt.lineno} {ast.unparse(stmt)[:70]}'
            if block is None:
                obs.append(_ob(site, 'undecided', q, f'store not in a statement list: {where}', kind='protocol'))
                continue
            before = [c for s in block[:i] for c in _calls(s, 'unregister')]
            after = [c for s in block[i + 1:] for c in _calls(s, 'register')]
            # enclosing blocks after the store also count for register (e.g. branch then common tail)
            if not after:
                after = [c for s in fn.body if s.lineno > stmt.lineno for c in _calls(s, 'register')]
            need_unreg = mname != '__init__'
            new_src = ast.unparse(val) if val is not None else ''
            reg_ok = any(len(c.args) == 2 and ast.unparse(c.args[0]) == info.self_name and
                         ast.unparse(c.args[1]) in (f'id({new_src})', f'id({info.self_name}._underlying)') for c in after)
            unreg_ok = any(len(c.args) == 2 and ast.unparse(c.args[0]) == info.self_name for c in before)
            if reg_ok and (unreg_ok or not need_unreg):
                obs.append(_ob(site, 'discharged', q, kind='protocol'))
            else:
                miss = []
                if need_unreg and not unreg_ok:
                    miss.append('unregister(self, id(old)) before the swap')
                if not reg_ok:
                    miss.append('register(self, id(new)) after the swap')
                obs.append(_ob(site, 'refuted', q, 'storage swap without ' + ' and '.join(miss) +
                               ': the registry keeps a stale entry for a live object', where, 'protocol'))
    obs.extend(no_reinit(pid, classes))
    obs.extend(setitem_ids(pid, classes))
    obs.extend(fresh_storage(pid))
    return obs


def no_reinit(pid, classes):
    """Vector.__new__ returning an already-initialised object makes Python run __init__ again
    on it: that second run overwrites _underlying; it must unregister the old storage first."""
    out = []
    new = next((v for k, v in classes.items() if k[0] == 'Vector' and k[1] == '__new__'), None)
    q = 'vector.Vector.__new__'
    if new is None:
        return out
    fname, cnode, fn = new
    returns_initialised = []
    for n in ast.walk(fn):
        if isinstance(n, ast.Return) and isinstance(n.value, ast.Call) and isinstance(n.value.func, ast.Name) \
                and n.value.func.id in ('Table', 'Vector', 'cls'):
            returns_initialised.append(n)
    if not returns_initialised:
        return [_ob(f'{pid}:{q}:no-reinit', 'discharged', q, kind='protocol')]
    # the class whose __init__ will run a second time must protect itself
    init = next((v for k, v in classes.items() if k[0] == 'Table' and k[1] == '__init__'), None)
    vinit = next((v for k, v in classes.items() if k[0] == 'Vector' and k[1] == '__init__'), None)
    guarded = False
    for cand in (init, vinit):
        if cand is None:
            continue
        f = cand[2]
        # accepted guards: an early `return` when already initialised, or an unregister call
        src = ast.unparse(f)
        if 'unregister' in src:
            guarded = True
        for st in f.body[:6]:
            if isinstance(st, ast.If) and any(isinstance(s, ast.Return) for s in st.body) and \
                    ('_underlying' in ast.unparse(st.test) or '_initialised' in ast.unparse(st.test) or '_initialized' in ast.unparse(st.test)):
                guarded = True
    if guarded:
        return [_ob(f'{pid}:{q}:no-reinit', 'discharged', q, kind='protocol')]
    n = returns_initialised[0]
    return [_ob(f'{pid}:{q}:no-reinit', 'refuted', q,
                '__new__ returns an initialised Table; Python then runs __init__ again, which registers a second column tuple without unregistering the first (stale entry for a live object)',
                f'{fname}:{n.lineno} {ast.unparse(n)[:70]}', 'protocol')]


def setitem_ids(pid, classes):
    """The ids handed to the tracker in __setitem__ are those of the tuple actually held
    before / after the swap."""
    ent = next((v for k, v in classes.items() if k[0] == 'Vector' and k[1] == '__setitem__'), None)
    if ent is None:
        return []
    fname, cnode, fn = ent
    q = 'vector.Vector.__setitem__'
    src = ast.unparse(fn)
    ok = 'check_writable(self, id(self._underlying))' in src
    return [_ob(f'{pid}:{q}:check-arg', 'discharged' if ok else 'refuted', q,
                '' if ok else 'check_writable is not asked about the tuple currently held', None, 'protocol')]


def fresh_storage(pid='C15'):
    """C15: a new vector never gets the operand's own tuple object as its storage.
    `tuple(t) is t`, `t[:] is t` and `t + () is t` in CPython, so a construction whose data
    argument may be the receiver's tuple (or the caller's) must pass through list(...) /
    a comprehension / a generator."""
    obs = []
    classes = load_classes()
    for (cname, mname, line), (fname, cnode, fn) in sorted(classes.items()):
        if fname != 'vector.py' or mname in ('__init__', '__new__'):
            continue
        info = FnInfo(cname, fn)
        q = f'{fname[:-3]}.{cname}.{mname}'
        for n in ast.walk(fn):
            if not (isinstance(n, ast.Call) and isinstance(n.func, ast.Name) and n.func.id in ('Vector', 'cls') and n.args):
                continue
            arg = n.args[0]
            kind = _storage_kind(info, arg, n)
            site = f'{pid}:{q}:fresh-storage'
            where = f'{fname}:{n.lineno} {ast.unparse(arg)[:70]}'
            if kind in ('fresh', 'caller'):
                obs.append(_ob(site, 'discharged', q, kind='protocol'))
            elif kind == 'shared':
                obs.append(_ob(site, 'refuted', q, 'the new vector may be built directly over an existing tuple object (tuple(t) is t, t[:] is t, t + () is t): it would share storage with a live vector and both become unwritable',
                               where, 'protocol'))
            else:
                obs.append(_ob(site, 'undecided', q, f'cannot classify the storage argument at {where}', kind='protocol'))
    return obs


def _storage_kind(info, arg, at, depth=0):
    if isinstance(arg, (ast.List, ast.ListComp, ast.GeneratorExp, ast.SetComp)):
        return 'fresh'
    if isinstance(arg, ast.Tuple):
        return 'fresh'          # a literal tuple display builds a new tuple (empty one is the shared (), never registered)
    if isinstance(arg, ast.Call) and isinstance(arg.func, ast.Name):
        if arg.func.id in ('list', 'sorted'):
            return 'fresh'
        if arg.func.id == 'tuple' and arg.args:
            inner = arg.args[0]
            if isinstance(inner, (ast.GeneratorExp, ast.ListComp, ast.List)):
                return 'fresh'
            if isinstance(inner, ast.Name) and inner.id in info.params and info.fn.name != 'copy':
                return 'caller'
            if isinstance(inner, ast.Call) and isinstance(inner.func, ast.Name) and inner.func.id in ('list', 'sorted'):
                return 'fresh'
            return _storage_kind(info, inner, at, depth + 1)
    if isinstance(arg, ast.BinOp) and isinstance(arg.op, ast.Add):
        l, r = _storage_kind(info, arg.left, at, depth + 1), _storage_kind(info, arg.right, at, depth + 1)
        # tuple + tuple is the left (right) operand itself when the other side is empty
        if l == 'fresh' and r == 'fresh':
            return 'fresh'
        if any(isinstance(x, (ast.Tuple, ast.List)) and x.elts for x in (arg.left, arg.right)):
            return 'fresh'      # a non-empty literal on either side forces a new tuple
        if isinstance(arg.left, ast.Call) and getattr(arg.left.func, 'id', '') == 'list':
            return 'fresh'
        return 'shared' if 'shared' in (l, r) else 'unknown'
    if isinstance(arg, ast.Attribute) and arg.attr == '_underlying':
        return 'shared'
    if isinstance(arg, ast.Subscript):
        return _storage_kind(info, arg.value, at, depth + 1)
    if isinstance(arg, ast.IfExp):
        ks = {_storage_kind(info, arg.body, at, depth + 1), _storage_kind(info, arg.orelse, at, depth + 1)}
        return 'shared' if 'shared' in ks else ('unknown' if 'unknown' in ks else ('caller' if 'caller' in ks else 'fresh'))
    if isinstance(arg, ast.Name) and depth < 4:
        rd = info.reaching_def(arg.id, _enclosing_stmt(info, at))
        if rd is not None:
            return _storage_kind(info, rd, at, depth + 1)
        if arg.id in info.params:
            # data handed in by the user is "caller-supplied storage" (sharing it is the documented
            # behaviour); the internal helper `copy` receives tuples derived from the receiver
            return 'shared' if info.fn.name in ('copy',) else 'caller'
        vals = [node for kind, node, pos in info.bindings.get(arg.id, []) if kind == 'expr']
        if vals:
            kinds = {_storage_kind(info, v, at, depth + 1) for v in vals}
            if kinds == {'fresh'}:
                return 'fresh'
            if 'shared' in kinds:
                return 'shared'
    return 'unknown'


def _enclosing_stmt(info, node):
    best = None
    for st in ast.walk(info.fn):
        if isinstance(st, ast.stmt) and any(x is node for x in ast.walk(st)):
            if best is None or (st.lineno >= best.lineno and st.end_lineno <= best.end_lineno):
                best = st
    return best


def fingerprint_protocol(pid='C16'):
    """C16: the memo is dropped on every storage swap, and a Table does not trust a memo
    that its columns (writable through live views) cannot invalidate."""
    obs = []
    classes = load_classes()
    lacking = {}
    for (cname, mname, line), (fname, cnode, fn) in sorted(classes.items()):
        info = FnInfo(cname, fn)
        q = f'{fname[:-3]}.{cname}.{mname}'
        if mname == '__init__':
            continue
        for val, stmt in _self_underlying_stores(info, fn):
            block, bi = _find_block(fn, stmt)
            later = list(block[bi + 1:]) if block is not None else []
            # statements following the enclosing statements also run unconditionally after the store
            later += [s for s in fn.body if s.lineno > stmt.lineno and s not in later]

            def _is_inval(s):
                if isinstance(s, ast.Expr) and isinstance(s.value, ast.Call) and isinstance(s.value.func, ast.Attribute) \
                        and s.value.func.attr == '_invalidate_fp':
                    return True
                return isinstance(s, ast.Assign) and any(isinstance(t, ast.Attribute) and t.attr == '_fp' for t in s.targets) \
                    and isinstance(s.value, ast.Constant) and s.value.value is None
            inval = any(_is_inval(s) for s in later)
            # the memo may not be re-used or patched on the way (incremental updates keep it alive)
            patched = [s for s in ast.walk(fn) if isinstance(s, (ast.Assign, ast.AugAssign)) and
                       any(isinstance(t, ast.Attribute) and t.attr == '_fp' for t in (s.targets if isinstance(s, ast.Assign) else [s.target]))
                       and not (isinstance(getattr(s, 'value', None), ast.Constant) and s.value.value is None)]
            if patched and mname != 'fingerprint':
                inval = False
            site = f'{pid}:{q}:memo-dropped'
            if inval:
                obs.append(_ob(site, 'discharged', q, kind='protocol'))
            elif mname.startswith('_') and not mname.startswith('__'):
                lacking[(cname, mname)] = (q, fname, stmt)
            else:
                obs.append(_ob(site, 'refuted', q, 'storage swapped but the fingerprint memo is kept',
                               f'{fname}:{stmt.lineno}', 'protocol'))
    # private helpers that do not invalidate: every call site on a non-fresh receiver must
    for (cname, mname), (q, fname, stmt) in lacking.items():
        bad = []
        for (c2, m2, l2), (f2, cn2, fn2) in classes.items():
            info2 = FnInfo(c2, fn2)
            for call in _calls(fn2, mname):
                pv = info2.prov(call.func.value)
                if pv <= {'FRESH'}:
                    continue
                later = [s for s in ast.walk(fn2) if isinstance(s, ast.stmt) and s.lineno > call.lineno]
                if not any(_calls(s, '_invalidate_fp') for s in later):
                    bad.append(f'{f2}:{call.lineno} {c2}.{m2}')
        site = f'{pid}:{q}:memo-dropped-by-callers'
        if bad:
            obs.append(_ob(site, 'refuted', q, 'helper swaps storage, keeps the memo, and a caller does not drop it', '; '.join(bad), 'protocol'))
        else:
            obs.append(_ob(site, 'discharged', q, kind='protocol'))
    # owner coherence
    tfp = next((v for k, v in classes.items() if k[0] == 'Table' and k[1] == 'fingerprint'), None)
    q = 'table.Table.fingerprint'
    if tfp is None:
        obs.append(_ob(f'{pid}:{q}:owner-coherent', 'refuted', q,
                       'Table inherits the memoised Vector.fingerprint; a write through a live column view cannot invalidate the table memo',
                       'no Table.fingerprint override', 'protocol'))
    else:
        src = ast.unparse(tfp[2])
        memo = 'self._fp is None' in src or 'return self._fp' in src
        obs.append(_ob(f'{pid}:{q}:owner-coherent', 'refuted' if memo else 'discharged', q,
                       'Table.fingerprint returns a memo that column writes cannot invalidate' if memo else '', None, 'protocol'))
    return obs


def column_map_protocol(pid='C17'):
    """C17: every read of the accessor map is dominated by the wild-column refresh."""
    obs = []
    classes = load_classes()
    # helpers whose body performs the refresh (discovered, not named)
    refreshers = set()
    for (cname, mname, line), (fname, cnode, fn) in classes.items():
        if cname == 'Table' and _has_refresh(fn.body, 'self', set()) and mname not in ('__init__',):
            if any(isinstance(s, ast.Return) for s in ast.walk(fn)) or mname.startswith('_'):
                if mname not in ('__getattr__', '__setattr__', '__setitem__', '__getitem__'):
                    refreshers.add(mname)
    for (cname, mname, line), (fname, cnode, fn) in sorted(classes.items()):
        q = f'{fname[:-3]}.{cname}.{mname}'
        if mname in ('_build_column_map',) or mname in refreshers:
            continue
        reads = []
        for n in ast.walk(fn):
            if isinstance(n, ast.Attribute) and n.attr == '_column_map' and isinstance(n.ctx, ast.Load):
                reads.append(n)
        # uses that go through a refresher helper are fresh by construction: one obligation per call
        for n in ast.walk(fn):
            if isinstance(n, ast.Call) and isinstance(n.func, ast.Attribute) and n.func.attr in refreshers:
                obs.append(_ob(f'{pid}:{q}:map-fresh', 'discharged', q, kind='protocol'))
        if not reads:
            continue
        for r in reads:
            owner = ast.unparse(r.value)
            if cname == 'Row' and owner == 'self':
                continue        # the row's own snapshot; its freshness is decided where it is taken
            if _is_none_test(fn, r):
                continue        # initialisation guard, not a resolution
            # reads used only to emit a warning do not affect resolution
            if _only_in_warning(fn, r):
                continue
            site = f'{pid}:{q}:map-fresh'
            if _dominated_by_refresh(fn, r, owner, refreshers):
                obs.append(_ob(site, 'discharged', q, kind='protocol'))
            else:
                obs.append(_ob(site, 'refuted', q,
                               'accessor map read without refreshing it for renamed (wild) columns: a rename through a live column view is not seen',
                               f'{fname}:{r.lineno} {owner}._column_map', 'protocol'))
    if not obs:
        obs.append(_ob(f'{pid}:table.Table:map-fresh', 'undecided', 'table.Table', 'no accessor-map read site found (vacuity guard)', kind='protocol'))
    return obs


def _has_refresh(stmts, owner, refreshers):
    for s in stmts:
        src = ast.unparse(s)
        if isinstance(s, ast.If) and '_wild' in ast.unparse(s.test) and f'{owner}._column_map = {owner}._build_column_map()' in src:
            return True
        if isinstance(s, ast.Assign) and src.strip() == f'{owner}._column_map = {owner}._build_column_map()':
            return True
        if isinstance(s, ast.Expr) and isinstance(s.value, ast.Call) and \
                src.strip() == f"object.__setattr__({owner}, '_column_map', {owner}._build_column_map())":
            return True
        for rf in refreshers:
            if f'{owner}.{rf}(' in src and isinstance(s, (ast.Expr, ast.Assign)):
                return True
    return False


def _dominated_by_refresh(fn, read, owner, refreshers):
    # the read itself may be the result of a refresher call: X._fresh_map() style is not a read of _column_map
    for block in _stmt_lists(fn) + [fn.body]:
        for i, s in enumerate(block):
            if any(n is read for n in ast.walk(s)):
                if _has_refresh(block[:i], owner, refreshers):
                    return True
    # refresh at function top level before the read
    top = [s for s in fn.body if s.end_lineno < read.lineno]
    return _has_refresh(top, owner, refreshers)


def _is_none_test(fn, read):
    for n in ast.walk(fn):
        if isinstance(n, ast.Compare) and n.left is read and len(n.ops) == 1 and \
                isinstance(n.ops[0], (ast.Is, ast.IsNot)) and isinstance(n.comparators[0], ast.Constant) \
                and n.comparators[0].value is None:
            return True
    return False


def _only_in_warning(fn, read):
    for n in ast.walk(fn):
        if isinstance(n, ast.If) and any(x is read for x in ast.walk(n.test)):
            body_src = ' '.join(ast.unparse(s) for s in n.body)
            if all(isinstance(s, ast.Expr) and 'warnings.warn' in ast.unparse(s) for s in n.body):
                return True
    return False


_NONRAISING_CALLS = {'register', 'unregister', '_invalidate_fp', 'DataType', 'id', 'len', 'with_nullable', 'list', 'tuple'}


def commit_last(pid='C08'):
    """C08 (atomicity of the promotion): in Vector._promote nothing that can still fail may run after
    the first store to a field of self - the converted storage is computed first, the stores come
    last.  Judgement: a statement after the first store that converts elements (calls a
    parameter-derived callable or a builtin numeric type, or contains a comprehension that calls
    anything) or raises is a violation; a call of an unknown helper there is undecided."""
    classes = load_classes()
    ent = next((v for k, v in classes.items() if k[0] == 'Vector' and k[1] == '_promote'), None)
    q = 'vector.Vector._promote'
    if ent is None:
        return [_ob(f'{pid}:{q}:commit-last', 'undecided', q, 'Vector._promote not found', kind='protocol')]
    fname, cnode, fn = ent
    self_name = fn.args.args[0].arg
    stmts = []

    def flat(block):
        for st in block:
            stmts.append(st)
            for fld in ('body', 'orelse', 'finalbody'):
                sub = getattr(st, fld, None)
                if isinstance(sub, list) and sub and isinstance(sub[0], ast.stmt):
                    flat(sub)
    flat(fn.body)
    stores = [st for st in stmts if isinstance(st, (ast.Assign, ast.AugAssign)) and any(
        isinstance(t, ast.Attribute) and isinstance(t.value, ast.Name) and t.value.id == self_name
        for t in (st.targets if isinstance(st, ast.Assign) else [st.target]))]
    if not stores:
        return [_ob(f'{pid}:{q}:commit-last', 'undecided', q, 'no direct store to a field of self (the swap was moved into a helper)', kind='protocol')]
    first = min(st.lineno for st in stores)
    bad, unknown = [], []
    for st in stmts:
        if st.lineno <= first or isinstance(st, (ast.If, ast.For, ast.While, ast.With, ast.Try)):
            continue
        if isinstance(st, ast.Raise):
            bad.append(f'line {st.lineno}: raise after the first store')
            continue
        for n in ast.walk(st):
            if isinstance(n, (ast.GeneratorExp, ast.ListComp, ast.SetComp, ast.DictComp)) and any(isinstance(c, ast.Call) for c in ast.walk(n)):
                bad.append(f'line {st.lineno}: elements are still being converted after the first store: {ast.unparse(st)[:80]}')
                break
            if isinstance(n, ast.Call):
                nm = n.func.attr if isinstance(n.func, ast.Attribute) else getattr(n.func, 'id', '?')
                if nm in _NONRAISING_CALLS:
                    continue
                if nm in ('int', 'float', 'complex', 'bool', 'convert', 'target_kind', 'new_dtype'):
                    bad.append(f'line {st.lineno}: conversion after the first store: {ast.unparse(st)[:80]}')
                else:
                    unknown.append(f'line {st.lineno}: {nm}(...)')
    if bad:
        return [_ob(f'{pid}:{q}:commit-last', 'refuted', q, 'a failing conversion would leave the vector half-promoted (dtype / storage already replaced)', '; '.join(bad), 'protocol')]
    if unknown:
        return [_ob(f'{pid}:{q}:commit-last', 'undecided', q, 'calls of unknown helpers after the first store: ' + '; '.join(unknown), kind='protocol')]
    return [_ob(f'{pid}:{q}:commit-last', 'discharged', q, kind='protocol')]


def obligations(pid):
    if pid == 'C08':
        return column_map_protocol(pid) + commit_last(pid)
    if pid == 'C15':
        return alias_protocol(pid)
    if pid == 'C16':
        return fingerprint_protocol(pid)
    if pid in ('C17', 'C07', 'C08'):
        return column_map_protocol(pid)
    return []

"""pyframe: frame / freshness / purity / store-protocol obligations (DESIGN 2.7).

A small abstract interpreter over the ASTs of the real methods (re-read on every run).
Object references are abstracted to provenance tags:
  SELF      the receiver
  FRESH     allocated in this activation (constructor call, .copy(), deepcopy, operator result)
  SELFCOL   a column object owned by the receiver (element of self._underlying / self.cols())
  PARAM     a caller-supplied object (parameter, or element of a parameter)
  TOP       unknown
One obligation per syntactic site; new store sites in a changed tree become new obligations
automatically.  TOP makes an obligation *undecided*, only definite PARAM flows *refute* it.
"""
import ast
import os
import time

REPO_SRC = os.environ.get('SERIF_SRC', '/repo/src')

VIEW_FIELDS = {'_underlying', '_name', '_dtype', '_display_as_row', '_length', 'name'}
CACHE_FIELDS = {'_fp', '_fp_powers', '_wild', '_column_map', '_repr_rows', '_precomputed_data',
                '_vector', '_method_name', '_raw_cols', '_index'}
CONSTRUCTORS = {'Vector', 'Table', 'Row', 'cls', 'MethodProxy', '_String', '_Int', '_Float', '_Date',
                'DataType', 'target_class'}
FRESH_METHODS = {'copy', 'cast', 'fillna', 'dropna', 'isna', 'to_object', 'sort_by', 'unique', 'pluck',
                 'new', '__new__', 'inner_join', 'join', 'full_join', 'aggregate', 'window', 'peek'}
# methods allowed to write view fields of their receiver (everything else is read-only: `pure`)
MUTATORS = {
    'Vector': {'__init__', '__new__', 'name', 'alias', 'rename', '__setitem__', '_promote'},
    'Table': {'__init__', '__new__', '__setattr__', '__setitem__', 'rename_column', 'rename_columns'},
    'Row': {'__init__', '__new__', 'set_index'},
    'MethodProxy': {'__init__'},
    '_Float': {'__init__'}, '_Int': {'__init__'}, '_String': {'__init__'}, '_Date': {'__init__'},
}
# methods that may (re)name the columns their table owns
COLUMN_META_MUTATORS = {('Table', '__init__'), ('Table', 'rename_column'), ('Table', 'rename_columns')}
MUTATING_CALLS = {'_promote', '__setitem__', 'alias', 'rename', 'rename_column', 'rename_columns', '_mark_wild'}


# methods whose contract is to hand back the receiver / an operand / a live column view
RETURNS_OPERAND = {
    '*': {'__new__', '__init__', '__iter__', '__enter__', '_check_duplicate', '_resolve_column', 'set_index',
          '__getitem__', '__getattr__', 'cols', 'alias', 'rename', 'rename_column', 'rename_columns',
          'schema', '_fresh_column_map', '_build_column_map', 'fingerprint', '_compute_fingerprint_full',
          '_hash_element', '__repr__', '__len__', 'shape', 'name', 'ndims', '_underlying'},
}


def _inside_nested_def(fn, node):
    for n in ast.walk(fn):
        if n is not fn and isinstance(n, (ast.FunctionDef, ast.Lambda)):
            if any(x is node for x in ast.walk(n)):
                return True
    return False


def _returns_vectorish(info, name_node):
    """The returned name denotes the receiver, a parameter object or a column (not a scalar local)."""
    return True


def load_classes():
    out = {}
    for fname in ('vector.py', 'table.py'):
        path = os.path.join(REPO_SRC, 'serif', fname)
        with open(path) as fh:
            tree = ast.parse(fh.read(), filename=path)
        for node in tree.body:
            if isinstance(node, ast.ClassDef):
                for item in node.body:
                    if isinstance(item, ast.FunctionDef):
                        out[(node.name, item.name, item.lineno)] = (fname, node, item)
    return out


class FnInfo:
    def __init__(self, cls, fn):
        self.cls = cls
        self.fn = fn
        a = fn.args
        self.params = [p.arg for p in a.posonlyargs + a.args + a.kwonlyargs]
        if a.vararg:
            self.params.append(a.vararg.arg)
        if a.kwarg:
            self.params.append(a.kwarg.arg)
        self.is_static = any(isinstance(d, ast.Name) and d.id == 'staticmethod' for d in fn.decorator_list)
        self.is_classmethod = any(isinstance(d, ast.Name) and d.id == 'classmethod' for d in fn.decorator_list)
        self.self_name = None if self.is_static else (self.params[0] if self.params else None)
        if fn.name == '__new__' or self.is_classmethod:
            self.self_name = None
        self.bindings = {}      # name -> list of ('expr', node) / ('elem', iter node, position)
        self.appends = {}       # list name -> [expr]
        self.item_stores = {}   # list name -> [expr]
        self._collect(fn)

    def _bind_target(self, target, kind, node, pos=None):
        if isinstance(target, ast.Name):
            self.bindings.setdefault(target.id, []).append((kind, node, pos))
        elif isinstance(target, (ast.Tuple, ast.List)):
            for j, t in enumerate(target.elts):
                if kind == 'elem':
                    self._bind_target(t, 'elem', node, (pos or ()) + (j,))
                else:
                    self._bind_target(t, 'unpack', node, (pos or ()) + (j,))

    def _collect(self, fn):
        for n in ast.walk(fn):
            if isinstance(n, ast.Assign):
                for t in n.targets:
                    if isinstance(t, ast.Subscript) and isinstance(t.value, ast.Name):
                        self.item_stores.setdefault(t.value.id, []).append(n.value)
                    else:
                        self._bind_target(t, 'expr', n.value)
            elif isinstance(n, ast.AnnAssign) and n.value is not None:
                self._bind_target(n.target, 'expr', n.value)
            elif isinstance(n, ast.AugAssign):
                self._bind_target(n.target, 'expr', n.value)
            elif isinstance(n, (ast.For, ast.comprehension)):
                self._bind_target(n.target, 'elem', n.iter)
            elif isinstance(n, ast.Call) and isinstance(n.func, ast.Attribute) and n.func.attr == 'append' \
                    and isinstance(n.func.value, ast.Name) and n.args:
                self.appends.setdefault(n.func.value.id, []).append(n.args[0])

    # --- reaching definition (kills the flow-insensitive union when it is definite) -------
    def _parents(self):
        if not hasattr(self, '_pm'):
            self._pm = {}
            for n in ast.walk(self.fn):
                for fld in ('body', 'orelse', 'finalbody'):
                    b = getattr(n, fld, None)
                    if isinstance(b, list):
                        for i, st in enumerate(b):
                            if isinstance(st, ast.stmt):
                                self._pm[id(st)] = (n, b, i)
                if isinstance(n, ast.Try):
                    for h in n.handlers:
                        for i, st in enumerate(h.body):
                            self._pm[id(st)] = (n, h.body, i)
        return self._pm

    def reaching_def(self, name, stmt):
        """Value expression of the assignment to `name` that definitely reaches `stmt`, or None."""
        pm = self._parents()
        cur = stmt
        while cur is not None and id(cur) in pm:
            parent, block, i = pm[id(cur)]
            for prev in reversed(block[:i]):
                if isinstance(prev, ast.Assign) and len(prev.targets) == 1 and isinstance(prev.targets[0], ast.Name) \
                        and prev.targets[0].id == name:
                    self._last_def_stmt = prev
                    return prev.value
                if any(isinstance(x, ast.Name) and isinstance(x.ctx, ast.Store) and x.id == name for x in ast.walk(prev)):
                    return None         # conditional / compound redefinition: not definite
            if isinstance(parent, (ast.For, ast.While)):
                return None
            cur = parent if isinstance(parent, ast.stmt) else None
        return None

    def prov_at(self, e, stmt):
        """Provenance of reference e as used in statement stmt (flow-sensitive when definite)."""
        if isinstance(e, ast.Name) and e.id != self.self_name:
            rd = self.reaching_def(e.id, stmt)
            if rd is not None:
                return self.prov(rd, {e.id})
        return self.prov(e)

    def elem_prov_at(self, it, stmt):
        if isinstance(it, ast.Call) and isinstance(it.func, ast.Name) and it.func.id in ('tuple', 'list') and it.args:
            return self.elem_prov_at(it.args[0], stmt)
        if isinstance(it, ast.Name):
            rd = self.reaching_def(it.id, stmt)
            if rd is not None:
                dstmt = self._last_def_stmt
                if isinstance(rd, ast.Name) or (isinstance(rd, ast.Call) and isinstance(rd.func, ast.Name) and rd.func.id in ('tuple', 'list')):
                    out = self.elem_prov_at(rd, dstmt)
                else:
                    out = self.elem_prov(rd, {it.id})
                # element stores / appends into this container between its definition and the use
                for st2 in ast.walk(self.fn):
                    if not isinstance(st2, ast.stmt) or not (dstmt.lineno < st2.lineno <= stmt.lineno):
                        continue
                    if isinstance(st2, ast.Assign):
                        for t in st2.targets:
                            if isinstance(t, ast.Subscript) and isinstance(t.value, ast.Name) and t.value.id == it.id:
                                out |= self.prov_at(st2.value, st2)
                    if isinstance(st2, ast.Expr) and isinstance(st2.value, ast.Call) and isinstance(st2.value.func, ast.Attribute) \
                            and st2.value.func.attr == 'append' and isinstance(st2.value.func.value, ast.Name) \
                            and st2.value.func.value.id == it.id and st2.value.args:
                        out |= self.prov_at(st2.value.args[0], st2)
                return out
        return self.elem_prov(it)

    # --- provenance of a reference expression ------------------------------------------
    def prov(self, e, seen=None):
        seen = seen or set()
        if isinstance(e, ast.Name):
            if e.id == self.self_name:
                return {'SELF'}
            out = set()
            if e.id in self.params:
                out.add('PARAM')
            if e.id in seen:
                return out          # cycle: least fixed point, contributes nothing new
            seen = seen | {e.id}
            for kind, node, pos in self.bindings.get(e.id, []):
                if kind == 'expr':
                    out |= self.prov(node, seen)
                elif kind == 'elem':
                    out |= self.elem_prov(node, seen, pos)
                else:
                    out |= self.elem_prov(node, seen, pos[1:] if pos and len(pos) > 1 else None)
            return out or {'TOP'}
        if isinstance(e, ast.IfExp):
            return self.prov(e.body, seen) | self.prov(e.orelse, seen)
        if isinstance(e, ast.Call):
            f = e.func
            if isinstance(f, ast.Name):
                if f.id in CONSTRUCTORS or f.id == 'deepcopy':
                    return {'FRESH'}
                if f.id in ('op_func', 'op', 'caster'):
                    return {'FRESH'}
            if isinstance(f, ast.Attribute):
                if f.attr in FRESH_METHODS or f.attr.startswith('_elementwise'):
                    return {'FRESH'}
                if f.attr == '_check_duplicate' and e.args:
                    return self.prov(e.args[0], seen) | {'FRESH'}
                if f.attr == '_resolve_column':
                    return {'SELFCOL' if 'SELF' in self.prov(f.value, seen) else 'PARAM'} | \
                        (self.prov(e.args[0], seen) if e.args else set())
                if f.attr == 'cols' and e.args:
                    base = self.prov(f.value, seen)
                    return {'SELFCOL'} if base == {'SELF'} else ({'FRESH'} if base == {'FRESH'} else {'PARAM'})
                if f.attr == 'set_index':
                    return self.prov(f.value, seen)
                if isinstance(f.value, ast.Call) and isinstance(f.value.func, ast.Name) and f.value.func.id == 'super':
                    return {'FRESH'} if f.attr == '__new__' else {'TOP'}
            return {'TOP'}
        if isinstance(e, ast.Subscript):
            return self.elem_prov(e.value, seen)
        if isinstance(e, ast.BinOp):
            return {'FRESH'}
        if isinstance(e, ast.Attribute):
            return {'TOP'}
        return {'TOP'}

    def elem_prov(self, it, seen=None, pos=None):
        """Provenance of the elements of container / iterable expression `it`."""
        seen = seen or set()
        if isinstance(it, ast.Call):
            f = it.func
            if isinstance(f, ast.Name):
                if f.id in ('zip',):
                    if pos:
                        j = pos[0]
                        if j < len(it.args):
                            return self.elem_prov(it.args[j], seen, pos[1:] or None)
                    out = set()
                    for a in it.args:
                        out |= self.elem_prov(a, seen)
                    return out
                if f.id == 'enumerate':
                    if pos and pos[0] == 0:
                        return {'FRESH'}
                    return self.elem_prov(it.args[0], seen, pos[1:] if pos and len(pos) > 1 else None)
                if f.id in ('list', 'tuple', 'reversed', 'iter', 'sorted'):
                    return self.elem_prov(it.args[0], seen, pos) if it.args else set()
                if f.id == 'range':
                    return {'FRESH'}
            if isinstance(f, ast.Attribute) and f.attr == 'cols':
                base = self.prov(f.value, seen)
                return {'SELFCOL'} if base == {'SELF'} else ({'FRESH'} if base == {'FRESH'} else {'PARAM'})
            if isinstance(f, ast.Attribute) and f.attr in ('items', 'values'):
                return {'PARAM'} if 'PARAM' in self.prov(f.value, seen) else {'TOP'}
            return {'TOP'}
        if isinstance(it, ast.Attribute) and it.attr in ('_underlying',):
            base = self.prov(it.value, seen)
            if base == {'SELF'}:
                return {'SELFCOL'}
            if base <= {'FRESH'}:
                return {'FRESH'}
            if 'PARAM' in base:
                return {'PARAM'}
            return {'TOP'}
        if isinstance(it, (ast.GeneratorExp, ast.ListComp)):
            sub = FnView(self, it)
            return sub.prov(it.elt, seen)
        if isinstance(it, (ast.Tuple, ast.List)):
            out = set()
            for x in it.elts:
                out |= self.prov(x, seen)
            return out or {'FRESH'}
        if isinstance(it, ast.BinOp) and isinstance(it.op, ast.Add):
            return self.elem_prov(it.left, seen, pos) | self.elem_prov(it.right, seen, pos)
        if isinstance(it, ast.IfExp):
            return self.elem_prov(it.body, seen, pos) | self.elem_prov(it.orelse, seen, pos)
        if isinstance(it, ast.Subscript):
            return self.elem_prov(it.value, seen, pos)
        if isinstance(it, ast.Name):
            if it.id == self.self_name:
                return {'SELFCOL'}
            out = set()
            if it.id in self.params:
                out.add('PARAM')
            if it.id in seen:
                return out
            seen2 = seen | {it.id}
            for kind, node, p in self.bindings.get(it.id, []):
                if kind == 'expr':
                    out |= self.elem_prov(node, seen2, pos)
                else:
                    out |= {'TOP'}
            for x in self.appends.get(it.id, []) + self.item_stores.get(it.id, []):
                out |= self.prov(x, seen2)
            return out or {'TOP'}
        if isinstance(it, ast.Constant):
            return set()
        return {'TOP'}


class FnView:
    """Scope of a comprehension: its own targets shadow the function's bindings."""

    def __init__(self, parent, comp):
        self.parent = parent
        self.local = {}
        for g in comp.generators:
            self._bind(g.target, g.iter, None)

    def _bind(self, target, it, pos):
        if isinstance(target, ast.Name):
            self.local[target.id] = (it, pos)
        elif isinstance(target, (ast.Tuple, ast.List)):
            for j, t in enumerate(target.elts):
                self._bind(t, it, (pos or ()) + (j,))

    def prov(self, e, seen):
        if isinstance(e, ast.Name) and e.id in self.local:
            it, pos = self.local[e.id]
            return self.parent.elem_prov(it, seen, pos)
        if isinstance(e, ast.Call) and isinstance(e.func, ast.Attribute) and isinstance(e.func.value, ast.Name) \
                and e.func.value.id in self.local:
            if e.func.attr in FRESH_METHODS:
                return {'FRESH'}
        if isinstance(e, ast.Subscript) and isinstance(e.value, ast.Name) and e.value.id in self.local:
            return {'FRESH'} if True else set()
        return self.parent.prov(e, seen)


def stores_in(fn):
    """(target expr X, field, value expr, stmt) for every attribute store in fn."""
    out = []
    for n in ast.walk(fn):
        if isinstance(n, (ast.Assign, ast.AugAssign, ast.AnnAssign)):
            targets = n.targets if isinstance(n, ast.Assign) else [n.target]
            for t in targets:
                for tt in (t.elts if isinstance(t, (ast.Tuple, ast.List)) else [t]):
                    if isinstance(tt, ast.Attribute):
                        out.append((tt.value, tt.attr, getattr(n, 'value', None), n))
        elif isinstance(n, ast.Delete):
            for t in n.targets:
                if isinstance(t, ast.Attribute):
                    out.append((t.value, t.attr, None, n))
        elif isinstance(n, ast.stmt):
            calls = [n.value] if isinstance(n, ast.Expr) and isinstance(n.value, ast.Call) else []
            for c in calls:
                if isinstance(c.func, ast.Attribute) and c.func.attr == '__setattr__' \
                        and isinstance(c.func.value, ast.Name) and c.func.value.id == 'object' and len(c.args) == 3:
                    fld = c.args[1].value if isinstance(c.args[1], ast.Constant) else '*'
                    out.append((c.args[0], fld, c.args[2], n))
    return out


def _ob(name, status, function, reason='', model=None, kind='frame'):
    return {'name': name, 'kind': kind, 'status': status, 'backend': 'pyframe', 'time_s': 0.0,
            'exact': True, 'reason': reason, 'model': model, 'function': function}


def frame_obligations(pid='C01'):
    """C01: frame / pure / fresh-column obligations for every method of vector.py / table.py."""
    obs = []
    classes = load_classes()
    for (cname, mname, line), (fname, cnode, fn) in sorted(classes.items()):
        info = FnInfo(cname, fn)
        q = f'{fname[:-3]}.{cname}.{mname}'
        is_setter = any(isinstance(d, ast.Attribute) and d.attr == 'setter' for d in fn.decorator_list)
        mutator = mname in MUTATORS.get(cname, set()) or is_setter or \
            any(mname in MUTATORS.get(b.id, set()) for b in cnode.bases if isinstance(b, ast.Name) and cname not in MUTATORS)
        for X, fld, val, stmt in stores_in(fn):
            if fld not in VIEW_FIELDS | CACHE_FIELDS and fld != '*':
                continue
            p = info.prov_at(X, stmt)
            site = f'{pid}:{q}:frame@{fld}'
            where = f'{fname}:{stmt.lineno} {ast.unparse(stmt)[:80]}'
            if 'PARAM' in p:
                obs.append(_ob(site, 'refuted', q, 'store through a caller-supplied object',
                               f'{where}  provenance={sorted(p)}'))
            elif 'TOP' in p:
                obs.append(_ob(site, 'undecided', q, f'unknown provenance at {where}'))
            elif 'SELFCOL' in p and not (fld in ('_name', '_wild', 'name') and (cname, mname) in COLUMN_META_MUTATORS):
                obs.append(_ob(site, 'refuted', q, 'write to an owned column outside the column-metadata mutators', where))
            else:
                obs.append(_ob(site, 'discharged', q))
            # purity: read-only operations store to cache fields only
            if 'SELF' in p and fld in VIEW_FIELDS and not mutator:
                obs.append(_ob(f'{pid}:{q}:pure@{fld}', 'refuted', q, 'read-only operation writes a view field of its receiver', where, 'pure'))
        if not mutator:
            bad = []
            for n in ast.walk(fn):
                if isinstance(n, ast.Call) and isinstance(n.func, ast.Attribute) and n.func.attr in MUTATING_CALLS:
                    pv = info.prov(n.func.value)
                    if pv & {'SELF', 'PARAM', 'SELFCOL'}:
                        bad.append(f'{fname}:{n.lineno} {ast.unparse(n)[:60]} provenance={sorted(pv)}')
                if isinstance(n, ast.Assign):
                    for t in n.targets:
                        if isinstance(t, ast.Subscript):
                            pv = info.prov(t.value)
                            if isinstance(t.value, ast.Name) and pv <= {'FRESH', 'TOP'}:
                                continue
                            if pv & {'SELF', 'PARAM', 'SELFCOL'} and not (isinstance(t.value, ast.Name) and t.value.id in info.appends):
                                if isinstance(t.value, ast.Name) and _is_plain_local_container(info, t.value.id):
                                    continue
                                bad.append(f'{fname}:{n.lineno} {ast.unparse(n)[:60]} provenance={sorted(pv)}')
            if bad:
                obs.append(_ob(f'{pid}:{q}:pure', 'refuted', q, 'read-only operation mutates an operand', '; '.join(bad), 'pure'))
            else:
                obs.append(_ob(f'{pid}:{q}:pure', 'discharged', q, kind='pure'))
        # fresh-result: an operation that returns a new object never hands back an operand
        if mname not in RETURNS_OPERAND.get(cname, set()) and mname not in RETURNS_OPERAND['*']:
            for n in ast.walk(fn):
                if isinstance(n, ast.Return) and n.value is not None and isinstance(n.value, (ast.Name, ast.Call, ast.Subscript, ast.IfExp, ast.BinOp)):
                    if _inside_nested_def(fn, n):
                        continue
                    pv = info.prov_at(n.value, n) if isinstance(n.value, ast.Name) else info.prov(n.value)
                    site = f'{pid}:{q}:fresh-result'
                    where = f'{fname}:{n.lineno} {ast.unparse(n)[:60]}'
                    if pv & {'SELF', 'PARAM', 'SELFCOL'} and _returns_vectorish(info, n.value):
                        obs.append(_ob(site, 'refuted', q, 'returns an operand / an owned column instead of a new object', f'{where} provenance={sorted(pv)}', 'fresh-result'))
                    elif pv <= {'FRESH'}:
                        obs.append(_ob(site, 'discharged', q, kind='fresh-result'))
        # stores to fields the model does not know: a new per-object memo in a read-only operation
        for X, fld, val, stmt in stores_in(fn):
            if fld in VIEW_FIELDS | CACHE_FIELDS or fld == '*':
                continue
            p = info.prov_at(X, stmt)
            if p & {'SELF', 'PARAM', 'SELFCOL'} and not mutator and cname in ('Vector', 'Table'):
                obs.append(_ob(f'{pid}:{q}:pure@{fld}', 'undecided', q,
                               f'read-only operation stores an attribute unknown to the frame model on a live object ({fname}:{stmt.lineno} {ast.unparse(stmt)[:60]}): a cache that later operations may trust', kind='pure'))
        # fresh-column: what reaches a Table's _underlying
        if cname == 'Table':
            for X, fld, val, stmt in stores_in(fn):
                if fld != '_underlying' or val is None:
                    continue
                ep = info.elem_prov_at(val, stmt)
                site = f'{pid}:{q}:fresh-column'
                where = f'{fname}:{stmt.lineno} {ast.unparse(stmt)[:80]}'
                if 'PARAM' in ep:
                    obs.append(_ob(site, 'refuted', q, "a caller's vector object is stored as a column", f'{where} elements={sorted(ep)}', 'fresh-column'))
                elif 'TOP' in ep:
                    obs.append(_ob(site, 'undecided', q, f'unknown element provenance at {where}', kind='fresh-column'))
                else:
                    obs.append(_ob(site, 'discharged', q, kind='fresh-column'))
    # Table.__init__ copies every input column (callee contract used by every Table-producing site)
    obs.extend(table_init_copies(pid, classes))
    obs.extend(check_first(pid, classes))
    return obs


def _is_plain_local_container(info, name):
    for kind, node, pos in info.bindings.get(name, []):
        if kind == 'expr' and isinstance(node, (ast.List, ast.Dict, ast.ListComp, ast.DictComp)):
            return True
        if kind == 'expr' and isinstance(node, ast.Call) and isinstance(node.func, ast.Name) and node.func.id in ('list', 'dict', 'set'):
            return True
        if kind == 'expr' and isinstance(node, ast.BinOp):
            return True
    return False


def table_init_copies(pid, classes):
    fn = next((v[2] for k, v in classes.items() if k[0] == 'Table' and k[1] == '__init__'), None)
    q = 'table.Table.__init__'
    if fn is None:
        return [_ob(f'{pid}:{q}:fresh-column', 'undecided', q, 'Table.__init__ not found', kind='fresh-column')]
    info = FnInfo('Table', fn)
    # the value handed to super().__init__ must consist of FRESH elements
    for n in ast.walk(fn):
        if isinstance(n, ast.Call) and isinstance(n.func, ast.Attribute) and n.func.attr == '__init__' \
                and isinstance(n.func.value, ast.Call) and getattr(n.func.value.func, 'id', '') == 'super' and n.args:
            ep = info.elem_prov(n.args[0])
            # `initial` is rebound to a tuple of copies before the call; the parameter binding itself
            # is shadowed on every path (if/else both assign) - check that structurally
            rebinds = [b for b in info.bindings.get(getattr(n.args[0], 'id', ''), []) if b[0] == 'expr']
            fresh_only = set()
            for kind, node, pos in rebinds:
                fresh_only |= info.elem_prov(node, {getattr(n.args[0], 'id', '')})
            dict_branch = {'FRESH'}
            ok = fresh_only <= {'FRESH'} and _rebound_on_all_paths(fn, getattr(n.args[0], 'id', ''), n)
            if ok:
                return [_ob(f'{pid}:{q}:fresh-column', 'discharged', q, kind='fresh-column')]
            return [_ob(f'{pid}:{q}:fresh-column', 'refuted' if 'PARAM' in fresh_only else 'undecided', q,
                        'columns stored by Table.__init__ are not provably copies', f'elements={sorted(fresh_only)}', 'fresh-column')]
    return [_ob(f'{pid}:{q}:fresh-column', 'undecided', q, 'no super().__init__ call found', kind='fresh-column')]


def _rebound_on_all_paths(fn, name, before):
    """`name` is reassigned in both branches of an if/else (or unconditionally) before `before`."""
    for st in fn.body:
        if st.lineno >= before.lineno:
            break
        if isinstance(st, ast.If) and st.orelse:
            def assigns(block):
                return any(isinstance(s, ast.Assign) and any(isinstance(t, ast.Name) and t.id == name for t in s.targets) for s in block)
            if assigns(st.body) and assigns(st.orelse):
                vals = [s.value for blk in (st.body, st.orelse) for s in blk
                        if isinstance(s, ast.Assign) and any(isinstance(t, ast.Name) and t.id == name for t in s.targets)]
                good = True
                for v in vals:
                    if isinstance(v, ast.Tuple) and not v.elts:
                        continue
                    if isinstance(v, ast.Call) and getattr(v.func, 'id', '') == 'tuple' and v.args and \
                            isinstance(v.args[0], ast.GeneratorExp) and isinstance(v.args[0].elt, ast.Call) and \
                            isinstance(v.args[0].elt.func, ast.Attribute) and v.args[0].elt.func.attr == 'copy':
                        continue
                    good = False
                if good:
                    return True
    return False


def check_first(pid, classes):
    """C01/C08: Vector.__setitem__ asks the tracker before anything else."""
    fn = next((v[2] for k, v in classes.items() if k[0] == 'Vector' and k[1] == '__setitem__'), None)
    q = 'vector.Vector.__setitem__'
    if fn is None:
        return []
    first_store = min([s[3].lineno for s in stores_in(fn)] or [10 ** 9])
    for st in fn.body:
        for n in ast.walk(st):
            if isinstance(n, ast.Call) and isinstance(n.func, ast.Attribute) and n.func.attr == 'check_writable':
                if st.lineno < first_store and _args_are(n, 'self', 'id(self._underlying)'):
                    return [_ob(f'{pid}:{q}:check-first', 'discharged', q, kind='protocol')]
                return [_ob(f'{pid}:{q}:check-first', 'refuted', q, 'check_writable is not called on (self, id(self._underlying)) before the first store',
                            f'line {n.lineno}: {ast.unparse(n)}', 'protocol')]
    return [_ob(f'{pid}:{q}:check-first', 'refuted', q, 'no check_writable call', None, 'protocol')]


def _args_are(call, *srcs):
    return [ast.unparse(a) for a in call.args] == list(srcs)


def obligations(pid, tier):
    t0 = time.time()
    if pid == 'C01':
        obs = frame_obligations(pid)
    else:
        from . import protocol
        obs = protocol.obligations(pid)
    dt = time.time() - t0
    for o in obs:
        o['time_s'] = round(dt / max(1, len(obs)), 5)
    return obs

import sys, time
sys.path.insert(0, '/verif'); import os; sys.path.insert(0, os.environ.get('SERIF_SRC','/repo/src'))
from pyvc import contract as C
import importlib
mods = sys.argv[1].split(',')
for m in mods: importlib.import_module(m)
only = sys.argv[2:] 
items = C.all_contracts() + C.LEMMAS
for c in items:
    if only and not any(o in (c.qual + '#' + str(getattr(c, 'variant', ''))) for o in only): continue
    rep = C.verify_contract(c)
    st = {}
    for ob in rep.obligations: st[ob.status] = st.get(ob.status,0)+1
    print(f'{c.qual:55s} paths={rep.paths:4d} obs={len(rep.obligations):4d} {st} {rep.time_s:.2f}s explore={getattr(rep,"explore_s",0):.1f}s', rep.error or '')
    for ob in rep.obligations:
        if ob.status != 'discharged':
            print('   ', ob.name, ob.status, ob.reason, ob.meta)
            if ob.model is not None:
                print('      model:', str(ob.model)[:600].replace('\n',' '))
            if not os.environ.get('DEV_ALL'): break

"""Regenerate MANIFEST.json from vconfig.PROPS (keeps it valid at all times)."""
import json, sys, os
sys.path.insert(0, os.path.dirname(os.path.abspath(__file__)))
from vconfig import PROPS, MANIFEST_TEXT
ids = [json.loads(l)['id'] for l in open('properties.jsonl')]
checks = []
na = []
for pid in ids:
    if pid in PROPS and not PROPS[pid].get('disabled'):
        t = MANIFEST_TEXT[pid]
        checks.append({
            'property_id': pid,
            'quick_cmd': f'./check {pid} --tier quick',
            'thorough_cmd': f'./check {pid} --tier thorough',
            'evidence_file': f'evidence/{pid}.json',
            'replay_cmd_template': f'./check {pid} --replay {{path}}',
            'engine': 'pyvc',
            'level_claimed': {'category': PROPS[pid]['level'], 'text': t['text'], 'design_ref': t.get('design_ref', 'DESIGN.md section 4 ' + pid)},
            'level_note': t['note'],
            'technique': t['technique'],
        })
    else:
        na.append({'property_id': pid, 'reason': PROPS.get(pid, {}).get('na_reason', 'check under construction in this round: contracts not yet discharged, not claimed')})
m = {
    'version': 1,
    'setup_cmd': './check --setup',
    'hooks': {'guard': 'SERIF_VERIF', 'enable': 'none: contracts are sidecars under /verif/contracts, no hook in /repo', 
              'baseline_off_cmd': 'cd /repo && /venv/bin/python -m pytest -ra -q -p no:cacheprovider --timeout=900 --continue-on-collection-errors',
              'source_commits': [], 'add_only': True},
    'engines': [
        {'name': 'pyvc', 'path': 'pyvc/', 'serves_properties': [c['property_id'] for c in checks], 'kind_free_text': 'contract-based deductive verification: path-splitting symbolic executor that generates verification conditions from the AST of the real functions (re-read from /repo on every run) against sidecar contracts, discharged by z3 5.1 / cvc5 / z3 4.8'},
        {'name': 'bounded', 'path': 'bounded/', 'serves_properties': [c['property_id'] for c in checks], 'kind_free_text': 'bounded stand-ins: the same spec functions run natively over exhaustive small scopes (labelled bounded, never counted as proved)'},
    ],
    'checks': checks,
    'notes': 'Exit codes: 0 held / 1 VIOLATION / 2 undecided with no stand-in / 3 checker defect. See DESIGN.md.',
}
m['not_applicable'] = na     # kept explicit: empty means every listed property is claimed
json.dump(m, open('MANIFEST.json', 'w'), indent=1)
print(len(checks), 'checks,', len(na), 'not claimed')

"""Markdown status table from evidence/*.json (run after the checks)."""
import json, os, sys
ROOT = os.path.dirname(os.path.dirname(os.path.abspath(__file__)))
sys.path.insert(0, ROOT)
import vconfig
print('| property | level | tier of last run | obligations (discharged) | functions / lemmas under contract | back ends | bounded evaluations | wall s |')
print('|---|---|---|---|---|---|---|---|')
for i in range(1, 21):
    pid = f'C{i:02d}'
    p = os.path.join(ROOT, 'evidence', pid + '.json')
    if not os.path.exists(p):
        continue
    e = json.load(open(p))
    c = e['coverage']
    fns = c.get('functions_under_contract', [])
    names = sorted({f['function'] for f in fns})
    print(f"| {pid} | {e['level']} | {e['tier']} | {c.get('obligations', 0)} ({c.get('discharged', 0)}) | {len(names)} | {', '.join(b.replace('z3-5.1(py, e-matching only)', 'z3 e-matching').replace('z3-5.1(py)', 'z3') for b in c.get('backends', []))[:60]} | {c.get('evaluations', 0)} | {e['wall_s']} |")

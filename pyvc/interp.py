"""AST interpreter over symbolic values (expressions, statements, calls)."""
import ast
import builtins as _bi
import collections.abc
import datetime as _dt
import importlib
import operator as _op
import types
import z3

from .model import (PyVal, Kind, K, Fl, OP, binop, unop, is_subclass, kind_name, str_of,
                    int_like, int_of, floordiv, pymod, repr_of)
from .values import *   # noqa
from .values import _fresh
from .explore import Infeasible, PathEnd


class PyRaise(Exception):
    def __init__(self, exc):
        self.exc = exc


class ReturnSig(Exception):
    def __init__(self, value):
        self.value = value


class BreakSig(Exception):
    pass


class ContinueSig(Exception):
    pass


KINDMAP = {
    type(None): 'NoneType', bool: 'bool', int: 'int', float: 'float', complex: 'complex',
    str: 'str', bytes: 'bytes', _dt.date: 'date', _dt.datetime: 'datetime', list: 'list',
    dict: 'dict', tuple: 'tuple', object: 'object', _dt.timedelta: 'timedelta', set: 'set',
    bytearray: 'bytearray',
}
KIND_TO_PY = {v: k for k, v in KINDMAP.items()}

OPFUNCS = {_op.add: 'add', _op.sub: 'sub', _op.mul: 'mul', _op.truediv: 'truediv',
           _op.floordiv: 'floordiv', _op.mod: 'mod', _op.pow: 'pow', _op.lshift: 'lshift',
           _op.rshift: 'rshift', _op.and_: 'and_', _op.or_: 'or_', _op.xor: 'xor',
           _op.eq: 'eq', _op.ne: 'ne', _op.lt: 'lt', _op.le: 'le', _op.gt: 'gt', _op.ge: 'ge',
           _op.neg: 'neg', _op.pos: 'pos', _op.abs: 'abs', _op.invert: 'invert',
           _op.not_: 'not_', abs: 'abs'}

BINOPS = {ast.Add: 'add', ast.Sub: 'sub', ast.Mult: 'mul', ast.Div: 'truediv',
          ast.FloorDiv: 'floordiv', ast.Mod: 'mod', ast.Pow: 'pow', ast.LShift: 'lshift',
          ast.RShift: 'rshift', ast.BitAnd: 'and_', ast.BitOr: 'or_', ast.BitXor: 'xor',
          ast.MatMult: 'matmul'}
CMPOPS = {ast.Eq: 'eq', ast.NotEq: 'ne', ast.Lt: 'lt', ast.LtE: 'le', ast.Gt: 'gt', ast.GtE: 'ge'}


class Env:
    def __init__(self, globs, parent=None, qual=''):
        self.vars = {}
        self.globs = globs
        self.parent = parent
        self.qual = qual
        self.global_names = set()

    def lookup(self, name):
        e = self
        while e is not None:
            if name in e.vars:
                return e.vars[name]
            e = e.parent
        raise KeyError(name)

    def snapshot(self):
        """Copy of the variable chain (used by lazily evaluated comprehension bodies)."""
        e = Env(self.globs, self.parent.snapshot() if self.parent else None, self.qual)
        e.vars = dict(self.vars)
        return e


from . import explore as explore_mod

class Interp:
    def __init__(self, explorer, src_index, registry=None, extended=False):
        self.ex = explorer
        self.src = src_index
        self.registry = registry or {}
        self.extended = extended
        self.use_contracts = True
        self.lift_cache = {}
        self.loop_specs = {}        # (qualname, loop ordinal) -> LoopSpec
        self.call_depth = 0
        self.assumptions = set()    # textual log of modelling assumptions used
        self.cur_exc = []
        self.representations = {}   # (qualname, local name) -> 'symdict' | 'symset:key' | 'symset:int' | 'symlist' | 'list_of_symlist'
        self.exit_asserts = {}      # qualname -> sidecar function over the locals at `return`
        from . import builtins as B
        self.B = B

    # ------------------------------------------------------------------ lifting
    def lift(self, obj):
        if obj is None:
            return NONE
        if obj is Ellipsis:
            return ELLIPSIS
        if isinstance(obj, bool):
            return VBool(obj)
        if isinstance(obj, int):
            return VInt(obj)
        if isinstance(obj, str):
            return VStr(obj)
        if isinstance(obj, float):
            return VAny(PyVal.PF(z3.Const('flt_' + repr(obj), Fl)))
        if isinstance(obj, tuple):
            return VTuple([self.lift(x) for x in obj])
        key = id(obj)
        if key in self.lift_cache:
            return self.lift_cache[key][1]
        v = self._lift(obj)
        self.lift_cache[key] = (obj, v)
        return v

    def _lift(self, obj):
        if getattr(obj, '__module__', None) == 'typing' and hasattr(obj, '__origin__'):
            return self.lift(obj.__origin__)
        if isinstance(obj, type):
            if obj in KINDMAP:
                return VKind(KINDMAP[obj])
            return VClass(obj)
        if isinstance(obj, types.FunctionType):
            return self.lift_function(obj)
        if isinstance(obj, types.ModuleType):
            return VModule(obj)
        if obj in OPFUNCS:
            return VFunc('op', name=OPFUNCS[obj])
        if isinstance(obj, (types.BuiltinFunctionType, types.MethodDescriptorType,
                            types.BuiltinMethodType, types.WrapperDescriptorType)):
            return VFunc('builtin', name=getattr(obj, '__name__', repr(obj)), obj=obj)
        if isinstance(obj, types.MethodType):
            return VFunc('bound', self=self.lift(obj.__self__), func=self.lift(obj.__func__))
        if isinstance(obj, (list, set, frozenset)):
            items = [self.lift(x) for x in obj]
            return VList(items) if isinstance(obj, list) else VSet(items)
        if isinstance(obj, dict):
            return VDict({k: self.lift(v) for k, v in obj.items()})
        if isinstance(obj, _dt.datetime):
            return VAny(PyVal.PDT(z3.IntVal(hash(obj) % 1000003)))
        if isinstance(obj, _dt.date):
            return VAny(PyVal.PD(z3.IntVal(obj.toordinal())))
        if isinstance(obj, _dt.timedelta):
            return VAny(PyVal.PTd(z3.IntVal(hash(obj) % 1000003)))
        if type(obj) is object:
            return VObj(object, tag='sentinel')
        if type(obj).__module__.startswith('serif'):
            return VObj(type(obj), tag='global:' + type(obj).__name__)
        raise Unsupported(f'cannot lift {obj!r}')

    def lift_function(self, f):
        node = self.src.funcdef_of(f)
        cenv = None
        if f.__closure__:
            cenv = Env(f.__globals__, None, f.__module__)
            for nm, cell in zip(f.__code__.co_freevars, f.__closure__):
                try:
                    cenv.vars[nm] = self.lift(cell.cell_contents)
                except ValueError:
                    pass
        return VFunc('def', node=node, globs=f.__globals__, pyfunc=f, closure_env=cenv,
                     name=f.__name__, qual=f'{f.__module__}.{f.__qualname__}')

    # ------------------------------------------------------------------ sidecar representations
    def represent(self, rep, name, v):
        """Hold a freshly created empty container symbolically (sidecar-declared representation)."""
        from . import symcoll
        if rep == 'symdict' and isinstance(v, VDict) and not v.d:
            return symcoll.SymDict(name)
        if rep.startswith('symset') and isinstance(v, VSet) and not v.items:
            return symcoll.SymSet(name, rep.split(':')[1] if ':' in rep else 'key')
        if rep == 'symlist' and isinstance(v, VList) and not v.items:
            return symcoll.SymList(name)
        if rep == 'symkeylist' and isinstance(v, VSeq) and v.pred is None:
            return symcoll.SymKeyList(name, v.src_len)
        if rep == 'symmap' and isinstance(v, VDict) and not v.d:
            return symcoll.SymMap(name)
        if rep == 'list_of_symlist' and isinstance(v, VList) and all(isinstance(x, VList) and not x.items for x in v.items):
            return VList([symcoll.SymList(f'{name}{j}') for j in range(len(v.items))])
        return v

    # ------------------------------------------------------------------ helpers
    def raise_(self, pycls):
        raise PyRaise(VExc(pycls))

    def choose_truthy(self, v):
        return self.ex.choose(truthy(self.resolve(v)))

    def resolve(self, v):
        """Decide whether a tagged value is the sentinel (path split when unknown)."""
        if isinstance(v, VTagged):
            return v.sentinel if self.ex.choose(v.tag) else v.val
        return v

    def assumption(self, text):
        self.assumptions.add(text)

    # ------------------------------------------------------------------ expressions
    def eval(self, node, env):
        m = getattr(self, 'e_' + type(node).__name__, None)
        if m is None:
            raise Unsupported(f'{type(node).__name__} at line {getattr(node, "lineno", "?")}')
        return m(node, env)

    def e_Constant(self, node, env):
        return self.lift(node.value) if not isinstance(node.value, (bytes, complex)) \
            else VAny(PyVal.PBy(z3.IntVal(hash(node.value) % 10007))) if isinstance(node.value, bytes) \
            else VAny(PyVal.PC(z3.Const('cx_' + repr(node.value), __import__('pyvc.model', fromlist=['Cx']).Cx)))

    def e_Name(self, node, env):
        name = node.id
        try:
            if name not in env.global_names:
                return env.lookup(name)
        except KeyError:
            pass
        if name in env.globs:
            return self.lift(env.globs[name])
        if hasattr(_bi, name):
            return self.lift(getattr(_bi, name))
        raise Unsupported(f'unbound name {name} (line {node.lineno})')

    def e_Tuple(self, node, env):
        return VTuple(self._elts(node.elts, env))

    def e_List(self, node, env):
        return VList(self._elts(node.elts, env))

    def e_Set(self, node, env):
        return self.B.make_set(self, self._elts(node.elts, env))

    def _elts(self, elts, env):
        out = []
        for e in elts:
            if isinstance(e, ast.Starred):
                v = self.eval(e.value, env)
                if isinstance(v, (VTuple, VList)):
                    out.extend(v.items)
                else:
                    raise Unsupported('starred non-literal')
            else:
                out.append(self.eval(e, env))
        return out

    def e_Dict(self, node, env):
        d = {}
        for k, v in zip(node.keys, node.values):
            kv = self.eval(k, env)
            kk = kv.concrete() if isinstance(kv, VStr) else concrete_int(kv)
            if kk is None:
                raise Unsupported('dict literal with symbolic key')
            d[kk] = self.eval(v, env)
        return VDict(d)

    def e_JoinedStr(self, node, env):
        parts = []
        for p in node.values:
            if isinstance(p, ast.Constant):
                parts.append(z3.StringVal(p.value))
            else:
                v = self.eval(p.value, env)
                parts.append(self.B.str_term(self, self.resolve(v), repr_=(p.conversion == 114)))
        if not parts:
            return VStr('')
        t = parts[0]
        for p in parts[1:]:
            t = z3.Concat(t, p)
        return VStr(t)

    def e_Lambda(self, node, env):
        return VFunc('def', node=node, globs=env.globs, pyfunc=None, closure_env=env,
                     name='<lambda>', qual=env.qual + '.<lambda>',
                     defaults=[self.eval(d, env) for d in node.args.defaults],
                     kw_defaults=[self.eval(d, env) if d is not None else None
                                  for d in node.args.kw_defaults])

    def e_IfExp(self, node, env):
        c = self.eval(node.test, env)
        if self.choose_truthy(c):
            return self.eval(node.body, env)
        return self.eval(node.orelse, env)

    def e_BoolOp(self, node, env):
        is_and = isinstance(node.op, ast.And)
        if str(env.globs.get('__name__', '')).startswith('contracts.'):
            # sidecar (spec / invariant) code is pure: evaluate eagerly and combine as one formula when
            # every operand is a boolean; fall back to short-circuit path splitting when an operand
            # cannot be evaluated unconditionally (guards such as `x is not None and x.kind ...`)
            saved = (len(self.ex.ctx.decisions), len(self.ex.ctx.pc))
            try:
                vals = []
                for sub in node.values:
                    v0 = self.eval(sub, env)
                    if not isinstance(v0, VBool):
                        raise Unsupported('non-boolean operand')
                    vals.append(v0.t)
                    cb = is_concrete_bool(v0.t)
                    if cb is not None and cb == (not is_and):
                        return VBool(cb)        # decided: the remaining operands are not evaluated
                if len(self.ex.ctx.decisions) == saved[0]:
                    return VBool(z3.And(vals) if is_and else z3.Or(vals))
            except (PyRaise, Unsupported):
                pass
            if len(self.ex.ctx.decisions) != saved[0]:
                # a decision was taken while evaluating eagerly: keep the path consistent by
                # returning the combined value only if all operands were evaluated
                if 'vals' in locals() and len(vals) == len(node.values):
                    return VBool(z3.And(vals) if is_and else z3.Or(vals))
                raise Unsupported('eager boolean evaluation interrupted by a decision')
        v = None
        for i, sub in enumerate(node.values):
            v = self.eval(sub, env)
            if i == len(node.values) - 1:
                return v
            t = self.choose_truthy(v)
            if is_and and not t:
                return v
            if not is_and and t:
                return v
        return v

    def e_UnaryOp(self, node, env):
        v = self.eval(node.operand, env)
        if isinstance(node.op, ast.Not):
            return VBool(z3.Not(truthy(v)))
        name = {ast.USub: 'neg', ast.UAdd: 'pos', ast.Invert: 'invert'}[type(node.op)]
        return self.unary(name, v)

    def unary(self, name, v):
        v = self.resolve(v)
        if isinstance(v, VInt):
            if name == 'neg':
                return VInt(-v.t)
            if name == 'pos':
                return v
            if name == 'abs':
                return VInt(z3.If(v.t >= 0, v.t, -v.t))
            if name == 'invert':
                return VInt(-v.t - 1)
        if isinstance(v, VBool) and name in ('neg', 'pos', 'abs', 'invert'):
            return self.unary(name, VInt(z3.If(v.t, 1, 0)))
        if name == 'not_':
            return VBool(z3.Not(truthy(v)))
        if isinstance(v, (VAny, VNone, VStr)):
            t = to_pyval(v)
            exact = {'neg': PyVal.PI(-int_of(t)), 'pos': PyVal.PI(int_of(t)),
                     'abs': PyVal.PI(z3.If(int_of(t) >= 0, int_of(t), -int_of(t))),
                     'invert': PyVal.PI(-int_of(t) - 1)}[name]
            return VAny(z3.If(int_like(t), exact, unop(OP[name], t)))
        raise Unsupported(f'unary {name} on {v!r}')

    def e_BinOp(self, node, env):
        a = self.eval(node.left, env)
        b = self.eval(node.right, env)
        return self.binary(BINOPS[type(node.op)], a, b)

    DUNDER = {'add': '__add__', 'sub': '__sub__', 'mul': '__mul__', 'truediv': '__truediv__', 'floordiv': '__floordiv__',
              'mod': '__mod__', 'pow': '__pow__', 'lshift': '__lshift__', 'rshift': '__rshift__', 'and_': '__and__',
              'or_': '__or__', 'xor': '__xor__', 'matmul': '__matmul__'}

    def binary(self, name, a, b):
        a, b = self.resolve(a), self.resolve(b)
        if isinstance(a, VObj) and a.tag in ('vector', 'table') and name in self.DUNDER:
            meth = self.class_attr(a, a.pycls, self.DUNDER[name])
            return self.call(meth, [b], {})
        if isinstance(b, VObj) and b.tag in ('vector', 'table') and name in self.DUNDER:
            meth = self.class_attr(b, b.pycls, '__r' + self.DUNDER[name][2:])
            return self.call(meth, [a], {})
        if isinstance(a, VBool) and isinstance(b, (VInt, VBool)):
            a = VInt(z3.If(a.t, 1, 0))
        if isinstance(b, VBool) and isinstance(a, VInt):
            b = VInt(z3.If(b.t, 1, 0))
        if isinstance(a, VInt) and isinstance(b, VInt):
            x, y = a.t, b.t
            if name == 'add':
                return VInt(x + y)
            if name == 'sub':
                return VInt(x - y)
            if name == 'mul':
                return VInt(x * y)
            if name in ('floordiv', 'mod'):
                if self.ex.choose(y == 0):
                    self.raise_(ZeroDivisionError)
                return VInt(floordiv(x, y) if name == 'floordiv' else pymod(x, y))
            if name == 'pow':
                cy = concrete_int(b)
                if cy is not None and 0 <= cy <= 4:
                    r = z3.IntVal(1)
                    for _ in range(cy):
                        r = r * x
                    return VInt(r)
        if isinstance(a, VStr) and isinstance(b, VStr) and name == 'add':
            return VStr(z3.Concat(a.t, b.t))
        if name == 'add' and isinstance(a, (VTuple, VList)) and type(a) is type(b):
            return type(a)(a.items + b.items)
        if name == 'mul' and isinstance(a, (VList, VTuple)) and isinstance(b, VInt):
            n = concrete_int(b)
            if n is not None:
                return type(a)(a.items * n)
            if len(a.items) == 1:
                item = a.items[0]
                return VSeq(z3.If(b.t > 0, b.t, 0), lambda i, item=item: item, None,
                            'list' if isinstance(a, VList) else 'tuple')
        if name == 'add' and isinstance(a, (VSeq, VTuple, VList)) and isinstance(b, (VSeq, VTuple, VList)):
            return self.B.seq_concat(self, a, b)
        sc = (VNone, VBool, VInt, VStr, VAny)
        if name == 'pow' and concrete_int(b) == 2 and isinstance(a, sc):
            self.assumption('A-real: x ** 2 is treated as x * x (machine arithmetic treated as mathematical)')
            return self.binary('mul', a, a)
        if isinstance(a, sc) and isinstance(b, sc):
            x, y = to_pyval(a), to_pyval(b)
            un = binop(OP[name], x, y)
            if name in ('add', 'sub', 'mul', 'truediv', 'floordiv', 'mod'):
                # kind closure of real arithmetic, by construction of the term (true for finite and
                # non-finite floats alike): float with float / int / bool gives a float; int / int
                # true division gives a float.  The float payload stays uninterpreted.
                from .model import Fl
                fl_res = z3.Function('fl_result', z3.IntSort(), PyVal, PyVal, Fl)
                realx = z3.Or(PyVal.is_PF(x), int_like(x))
                realy = z3.Or(PyVal.is_PF(y), int_like(y))
                isf = z3.Or(PyVal.is_PF(x), PyVal.is_PF(y)) if name != 'truediv' else z3.BoolVal(True)
                un = z3.If(z3.And(realx, realy, isf), PyVal.PF(fl_res(z3.IntVal(OP[name]), x, y)), un)
            both = z3.And(int_like(x), int_like(y))
            ix, iy = int_of(x), int_of(y)
            if name in ('add', 'sub', 'mul'):
                ex = {'add': ix + iy, 'sub': ix - iy, 'mul': ix * iy}[name]
                # bool op bool stays int in Python for + - *
                return VAny(z3.If(both, PyVal.PI(ex), un))
            return VAny(un)
        raise Unsupported(f'binary {name} on {a!r}, {b!r}')

    def e_Compare(self, node, env):
        left = self.eval(node.left, env)
        result = None
        if len(node.ops) > 1 and str(env.globs.get('__name__', '')).startswith('contracts.'):
            # sidecar code is pure: a chained comparison is the conjunction of its links (no path split)
            links = []
            for op, rnode in zip(node.ops, node.comparators):
                right = self.eval(rnode, env)
                r = self.compare(op, left, right)
                if not isinstance(r, VBool):
                    links = None
                    break
                links.append(r.t)
                left = right
            if links is not None:
                return VBool(z3.And(links))
            left = self.eval(node.left, env)
        for op, rnode in zip(node.ops, node.comparators):
            right = self.eval(rnode, env)
            r = self.compare(op, left, right)
            if len(node.ops) == 1:
                return r
            if not self.choose_truthy(r):
                return r
            result = r
            left = right
        return result

    def compare(self, op, a, b):
        if isinstance(op, ast.Is):
            return VBool(self.is_(a, b))
        if isinstance(op, ast.IsNot):
            return VBool(z3.Not(self.is_(a, b)))
        if isinstance(op, ast.In):
            return VBool(self.contains(b, a))
        if isinstance(op, ast.NotIn):
            return VBool(z3.Not(self.contains(b, a)))
        name = CMPOPS[type(op)]
        return self.cmp(name, a, b)

    def cmp(self, name, a, b):
        a, b = self.resolve(a), self.resolve(b)
        if name == 'eq':
            return VBool(self.py_eq(a, b))
        if name == 'ne':
            return VBool(z3.Not(self.py_eq(a, b)))
        if isinstance(a, VBool):
            a = VInt(z3.If(a.t, 1, 0))
        if isinstance(b, VBool):
            b = VInt(z3.If(b.t, 1, 0))
        if isinstance(a, VInt) and isinstance(b, VInt):
            x, y = a.t, b.t
            return VBool({'lt': x < y, 'le': x <= y, 'gt': x > y, 'ge': x >= y}[name])
        sc = (VNone, VInt, VStr, VAny)
        if isinstance(a, sc) and isinstance(b, sc):
            x, y = to_pyval(a), to_pyval(b)
            ix, iy = int_of(x), int_of(y)
            ex = {'lt': ix < iy, 'le': ix <= iy, 'gt': ix > iy, 'ge': ix >= iy}[name]
            un = PyVal.b(binop(OP[name], x, y))
            return VBool(z3.If(z3.And(int_like(x), int_like(y)), ex, un))
        if isinstance(a, VTuple) and isinstance(b, VTuple):
            return VBool(self.tuple_cmp(name, a.items, b.items))
        raise Unsupported(f'compare {name} on {a!r}, {b!r}')

    def tuple_cmp(self, name, xs, ys):
        """Lexicographic comparison of equal-length literal tuples."""
        if len(xs) != len(ys):
            raise Unsupported('tuple comparison of different lengths')
        if not xs:
            return z3.BoolVal(name in ('le', 'ge'))
        strict = {'lt': 'lt', 'le': 'lt', 'gt': 'gt', 'ge': 'gt'}[name]
        head = self.cmp(strict, xs[0], ys[0]).t
        eq0 = self.py_eq(xs[0], ys[0])
        if len(xs) == 1:
            return self.cmp(name, xs[0], ys[0]).t
        return z3.Or(z3.And(z3.Not(eq0), head), z3.And(eq0, self.tuple_cmp(name, xs[1:], ys[1:])))

    def is_(self, a, b):
        if isinstance(a, VTagged) and b is a.sentinel:
            return a.tag
        if isinstance(b, VTagged) and a is b.sentinel:
            return b.tag
        a, b = self.resolve(a), self.resolve(b)
        if isinstance(a, VNone) or isinstance(b, VNone):
            o = b if isinstance(a, VNone) else a
            if isinstance(o, VNone):
                return z3.BoolVal(True)
            if isinstance(o, VAny):
                return PyVal.is_PNone(o.t)
            return z3.BoolVal(False)
        if isinstance(a, VEllipsis) or isinstance(b, VEllipsis):
            return z3.BoolVal(isinstance(a, VEllipsis) and isinstance(b, VEllipsis))
        if isinstance(a, VKind) and isinstance(b, VKind):
            return a.t == b.t
        if isinstance(a, VKind) or isinstance(b, VKind):
            o = b if isinstance(a, VKind) else a
            if isinstance(o, (VClass, VNone, VDType, VObj, VFunc)):
                return z3.BoolVal(False)
        if isinstance(a, VBool) and isinstance(b, VBool):
            return a.t == b.t
        if isinstance(a, (VObj, VClass, VFunc, VDType, VTuple, VList, VSeq, VDict)) or \
           isinstance(b, (VObj, VClass, VFunc, VDType, VTuple, VList, VSeq, VDict)):
            if isinstance(a, VClass) and isinstance(b, VClass):
                return z3.BoolVal(a.pycls is b.pycls)
            if isinstance(a, VFunc) and isinstance(b, VFunc) and a.kind == 'op' and b.kind == 'op':
                return z3.BoolVal(a.name == b.name)
            if isinstance(a, VDType) and isinstance(b, VDType) and a is not b:
                raise Unsupported('identity of distinct DataType values')
            return z3.BoolVal(a is b)
        if isinstance(a, VAny) and isinstance(b, VBool):
            return a.t == PyVal.PB(b.t)
        if isinstance(b, VAny) and isinstance(a, VBool):
            return b.t == PyVal.PB(a.t)
        raise Unsupported(f'is on {a!r}, {b!r}')

    def py_eq(self, a, b):
        a, b = self.resolve(a), self.resolve(b)
        if isinstance(a, VObj) and a.tag == 'kindset' or isinstance(b, VObj) and b.tag == 'kindset':
            ks, other = (a, b) if isinstance(a, VObj) and a.tag == 'kindset' else (b, a)
            if isinstance(other, VSet) and len(other.items) == 1 and isinstance(other.items[0], VKind):
                return z3.And(ks.fields['nonempty'], ks.fields['kind'].t == other.items[0].t)
            if isinstance(other, VSet) and not other.items:
                return z3.Not(ks.fields['nonempty'])
            raise Unsupported('kind-set comparison')
        if isinstance(a, VKind) and isinstance(b, (VClass,)) or isinstance(b, VKind) and isinstance(a, VClass):
            return z3.BoolVal(False)
        if isinstance(a, VFunc) and isinstance(b, VFunc):
            return self.is_(a, b)
        sc = (VNone, VBool, VInt, VStr, VAny)
        if isinstance(a, VAny) and isinstance(b, sc) or isinstance(b, VAny) and isinstance(a, sc):
            x, y = to_pyval(a), to_pyval(b)
            # exact on None / str / int-like; uninterpreted (but reflexive on identical terms) elsewhere
            simple = lambda t: z3.Or(PyVal.is_PNone(t), PyVal.is_PS(t), int_like(t))
            ieq = z3.If(z3.And(int_like(x), int_like(y)), int_of(x) == int_of(y), x == y)
            from .builtins import isnan_f
            # identical terms compare equal except float NaN (the only builtin with x != x)
            # == between scalar values of the modelled kinds is symmetric: the uninterpreted
            # application takes its arguments in a canonical order (A-eq-sym)
            xa, ya = (x, y) if x.sexpr() <= y.sexpr() else (y, x)
            return z3.If(z3.And(simple(x), simple(y)), ieq,
                         z3.If(x == y, z3.Not(z3.And(PyVal.is_PF(x), isnan_f(x))), PyVal.b(binop(OP['eq'], xa, ya))))
        return veq(a, b)

    def contains(self, container, item):
        if isinstance(container, (VTuple, VList, VSet)):
            if not container.items:
                return z3.BoolVal(False)
            return z3.Or([z3.Or(self._is_or_false(item, c), self.py_eq(item, c)) for c in container.items])
        if isinstance(container, VDict):
            k = item.concrete() if isinstance(item, VStr) else concrete_int(item)
            if k is not None:
                return z3.BoolVal(k in container.d)
            if isinstance(item, VStr):
                return z3.Or([item.t == z3.StringVal(c) for c in container.d if isinstance(c, str)] or [z3.BoolVal(False)])
        if isinstance(container, VObj) and container.tag == 'fieldsdict':
            k = item.concrete() if isinstance(item, VStr) else None
            if k is None:
                raise Unsupported('symbolic key in __dict__')
            return z3.BoolVal(k in container.fields['of'].fields)
        if isinstance(container, VObj) and container.tag in ('symset', 'symdict'):
            from . import symcoll
            return symcoll.contains(self, container, item)
        if isinstance(container, VSeq) and container.pred is None and isinstance(item, (VNone, VBool, VInt, VStr, VAny)):
            # membership in a sequence of symbolic length: t <=> exists i. seq[i] is / == item, given
            # as two definitional facts (a witness for t, a universal fact for not t), like any()
            vs = container
            t = z3.Bool(fresh_name('in'))
            w = fresh_int('inw')
            j = z3.Int(fresh_name('inq'))

            def hit(ix):
                e = vs.elem(ix)
                return z3.Or(self._is_or_false(item, e), self.py_eq(item, e))
            ctx = self.ex.ctx
            ctx.add(z3.Implies(t, z3.And(w >= 0, w < vs.src_len, hit(w))))
            ctx.add(z3.Implies(z3.Not(t), z3.ForAll([j], z3.Implies(z3.And(j >= 0, j < vs.src_len), z3.Not(hit(j))))))
            return t
        raise Unsupported(f'in on {container!r}')

    def _is_or_false(self, a, b):
        try:
            return self.is_(a, b)
        except Unsupported:
            return z3.BoolVal(False)

    def e_Attribute(self, node, env):
        v = self.eval(node.value, env)
        return self.getattr(v, node.attr)

    def e_Subscript(self, node, env):
        v = self.eval(node.value, env)
        if isinstance(node.slice, ast.Slice):
            k = self.e_Slice(node.slice, env)
        else:
            k = self.eval(node.slice, env)
        return self.B.getitem(self, v, k)

    def e_Slice(self, node, env):
        f = lambda n: NONE if n is None else self.eval(n, env)
        return VSlice(f(node.lower), f(node.upper), f(node.step))

    def e_Starred(self, node, env):
        raise Unsupported('starred expression')

    def e_GeneratorExp(self, node, env):
        return self.B.comprehension(self, node, env, 'gen')

    def e_ListComp(self, node, env):
        return self.B.comprehension(self, node, env, 'list')

    def e_SetComp(self, node, env):
        return self.B.comprehension(self, node, env, 'set')

    def e_DictComp(self, node, env):
        raise Unsupported('dict comprehension')

    def e_Call(self, node, env):
        if isinstance(node.func, ast.Attribute) and node.func.attr == 'sort' and isinstance(node.func.value, ast.Name) \
                and not node.args:
            try:
                cur = env.lookup(node.func.value.id)
            except KeyError:
                cur = None
            if isinstance(cur, VSeq) and cur.kind == 'list':
                # in-place sort of a local list held as a sequence term: functional update, name rebound
                kw = {k.arg: self.eval(k.value, env) for k in node.keywords}
                if set(kw) - {'key', 'reverse'}:
                    raise Unsupported('list.sort arguments')
                new = self.B.list_sort(self, cur, kw.get('key'), kw.get('reverse'))
                e = env
                while e is not None and node.func.value.id not in e.vars:
                    e = e.parent
                (e or env).vars[node.func.value.id] = new
                return NONE
        f = self.eval(node.func, env)
        if isinstance(f, VClass) and issubclass(f.pycls, BaseException):
            return VExc(f.pycls)     # message argument dropped (DROPS item 4)
        if isinstance(f, VClass) and f.pycls is super and not node.args:
            e = env
            while e is not None and getattr(e, 'pyfunc', None) is None:
                e = e.parent
            if e is None:
                raise Unsupported('zero-argument super() outside a method')
            pf = e.pyfunc
            owner = pf.__globals__[pf.__qualname__.split('.')[0]]
            first = e.vars[e.func_node.args.args[0].arg]
            o = VObj(object, tag='super')
            o.fields = {'cls': VClass(owner), 'obj': first}
            return o
        if isinstance(f, VFunc) and f.kind == 'builtin' and f.name == 'warn':
            return NONE              # warnings.warn is a no-op (A-warn)
        args = []
        for a in node.args:
            if isinstance(a, ast.Starred):
                v = self.eval(a.value, env)
                if isinstance(v, (VTuple, VList)):
                    args.extend(v.items)
                elif isinstance(v, VOpaque):
                    args.append(v)
                else:
                    raise Unsupported('call with starred symbolic sequence')
            else:
                args.append(self.eval(a, env))
        kwargs = {}
        for kw in node.keywords:
            if kw.arg is None:
                v = self.eval(kw.value, env)
                if isinstance(v, VDict):
                    kwargs.update(v.d)
                elif isinstance(v, VOpaque):
                    kwargs['**'] = v
                else:
                    raise Unsupported('**kwargs of symbolic dict')
            else:
                kwargs[kw.arg] = self.eval(kw.value, env)
        return self.call(f, args, kwargs, node)

    # ------------------------------------------------------------------ attribute access
    def getattr(self, v, attr):
        v = self.resolve(v)
        if isinstance(v, VModule):
            return self.lift(getattr(v.pymod, attr))
        if isinstance(v, VDType):
            if attr == 'kind':
                return VKind(v.kind)
            if attr == 'nullable':
                return VBool(v.nullable)
            return self.class_attr(v, self.dtype_cls(), attr)
        if isinstance(v, VObj):
            if attr in v.fields:
                return v.fields[attr]
            if v.tag == 'super':
                return self.super_attr(v, attr)
            if attr == '__dict__':
                d = VObj(object, tag='fieldsdict')
                d.fields = {'of': v}
                return d
            if v.tag in ('recorder', 'symlist', 'symdict', 'symset', 'bucket', 'symkeylist', 'symmap'):
                return VFunc('builtin', name=f'method:{attr}', obj=None, self_=v)
            return self.class_attr(v, v.pycls, attr)
        if isinstance(v, VKind):
            if attr == '__name__':
                return VStr(kind_name(v.t))
            ck = self.concrete_kind(v)
            if ck is not None:
                return self.lift(getattr(KIND_TO_PY[ck], attr))
        if isinstance(v, VClass):
            raw = None
            for k in v.pycls.__mro__:
                if attr in k.__dict__:
                    raw = k.__dict__[attr]
                    break
            if raw is None:
                raise Unsupported(f'class attribute {v.pycls.__name__}.{attr}')
            if isinstance(raw, (staticmethod, classmethod)):
                f = self.lift(raw.__func__)
                if isinstance(raw, classmethod):
                    return VFunc('bound', self=v, func=f)
                return f
            return self.lift(raw)
        if isinstance(v, VSlice):
            if attr in ('start', 'stop', 'step'):
                return getattr(v, attr)
            if attr == 'indices':
                return VFunc('builtin', name='slice.indices', obj=None, self_=v)
        if isinstance(v, (VList, VTuple, VSet, VDict, VSeq, VStr, VAny, VInt)):
            return VFunc('builtin', name=f'method:{attr}', obj=None, self_=v)
        if isinstance(v, VFunc) and attr == '__name__':
            return VStr(v.name)
        if isinstance(v, VNone):
            self.raise_(AttributeError)
        raise Unsupported(f'attribute {attr} of {v!r}')

    def super_attr(self, sup, attr):
        start, obj = sup.fields['cls'], sup.fields['obj']
        if start is None:
            raise Unsupported('zero-argument super()')
        target = obj.pycls if isinstance(obj, (VClass, VObj)) else None
        if target is None:
            raise Unsupported('super() second argument')
        mro = list(target.__mro__)
        after = mro[mro.index(start.pycls) + 1:]
        for k in after:
            if attr in k.__dict__:
                raw = k.__dict__[attr]
                if k is object and attr == '__new__':
                    return VFunc('builtin', name='object.__new__', obj=None)
                if isinstance(raw, types.FunctionType):
                    f = self.lift(raw)
                    return VFunc('bound', self=obj, func=f) if isinstance(obj, VObj) else f
                if k is object and attr == '__init__':
                    return VFunc('builtin', name='object.__init__', obj=None)
        self.raise_(AttributeError)

    def dtype_cls(self):
        import serif.typing
        return serif.typing.DataType

    def class_attr(self, v, pycls, attr):
        raw = None
        for k in pycls.__mro__:
            if attr in k.__dict__:
                raw = k.__dict__[attr]
                break
        if raw is None:
            ga = getattr(pycls, '__getattr__', None)
            if ga is not None:
                return self.call(VFunc('bound', self=v, func=self.lift(ga)), [VStr(attr)], {})
            self.raise_(AttributeError)
        if isinstance(raw, property):
            return self.call(self.lift(raw.fget), [v], {})
        if isinstance(raw, staticmethod):
            return self.lift(raw.__func__)
        if isinstance(raw, classmethod):
            return VFunc('bound', self=VClass(pycls), func=self.lift(raw.__func__))
        if isinstance(raw, types.FunctionType):
            return VFunc('bound', self=v, func=self.lift(raw))
        if isinstance(raw, types.MemberDescriptorType):
            self.raise_(AttributeError)
        return self.lift(raw)

    def concrete_kind(self, v):
        s = z3.simplify(v.t)
        d = s.decl().name()
        if d.startswith('K_') and d != 'K_other':
            return d[2:]
        return None

    # ------------------------------------------------------------------ statements
    def exec_block(self, stmts, env):
        for s in stmts:
            self.exec(s, env)

    def exec(self, node, env):
        explore_mod.CUR_LINE = (env.qual, getattr(node, 'lineno', 0))
        m = getattr(self, 's_' + type(node).__name__, None)
        if m is None:
            raise Unsupported(f'statement {type(node).__name__} at line {node.lineno}')
        return m(node, env)

    def s_Expr(self, node, env):
        if isinstance(node.value, ast.Constant):
            return
        self.eval(node.value, env)

    def s_Pass(self, node, env):
        return

    def s_Global(self, node, env):
        env.global_names.update(node.names)

    def s_Nonlocal(self, node, env):
        raise Unsupported('nonlocal')

    def s_Import(self, node, env):
        for a in node.names:
            mod = importlib.import_module(a.name)
            env.vars[a.asname or a.name.split('.')[0]] = VModule(mod if a.asname else importlib.import_module(a.name.split('.')[0]))

    def s_ImportFrom(self, node, env):
        pkg = env.globs.get('__package__') or env.globs.get('__name__', '').rpartition('.')[0]
        mod = importlib.import_module('.' * node.level + (node.module or ''), pkg) if node.level \
            else importlib.import_module(node.module)
        for a in node.names:
            env.vars[a.asname or a.name] = self.lift(getattr(mod, a.name))

    def s_Assign(self, node, env):
        v = self.eval(node.value, env)
        for t in node.targets:
            self.assign(t, v, env)

    def s_AnnAssign(self, node, env):
        if node.value is not None:
            self.assign(node.target, self.eval(node.value, env), env)

    def s_AugAssign(self, node, env):
        cur = self.eval(_load(node.target), env)
        v = self.eval(node.value, env)
        self.assign(node.target, self.binary(BINOPS[type(node.op)], cur, v), env)

    def assign(self, t, v, env):
        if isinstance(t, ast.Name):
            if t.id in env.global_names:
                raise Unsupported('assignment to module global')
            rep = self.representations.get((env.qual, t.id))
            if rep is not None:
                v = self.represent(rep, t.id, v)
            env.vars[t.id] = v
        elif isinstance(t, (ast.Tuple, ast.List)):
            items = self.B.unpack(self, v, len(t.elts))
            for tt, vv in zip(t.elts, items):
                self.assign(tt, vv, env)
        elif isinstance(t, ast.Attribute):
            obj = self.eval(t.value, env)
            self.setattr(obj, t.attr, v)
        elif isinstance(t, ast.Subscript):
            obj = self.eval(t.value, env)
            k = self.e_Slice(t.slice, env) if isinstance(t.slice, ast.Slice) else self.eval(t.slice, env)
            if isinstance(obj, VSeq) and obj.kind == 'list' and isinstance(t.value, ast.Name) and not isinstance(k, VSlice):
                # local list held as a symbolic sequence: functional update, the name is rebound
                # (sound for lists that are not aliased elsewhere, which is checked syntactically
                # by the callers of this rule: the list was created in this activation)
                n = obj.length
                j = self.B.norm_index(self, k, n)
                old = obj
                new = VSeq(old.src_len, lambda i, old=old, j=j, v=v: self.B.merge_vals([(i == j, v), (z3.BoolVal(True), old.elem(i))]), None, 'list')
                e = env
                while e is not None and t.value.id not in e.vars:
                    e = e.parent
                (e or env).vars[t.value.id] = new
                return
            self.B.setitem(self, obj, k, v)
        else:
            raise Unsupported(f'assignment target {type(t).__name__}')

    def setattr(self, obj, attr, v):
        if isinstance(obj, VObj):
            sa = obj.pycls.__dict__.get('__setattr__') if obj.pycls.__name__ == 'Table' else None
            if sa is not None and not getattr(obj, 'raw_setattr', False):
                self.call(VFunc('bound', self=obj, func=self.lift(sa)), [VStr(attr), v], {})
                return
            obj.fields[attr] = v
            return
        raise Unsupported(f'attribute store on {obj!r}')

    def s_Delete(self, node, env):
        for t in node.targets:
            if isinstance(t, ast.Attribute):
                obj = self.eval(t.value, env)
                if isinstance(obj, VObj):
                    obj.fields.pop(t.attr, None)
                    continue
            if isinstance(t, ast.Subscript):
                obj = self.eval(t.value, env)
                k = self.eval(t.slice, env)
                self.B.delitem(self, obj, k)
                continue
            raise Unsupported('del target')

    def s_If(self, node, env):
        if self.choose_truthy(self.eval(node.test, env)):
            self.exec_block(node.body, env)
        else:
            self.exec_block(node.orelse, env)

    def s_Return(self, node, env):
        v = NONE if node.value is None else self.eval(node.value, env)
        fn = self.exit_asserts.get(env.qual)
        if fn is not None and getattr(env, 'top_level', False):
            import inspect
            from .values import truthy as _truthy
            kwargs = {}
            for p_, par in inspect.signature(fn).parameters.items():
                if p_ == 'result':
                    kwargs[p_] = v
                elif p_.startswith('any_int_') and p_ not in getattr(self, 'generics', ()):
                    # a generic integer: the assertion is proved for an arbitrary value (universal
                    # generalisation; unlike a quantifier it may feed sequence terms and reductions)
                    from .values import fresh_int as _fi, VInt as _VI
                    kwargs[p_] = _VI(_fi(p_))
                else:
                    try:
                        kwargs[p_] = env.lookup(p_)
                    except KeyError:
                        if par.default is None:
                            kwargs[p_] = NONE       # optional: a ghost / local that does not exist in this phase
                            continue
                        raise Unsupported(f'exit assertion mentions unknown local {p_!r}')
            ok = self.call(self.lift(fn), [], kwargs)
            self.ex.prove(f'{env.qual.replace("serif.", "", 1)}:exit', _truthy(ok), kind='post')
        raise ReturnSig(v)

    def s_Raise(self, node, env):
        if node.exc is None:
            if self.cur_exc:
                raise PyRaise(self.cur_exc[-1])
            raise Unsupported('bare raise outside handler')
        e = self.eval(node.exc, env)
        if isinstance(e, VClass):
            e = VExc(e.pycls)
        if not isinstance(e, VExc):
            raise Unsupported(f'raise of {e!r}')
        raise PyRaise(e)

    def s_Assert(self, node, env):
        if not self.choose_truthy(self.eval(node.test, env)):
            self.raise_(AssertionError)

    def s_Break(self, node, env):
        raise BreakSig()

    def s_Continue(self, node, env):
        raise ContinueSig()

    def s_FunctionDef(self, node, env):
        env.vars[node.name] = VFunc(
            'def', node=node, globs=env.globs, pyfunc=None, closure_env=env, name=node.name,
            qual=f'{env.qual}.<locals>.{node.name}',
            defaults=[self.eval(d, env) for d in node.args.defaults],
            kw_defaults=[self.eval(d, env) if d is not None else None for d in node.args.kw_defaults])

    def s_Try(self, node, env):
        try:
            try:
                self.exec_block(node.body, env)
            except PyRaise as pr:
                for h in node.handlers:
                    if self.handler_matches(h, pr.exc, env):
                        if h.name:
                            env.vars[h.name] = pr.exc
                        self.cur_exc.append(pr.exc)
                        try:
                            self.exec_block(h.body, env)
                        finally:
                            self.cur_exc.pop()
                        break
                else:
                    raise
            else:
                self.exec_block(node.orelse, env)
        finally:
            if node.finalbody:
                self.exec_block(node.finalbody, env)

    def handler_matches(self, h, exc, env):
        if h.type is None:
            return True
        t = self.eval(h.type, env)
        classes = t.items if isinstance(t, VTuple) else [t]
        for c in classes:
            if isinstance(c, VClass) and issubclass(exc.pycls, c.pycls):
                return True
        return False

    def s_For(self, node, env):
        from . import loops
        loops.exec_for(self, node, env)

    def s_While(self, node, env):
        from . import loops
        loops.exec_while(self, node, env)

    def s_With(self, node, env):
        raise Unsupported('with statement')

    # ------------------------------------------------------------------ calls
    def call(self, f, args, kwargs, node=None):
        args = [self.resolve(a) for a in args]
        if isinstance(f, VFunc):
            if f.kind == 'bound':
                return self.call(f.func, [f.self] + list(args), kwargs, node)
            if f.kind == 'def':
                return self.call_def(f, args, kwargs)
            if f.kind == 'op':
                return self.B.call_op(self, f.name, args)
            if f.kind == 'builtin':
                return self.B.call_builtin(self, f, args, kwargs)
            if f.kind == 'sym':
                return self.B.call_sym(self, f, args, kwargs)
        if isinstance(f, VKind):
            return self.B.call_kind(self, f, args, kwargs)
        if isinstance(f, VClass):
            return self.B.construct(self, f, args, kwargs)
        raise Unsupported(f'call of {f!r}')

    def call_def(self, f, args, kwargs, force_body=False):
        qual = f.qual
        if qual.startswith('contracts.specs.') and kwargs and f.pyfunc is not None and not force_body:
            # normalise keyword calls of spec functions to positional (enables summaries)
            names = [p.arg for p in f.node.args.args]
            if set(kwargs) <= set(names) and len(args) + len(kwargs) == len(names):
                try:
                    args = list(args) + [kwargs[n] for n in names[len(args):]]
                    kwargs = {}
                except KeyError:
                    pass
        if qual.startswith('contracts.specs.') and qual.rsplit('.', 1)[1] in self._spec_api():
            from . import symcoll
            return symcoll.spec_api(self, qual.rsplit('.', 1)[1], list(args))
        if qual == 'contracts.specs.sanitize_name':
            from .model import PyVal
            san_f = z3.Function('san_f', PyVal, PyVal)
            a = args[0] if args else kwargs['name']
            r = san_f(to_pyval(a))
            self.ex.ctx.add(z3.Or(PyVal.is_PNone(r), PyVal.is_PS(r)))
            return VAny(r)
        if qual == 'copy.deepcopy' and not kwargs and len(args) == 1 and isinstance(args[0], VObj) \
                and args[0].tag == 'vector':
            # deepcopy of a vector of scalars: a distinct object with the same abstract view (field by
            # field; immutable scalars - NaN included - are kept as they are).  Trusted library model.
            self.assumption('copy.deepcopy(vector): a distinct object with equal fields (value level)')
            o = VObj(args[0].pycls, tag='vector')
            o.fields.update(args[0].fields)
            return o
        if qual == 'contracts.specs.hash_elem':
            from .model import hash_f
            a = args[0] if args else kwargs['x']
            return VInt(hash_f(to_pyval(a)))
        if qual == 'contracts.specs.fold':
            from .loops import ghost_fold
            env0 = Env(f.globs, None, qual)
            self.bind(f, env0, args, kwargs)
            v = env0.vars
            return ghost_fold(self, v['step'], v['init'], v['values'], v['k'])
        if qual.startswith('contracts.specs.') and not kwargs and f.pyfunc is not None and not force_body:
            r = self.summarised_call(f, args)
            if r is not None:
                return r
        c = self.registry.get(qual)
        if c is not None and self.use_contracts and not force_body and not c.inline:
            from .contract import apply_contract
            return apply_contract(self, c, f, args, kwargs)
        env = Env(f.globs, f.closure_env, qual)
        env.func_node = f.node
        env.pyfunc = f.pyfunc
        env.top_level = force_body
        self.bind(f, env, args, kwargs)
        if force_body:
            # rigid generic constants of the contract under verification: arbitrary but fixed for the
            # whole activation (visible to loop invariants of nested functions and to the exit assertion)
            for gname in getattr(self, 'generics', ()):
                from .values import fresh_int as _fi2
                env.vars[gname] = VInt(_fi2(gname))
        if self.call_depth > 40:
            raise Unsupported('call depth')
        self.call_depth += 1
        try:
            if isinstance(f.node, ast.Lambda):
                return self.eval(f.node.body, env)
            try:
                self.exec_block(f.node.body, env)
            except ReturnSig as r:
                return r.value
            return NONE
        finally:
            self.call_depth -= 1

    # ---- summaries of pure spec functions over flat scalar arguments ----------------------
    SUMMARIES = {}

    def _flat_sig(self, a):
        if isinstance(a, VNone):
            return 'N'
        for cls, tag in ((VBool, 'B'), (VInt, 'I'), (VAny, 'A'), (VKind, 'K'), (VDType, 'D')):
            if isinstance(a, cls):
                return tag
        if isinstance(a, VTuple):
            inner = [self._flat_sig(x) for x in a.items]
            if all(inner):
                return '(' + ''.join(inner) + ')'
        return None

    def _placeholder(self, sig, name):
        from .model import PyVal, Kind
        if sig == 'N':
            return NONE, []
        if sig == 'B':
            t = z3.Bool(name)
            return VBool(t), [t]
        if sig == 'I':
            t = z3.Int(name)
            return VInt(t), [t]
        if sig == 'S':
            t = z3.String(name)
            return VStr(t), [t]
        if sig == 'A':
            t = z3.Const(name, PyVal)
            return VAny(t), [t]
        if sig == 'K':
            t = z3.Const(name, Kind)
            return VKind(t), [t]
        if sig == 'D':
            k, n = z3.Const(name + '.k', Kind), z3.Bool(name + '.n')
            return VDType(k, n), [k, n]
        # tuple
        inner = self._split_sig(sig[1:-1])
        vals, terms = [], []
        for j, sg in enumerate(inner):
            v, ts = self._placeholder(sg, f'{name}.{j}')
            vals.append(v)
            terms.extend(ts)
        return VTuple(vals), terms

    def _split_sig(self, s):
        out, depth, cur = [], 0, ''
        for ch in s:
            cur += ch
            if ch == '(':
                depth += 1
            elif ch == ')':
                depth -= 1
            if depth == 0:
                out.append(cur)
                cur = ''
        return out

    def _leaf_terms(self, v):
        if isinstance(v, (VBool, VInt, VStr, VAny, VKind)):
            return [v.t]
        if isinstance(v, VDType):
            return [v.kind, v.nullable]
        if isinstance(v, VTuple):
            return [t for x in v.items for t in self._leaf_terms(x)]
        return []

    def _subst(self, v, pairs):
        sub = lambda t: z3.substitute(t, *pairs) if pairs else t
        if isinstance(v, VBool):
            return VBool(sub(v.t))
        if isinstance(v, VInt):
            return VInt(sub(v.t))
        if isinstance(v, VStr):
            return VStr(sub(v.t))
        if isinstance(v, VAny):
            return VAny(sub(v.t))
        if isinstance(v, VKind):
            return VKind(sub(v.t))
        if isinstance(v, VDType):
            return VDType(sub(v.kind), sub(v.nullable))
        if isinstance(v, VTuple):
            return VTuple([self._subst(x, pairs) for x in v.items])
        if isinstance(v, VNone):
            return v
        raise Unsupported('summary result shape')

    def summarised_call(self, f, args):
        sigs = [self._flat_sig(a) for a in args]
        if not all(sigs):
            return None
        key = (f.qual, tuple(sigs), self.extended)
        ent = Interp.SUMMARIES.get(key)
        if ent is None:
            from .explore import Explorer
            from . import builtins as B
            sub = Interp(Explorer(timeout_ms=2000, max_paths=20000), self.src, self.registry, self.extended)
            sub.loop_specs = self.loop_specs
            phs, terms = [], []
            for j, sg in enumerate(sigs):
                v, ts = sub._placeholder(sg, f'ph!{f.name}!{j}')
                phs.append(v)
                terms.append(ts)

            def thunk():
                try:
                    return ('return', sub.call_def(f, phs, {}, force_body=True), None)
                except PyRaise as pr:
                    return ('raise', pr.exc, None)
            try:
                res = sub.ex.explore(thunk)
                if any(r.kind != 'return' for r in res) or any(r.obligations for r in res):
                    ent = False
                else:
                    merged = B.merge_vals([(z3.And(*r.pc) if r.pc else z3.BoolVal(True), r.value) for r in res])
                    sub._subst(merged, [])      # only flat result shapes can be summarised
                    ent = (terms, merged)
            except Unsupported:
                ent = False
            Interp.SUMMARIES[key] = ent
        if ent is False:
            return None
        terms, merged = ent
        pairs = []
        for ts, a in zip(terms, args):
            for ph, act in zip(ts, self._leaf_terms(a)):
                pairs.append((ph, act))
        return self._subst(merged, pairs)

    def _spec_api(self):
        from . import symcoll
        return symcoll.SPEC_API

    def bind(self, f, env, args, kwargs):
        a = f.node.args
        if f.pyfunc is not None:
            defaults = [self.lift(d) for d in (f.pyfunc.__defaults__ or ())]
            kwd = f.pyfunc.__kwdefaults__ or {}
            kw_defaults = [self.lift(kwd[k.arg]) if k.arg in kwd else None for k in a.kwonlyargs]
        else:
            defaults = getattr(f, 'defaults', [])
            kw_defaults = getattr(f, 'kw_defaults', [])
        params = [p.arg for p in a.posonlyargs + a.args]
        kwargs = dict(kwargs)
        n = len(params)
        for i, p in enumerate(params):
            if i < len(args):
                env.vars[p] = args[i]
            elif p in kwargs:
                env.vars[p] = kwargs.pop(p)
            else:
                di = i - (n - len(defaults))
                if di < 0:
                    self.raise_(TypeError)
                env.vars[p] = defaults[di]
        extra = list(args[n:])
        if a.vararg and a.vararg.arg in kwargs and not extra:
            env.vars[a.vararg.arg] = kwargs.pop(a.vararg.arg)
        elif a.vararg:
            env.vars[a.vararg.arg] = extra[0] if len(extra) == 1 and isinstance(extra[0], VOpaque) else VTuple(extra)
        elif extra:
            self.raise_(TypeError)
        for k, d in zip(a.kwonlyargs, kw_defaults):
            if k.arg in kwargs:
                env.vars[k.arg] = kwargs.pop(k.arg)
            elif d is not None:
                env.vars[k.arg] = d
            else:
                self.raise_(TypeError)
        if a.kwarg and a.kwarg.arg in kwargs and isinstance(kwargs[a.kwarg.arg], VOpaque):
            env.vars[a.kwarg.arg] = kwargs.pop(a.kwarg.arg)
        elif a.kwarg:
            env.vars[a.kwarg.arg] = kwargs.pop('**') if '**' in kwargs and len(kwargs) == 1 else VDict(kwargs)
        elif kwargs:
            self.raise_(TypeError)


def _load(t):
    import copy
    n = copy.copy(t)
    n.ctx = ast.Load()
    return n

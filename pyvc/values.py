"""Symbolic values manipulated by the pyvc interpreter."""
import z3
from .model import PyVal, Kind, K, type_of, py_truth, int_like, int_of


class Unsupported(Exception):
    """Construct outside the modelled Python subset: the function becomes *undecided*."""


class Val:
    pass


class VNone(Val):
    def __repr__(self):
        return 'VNone'


NONE = VNone()


class VEllipsis(Val):
    pass


ELLIPSIS = VEllipsis()


class VBool(Val):
    def __init__(self, t):
        self.t = z3.BoolVal(t) if isinstance(t, bool) else t

    def __repr__(self):
        return f'VBool({self.t})'


class VInt(Val):
    def __init__(self, t):
        self.t = z3.IntVal(t) if isinstance(t, int) else t

    def __repr__(self):
        return f'VInt({self.t})'


class VStr(Val):
    def __init__(self, t):
        self.t = z3.StringVal(t) if isinstance(t, str) else t

    def concrete(self):
        s = z3.simplify(self.t)
        return s.as_string() if z3.is_string_value(s) else None

    def __repr__(self):
        return f'VStr({self.t})'


class VAny(Val):
    """A scalar of unknown Python type (PyVal term)."""

    def __init__(self, t):
        self.t = t

    def __repr__(self):
        return f'VAny({self.t})'


class VTagged(Val):
    """Either a specific sentinel object (when `tag` holds) or the scalar `val`."""

    def __init__(self, tag, sentinel, val):
        self.tag = tag            # z3 Bool
        self.sentinel = sentinel  # VObj
        self.val = val            # VAny


class VKind(Val):
    """A class object used as a dtype kind."""

    def __init__(self, t):
        self.t = K(t) if isinstance(t, str) else t

    def __repr__(self):
        return f'VKind({self.t})'


class VDType(Val):
    """serif.typing.DataType instance (frozen dataclass: structural equality)."""

    def __init__(self, kind, nullable):
        self.kind = kind          # Kind term
        self.nullable = nullable  # Bool term

    def __repr__(self):
        return f'VDType({self.kind},{self.nullable})'


class VTuple(Val):
    def __init__(self, items):
        self.items = list(items)

    def __repr__(self):
        return f'VTuple({self.items})'


class VList(Val):
    def __init__(self, items):
        self.items = list(items)

    def __repr__(self):
        return f'VList({self.items})'


class VSet(Val):
    def __init__(self, items):
        self.items = list(items)


class VDict(Val):
    """Small concrete dict: python-hashable keys (str/int) -> Val."""

    def __init__(self, d=None):
        self.d = dict(d or {})


class VSeq(Val):
    """Symbolic sequence: elements elem(i) for 0 <= i < src_len, kept where pred(i).

    pred is None for an unfiltered sequence (length == src_len).  `kind` is the Python
    container ('tuple', 'list', 'gen', 'range', 'vector-iter').
    """
    _n = 0
    length_hook = None      # set by the interpreter: canonical length term of a filtered sequence

    def __init__(self, src_len, elem, pred=None, kind='tuple', length=None, cls_id=None):
        self.src_len = src_len      # z3 Int
        self.elem = elem            # callable(z3 Int) -> Val
        self.pred = pred            # callable(z3 Int) -> z3 Bool, or None
        self.kind = kind
        self._length = length
        self.cls_id = cls_id        # extensional-equality class (for uninterpreted reductions)

    @property
    def length(self):
        if self._length is None:
            if self.pred is None:
                self._length = self.src_len
            elif VSeq.length_hook is not None:
                self._length = VSeq.length_hook(self)
            else:
                VSeq._n += 1
                self._length = z3.Int(f'flen!{VSeq._n}')
        return self._length

    def with_kind(self, kind):
        s = VSeq(self.src_len, self.elem, self.pred, kind, self._length, self.cls_id)
        for extra in ('sort_perm', 'csv_model'):
            if hasattr(self, extra):
                setattr(s, extra, getattr(self, extra))
        # share lazily-created length
        if self._length is None:
            _ = self.length
            s._length = self._length
        return s

    def __repr__(self):
        return f'VSeq(len={self.src_len}, filtered={self.pred is not None}, {self.kind})'


class VSlice(Val):
    def __init__(self, start, stop, step):
        self.start, self.stop, self.step = start, stop, step


class VObj(Val):
    """Instance of a modelled class (Vector, Table, tracker, ...): mutable record."""
    _n = 0

    def __init__(self, pycls, fields=None, tag=None):
        VObj._n += 1
        self.oid = VObj._n
        self.pycls = pycls
        self.fields = dict(fields or {})
        self.tag = tag

    def __repr__(self):
        return f'VObj({self.pycls.__name__}#{self.oid})'


class VClass(Val):
    def __init__(self, pycls):
        self.pycls = pycls

    def __repr__(self):
        return f'VClass({self.pycls.__name__})'


class VExc(Val):
    """Exception instance (class kept, message dropped)."""

    def __init__(self, pycls):
        self.pycls = pycls

    def __repr__(self):
        return f'VExc({self.pycls.__name__})'


class VFunc(Val):
    """Callable.  kind: 'def' (AST + env), 'builtin', 'bound', 'sym' (uninterpreted), 'op'."""

    def __init__(_s, kind, **kw):
        _s.kind = kind
        _s.__dict__.update(kw)

    def __repr__(self):
        return f'VFunc({self.kind},{getattr(self, "name", "")})'


class VModule(Val):
    def __init__(self, pymod):
        self.pymod = pymod


class VOpaque(Val):
    """Carried but never inspected (e.g. *args / **kwargs bundles)."""

    def __init__(self, tag, ident=None):
        self.tag = tag
        self.ident = ident


# ----------------------------------------------------------------------------------------
def is_concrete_bool(t):
    s = z3.simplify(t)
    if z3.is_true(s):
        return True
    if z3.is_false(s):
        return False
    return None


def concrete_int(v):
    if isinstance(v, VInt):
        s = z3.simplify(v.t)
        if z3.is_int_value(s):
            return s.as_long()
    return None


def to_pyval(v):
    """PyVal term for a scalar Val."""
    if isinstance(v, VAny):
        return v.t
    if isinstance(v, VNone):
        return PyVal.PNone
    if isinstance(v, VBool):
        return PyVal.PB(v.t)
    if isinstance(v, VInt):
        return PyVal.PI(v.t)
    if isinstance(v, VStr):
        return PyVal.PS(v.t)
    raise Unsupported(f'to_pyval({v!r})')


def truthy(v):
    """z3 Bool for bool(v)."""
    if isinstance(v, VNone):
        return z3.BoolVal(False)
    if isinstance(v, VBool):
        return v.t
    if isinstance(v, VInt):
        return v.t != 0
    if isinstance(v, VStr):
        return z3.Length(v.t) > 0
    if isinstance(v, VAny):
        return py_truth(v.t)
    if isinstance(v, VList) and getattr(v, 'gen', False):
        return z3.BoolVal(True)
    if isinstance(v, (VTuple, VList, VSet)):
        return z3.BoolVal(len(v.items) > 0)
    if isinstance(v, VDict):
        return z3.BoolVal(len(v.d) > 0)
    if isinstance(v, VSeq):
        if v.kind == 'gen':
            return z3.BoolVal(True)
        return v.length > 0
    if isinstance(v, (VDType, VKind, VFunc, VClass, VModule, VSlice, VExc)):
        return z3.BoolVal(True)
    if isinstance(v, VObj) and v.tag in ('symdict', 'bucket', 'symset', 'symlist'):
        from .symcoll import truthy_sym
        return truthy_sym(v)
    if isinstance(v, VObj):
        b = getattr(v.pycls, '__bool__', None)
        if b is not None:
            raise Unsupported(f'truthiness of {v!r} goes through __bool__')
        ln = getattr(v.pycls, '__len__', None)
        if ln is not None:
            raise Unsupported(f'truthiness of {v!r} goes through __len__')
        return z3.BoolVal(True)
    raise Unsupported(f'truthy({v!r})')


def kind_of_val(v):
    """Kind term of type(v)."""
    if isinstance(v, VNone):
        return K('NoneType')
    if isinstance(v, VBool):
        return K('bool')
    if isinstance(v, VInt):
        return K('int')
    if isinstance(v, VStr):
        return K('str')
    if isinstance(v, VAny):
        return type_of(v.t)
    if isinstance(v, VTuple):
        return K('tuple')
    if isinstance(v, VList):
        return K('list')
    if isinstance(v, VDict):
        return K('dict')
    if isinstance(v, VSeq):
        if v.kind in ('tuple', 'list'):
            return K(v.kind)
    raise Unsupported(f'type({v!r})')


def veq(a, b, fresh_int=None):
    """Structural / Python `==` equality as a z3 Bool (goal position for sequences)."""
    if isinstance(a, VNone) and isinstance(b, VNone):
        return z3.BoolVal(True)
    if isinstance(a, VDType) and isinstance(b, VDType):
        return z3.And(a.kind == b.kind, a.nullable == b.nullable)
    if isinstance(a, VKind) and isinstance(b, VKind):
        return a.t == b.t
    if isinstance(a, VInt) and isinstance(b, VInt):
        return a.t == b.t
    if isinstance(a, VBool) and isinstance(b, VBool):
        return a.t == b.t
    if isinstance(a, VInt) and isinstance(b, VBool):
        return a.t == z3.If(b.t, 1, 0)
    if isinstance(a, VBool) and isinstance(b, VInt):
        return b.t == z3.If(a.t, 1, 0)
    if isinstance(a, VStr) and isinstance(b, VStr):
        return a.t == b.t
    if isinstance(a, (VTuple, VList)) and isinstance(b, (VTuple, VList)):
        if type(a) is not type(b):
            return z3.BoolVal(False)
        if len(a.items) != len(b.items):
            return z3.BoolVal(False)
        return z3.And([veq(x, y, fresh_int) for x, y in zip(a.items, b.items)] or [z3.BoolVal(True)])
    if isinstance(a, VSeq) and isinstance(b, VSeq):
        return seq_eq(a, b, fresh_int)
    if isinstance(a, (VTuple, VList)) and isinstance(b, VSeq):
        return seq_eq(lit_to_seq(a), b, fresh_int)
    if isinstance(a, VSeq) and isinstance(b, (VTuple, VList)):
        return seq_eq(a, lit_to_seq(b), fresh_int)
    if isinstance(a, VObj) and isinstance(b, VObj):
        if a.tag == 'vector' and b.tag == 'vector':
            from .vecmodel import vec_eq
            return vec_eq(a, b)
        if a.tag == 'keyval' and b.tag == 'keyval':
            return a.term == b.term
        if a.tag == 'table' and b.tag == 'table':
            ca, cb = a.fields.get('_underlying'), b.fields.get('_underlying')
            if not isinstance(ca, VTuple) or not isinstance(cb, VTuple) or len(ca.items) != len(cb.items):
                return z3.BoolVal(False)
            from .vecmodel import vec_eq
            conds = [veq(a.fields['_length'], b.fields['_length'])]
            # column views: values, dtype, name (the row flag of a column is not part of a table's view)
            for x, y in zip(ca.items, cb.items):
                conds += [veq(x.fields[f], y.fields[f]) for f in ('_underlying', '_dtype', '_name')]
            return z3.And(conds)
        return z3.BoolVal(a is b)
    if isinstance(a, VExc) or isinstance(b, VExc):
        return z3.BoolVal(a is b)
    sc = (VNone, VBool, VInt, VStr, VAny)
    if isinstance(a, sc) and isinstance(b, sc):
        return to_pyval(a) == to_pyval(b)
    if isinstance(a, VOpaque) or isinstance(b, VOpaque):
        if a is b:
            return z3.BoolVal(True)
        return z3.Bool(fresh_name('opaque_eq'))      # nothing is known about an opaque value
    # values of different modelled shapes are unequal
    shapes = (VNone, VDType, VKind, VTuple, VList, VObj, VFunc, VClass)
    if isinstance(a, shapes) and isinstance(b, shapes + sc) or isinstance(b, shapes) and isinstance(a, sc):
        return z3.BoolVal(False)
    raise Unsupported(f'veq({a!r},{b!r})')


def lit_to_seq(v):
    items = v.items
    n = len(items)

    def elem(i, items=items):
        if not items:
            return NONE
        # all-scalar literal -> If chain
        t = to_pyval(items[-1])
        for k in range(len(items) - 2, -1, -1):
            t = z3.If(i == k, to_pyval(items[k]), t)
        return VAny(t)
    return VSeq(z3.IntVal(n), elem, None, 'tuple' if isinstance(v, VTuple) else 'list')


_fresh = [0]


def fresh_int(prefix='k'):
    _fresh[0] += 1
    return z3.Int(f'{prefix}!{_fresh[0]}')


def fresh_name(prefix):
    _fresh[0] += 1
    return f'{prefix}!{_fresh[0]}'


def seq_eq(a, b, fi=None):
    """Generic-element rule.  Sound in goal position (fresh index is universally read)."""
    i = fi if fi is not None else fresh_int('ge')
    rng = z3.And(i >= 0, i < a.src_len)
    if a.pred is None and b.pred is None:
        return z3.And(a.src_len == b.src_len,
                      z3.Implies(rng, veq(a.elem(i), b.elem(i))))
    # filtered sequences must share the source indexing
    pa = a.pred(i) if a.pred is not None else z3.BoolVal(True)
    pb = b.pred(i) if b.pred is not None else z3.BoolVal(True)
    return z3.And(a.src_len == b.src_len,
                  z3.Implies(rng, z3.And(pa == pb, z3.Implies(pa, veq(a.elem(i), b.elem(i))))))

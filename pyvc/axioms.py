"""Validation of the builtin contracts the encoding assumes, against CPython, on every run.
A failed axiom aborts the check with exit 3 (checker broken), never with a violation."""
import itertools
import z3


def validate():
    bad = []
    # truthiness / identity facts
    if bool(()) or not bool((0,)) or not bool(x for x in ()):
        bad.append('truthiness table (empty tuple false, generator always true)')
    if tuple(t := (1, 2)) is not t:
        bad.append('tuple(t) is t')
    if type(-True) is not int or type(abs(1j)) is not float or type(True + True) is not int:
        bad.append('operator result-type table')
    if not (issubclass(bool, int) and not issubclass(int, bool)):
        bad.append('bool <: int')
    import datetime
    if not issubclass(datetime.datetime, datetime.date):
        bad.append('datetime <: date')
    # stable sort with reverse
    xs = [(1, 'a'), (0, 'b'), (1, 'c'), (0, 'd')]
    if sorted(xs, key=lambda p: p[0], reverse=True) != [(1, 'a'), (1, 'c'), (0, 'b'), (0, 'd')]:
        bad.append('sorted(reverse=True) keeps the original order of equal keys')
    d = {}
    for k in (3, 1, 2, 1):
        d.setdefault(k, []).append(k)
    if list(d) != [3, 1, 2]:
        bad.append('dict preserves first-insertion order')
    try:
        list(zip([1], [1, 2], strict=True))
        bad.append('zip(strict=True) raises on unequal lengths')
    except ValueError:
        pass
    # Python floor division / modulo encoding
    from .model import floordiv, pymod
    a, b = z3.Ints('a b')
    for x, y in itertools.product(range(-7, 8), [-3, -2, -1, 1, 2, 3]):
        q = z3.simplify(z3.substitute(floordiv(a, b), (a, z3.IntVal(x)), (b, z3.IntVal(y)))).as_long()
        r = z3.simplify(z3.substitute(pymod(a, b), (a, z3.IntVal(x)), (b, z3.IntVal(y)))).as_long()
        if q != x // y or r != x % y:
            bad.append(f'floordiv/mod encoding at {x},{y}')
            break
    # slice.indices encoding (the spec of slicing used by C07/C08/C20)
    bad.extend(validate_slices())
    return bad


def validate_slices():
    from .builtins import slice_indices, range_len
    from .values import VSlice, VInt, NONE

    class FakeEx:
        def choose(self, c):
            return z3.is_true(z3.simplify(c))

    class FakeI:
        ex = FakeEx()

        def raise_(self, e):
            raise e()
    I = FakeI()
    vals = [None, -3, -1, 0, 1, 2, 4]
    steps = [None, -2, -1, 1, 2, 3]
    for n in (0, 1, 3):
        for st, sp, se in itertools.product(vals, vals, steps):
            mk = lambda v: NONE if v is None else VInt(v)
            s, e, step = slice_indices(I, VSlice(mk(st), mk(sp), mk(se)), z3.IntVal(n))
            got = tuple(z3.simplify(t).as_long() for t in (s, e, step))
            want = slice(st, sp, se).indices(n)
            ln = z3.simplify(range_len(s, e, step)).as_long()
            if got != want or ln != len(range(*want)):
                return [f'slice.indices encoding at {(st, sp, se, n)}: {got} vs {want}']
    return []

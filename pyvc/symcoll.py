"""Symbolic dict / set / list-of-int containers for the imperative hash-index loops (DESIGN 2.6).

A dict whose keys are tuples of scalars and whose values are lists of row indices is held as z3
arrays:   blen : Key -> Int        (0 = key absent)
          barr : Key -> (Int -> Int)
          ord  : Int -> Key, count : Int      (insertion order, for .items())
Key equality is Python tuple equality of the normalised components (True == 1, 1 == 1.0 are not
modelled beyond bool/int: join keys are int / str / bool / date / None; float keys are rejected
by serif).  The proof never mentions hash values.
"""
import z3

from .model import PyVal
from .values import *  # noqa
from .values import fresh_name

_K = z3.Datatype('Key')
_K.declare('K1', ('a1', PyVal))
_K.declare('K2', ('b1', PyVal), ('b2', PyVal))
_K.declare('K3', ('c1', PyVal), ('c2', PyVal), ('c3', PyVal))
_K.declare('K0')
Key = _K.create()

IntArr = z3.ArraySort(z3.IntSort(), z3.IntSort())


_KNORM = z3.RecFunction('knorm', PyVal, PyVal)
_kx = z3.Const('knorm.x', PyVal)
z3.RecAddDefinition(_KNORM, [_kx], z3.If(PyVal.is_PB(_kx), PyVal.PI(z3.If(PyVal.b(_kx), z3.IntVal(1), z3.IntVal(0))), _kx))


def knorm(t):
    """Normal form of a key component: bool -> int (True == 1 as dict keys).  A defined function
    (not an inlined if-then-else) so that key terms can serve as instantiation patterns."""
    return _KNORM(t)


def mkkey(I, v):
    """Key term of a tuple value."""
    if isinstance(v, VTuple):
        comps = [knorm(to_pyval(x)) for x in v.items]
    elif isinstance(v, (VAny, VInt, VStr, VBool, VNone)):
        comps = [knorm(to_pyval(v))]
        return Key.K1(comps[0])
    else:
        raise Unsupported(f'dict key {v!r}')
    if len(comps) == 0:
        return Key.K0
    if len(comps) == 1:
        return Key.K1(comps[0])
    if len(comps) == 2:
        return Key.K2(*comps)
    if len(comps) == 3:
        return Key.K3(*comps)
    raise Unsupported('key tuples longer than 3')


class SymDict(VObj):
    """dict: Key -> list[int]"""

    def __init__(self, name, fresh=False):
        super().__init__(dict, tag='symdict')
        n = fresh_name(name)
        if fresh:
            self.blen = z3.Const(n + '.len', z3.ArraySort(Key, z3.IntSort()))
            self.barr = z3.Const(n + '.arr', z3.ArraySort(Key, IntArr))
            self.ord = z3.Const(n + '.ord', z3.ArraySort(z3.IntSort(), Key))
            self.count = z3.Int(n + '.count')
        else:
            self.blen = z3.K(Key, z3.IntVal(0))
            self.barr = z3.K(Key, z3.K(z3.IntSort(), z3.IntVal(0)))
            self.ord = z3.K(z3.IntSort(), Key.K0)
            self.count = z3.IntVal(0)

    def bucket(self, k):
        return Bucket(self, k)


class Bucket(VObj):
    """The list stored under key k (an alias: appends go through to the dict)."""

    def __init__(self, d, k):
        super().__init__(list, tag='bucket')
        self.d = d
        self.k = k

    def as_seq(self):
        d, k = self.d, self.k
        ln, arr = z3.Select(d.blen, k), z3.Select(d.barr, k)
        return VSeq(ln, lambda i, arr=arr: VInt(z3.Select(arr, i)), None, 'list')


class SymSet(VObj):
    """set of keys, or of ints"""

    def __init__(self, name, of='key', fresh=False):
        super().__init__(set, tag='symset')
        self.of = of
        dom = Key if of == 'key' else z3.IntSort()
        self.mem = z3.Const(fresh_name(name) + '.mem', z3.ArraySort(dom, z3.BoolSort())) if fresh \
            else z3.K(dom, z3.BoolVal(False))
        self.nonempty = z3.Bool(fresh_name(name) + '.nonempty') if fresh else z3.BoolVal(False)

    def term(self, I, v):
        if self.of == 'key':
            return mkkey(I, v)
        if isinstance(v, VInt):
            return v.t
        raise Unsupported('int set member')


class SymList(VObj):
    """list of scalars grown by append: length + element array"""

    def __init__(self, name, fresh=False):
        super().__init__(list, tag='symlist')
        n = fresh_name(name)
        self.length = z3.Int(n + '.len') if fresh else z3.IntVal(0)
        self.arr = z3.Const(n + '.arr', z3.ArraySort(z3.IntSort(), PyVal)) if fresh else z3.K(z3.IntSort(), PyVal.PNone)

    def as_seq(self):
        arr = self.arr
        return VSeq(self.length, lambda i, arr=arr: VAny(z3.Select(arr, i)), None, 'list')


class SymKeyList(VObj):
    """list of fixed length holding dict keys (tuples), written by index: `lst = [None] * n;
    lst[i] = key`.  Unwritten positions hold an arbitrary key (an over-approximation of None)."""

    def __init__(self, name, length):
        super().__init__(list, tag='symkeylist')
        self.length = length
        self.arr = z3.Const(fresh_name(name) + '.keys', z3.ArraySort(z3.IntSort(), Key))
        self.arity = None


class SymMap(VObj):
    """dict from key tuples to scalar values: domain predicate + value array"""

    def __init__(self, name, fresh=False):
        super().__init__(dict, tag='symmap')
        n = fresh_name(name)
        self.has = z3.Const(n + '.has', z3.ArraySort(Key, z3.BoolSort())) if fresh else z3.K(Key, z3.BoolVal(False))
        self.val = z3.Const(n + '.val', z3.ArraySort(Key, PyVal))
        self.arity = None


def norm_index_checked(I, k, n):
    """Python list index: normalised position; IndexError path when out of range."""
    from .interp import PyRaise
    from .values import VExc
    kt = _int(k)
    if I.ex.choose(z3.Or(kt < -n, kt >= n)):
        raise PyRaise(VExc(IndexError))
    return z3.If(kt < 0, kt + n, kt)


def sym_getitem(I, obj, k):
    from .interp import PyRaise
    from .values import VExc
    if isinstance(obj, SymKeyList):
        j = norm_index_checked(I, k, obj.length)
        kv = KeyVal(z3.Select(obj.arr, j))
        kv.arity = obj.arity
        return kv
    if isinstance(obj, SymMap):
        kt = k.term if isinstance(k, KeyVal) else mkkey(I, k)
        if I.ex.choose(z3.Not(z3.Select(obj.has, kt))):
            raise PyRaise(VExc(KeyError))
        return VAny(z3.Select(obj.val, kt))
    raise Unsupported(f'item read on {obj.tag}')


def sym_setitem(I, obj, k, v):
    if isinstance(obj, SymKeyList):
        j = norm_index_checked(I, k, obj.length)
        if isinstance(v, VTuple):
            obj.arity = len(v.items)
        obj.arr = z3.Store(obj.arr, j, v.term if isinstance(v, KeyVal) else mkkey(I, v))
        return
    if isinstance(obj, SymMap):
        kt = k.term if isinstance(k, KeyVal) else mkkey(I, k)
        if isinstance(k, VTuple):
            obj.arity = len(k.items)
        elif isinstance(k, KeyVal) and getattr(k, 'arity', None):
            obj.arity = k.arity
        obj.has = z3.Store(obj.has, kt, z3.BoolVal(True))
        obj.val = z3.Store(obj.val, kt, to_pyval(v))
        return
    raise Unsupported(f'item store on {obj.tag}')


def truthy_sym(v):
    if isinstance(v, Bucket):
        return z3.Select(v.d.blen, v.k) > 0
    if isinstance(v, SymDict):
        return v.count > 0
    if isinstance(v, SymSet):
        return v.nonempty
    if isinstance(v, SymList):
        return v.length > 0
    return None


def method(I, obj, m, args, kwargs):
    if isinstance(obj, SymDict):
        if m == 'get':
            k = mkkey(I, args[0])
            if I.ex.choose(z3.Select(obj.blen, k) == 0):
                return args[1] if len(args) > 1 else NONE
            return obj.bucket(k)
        if m == 'items':
            d = obj
            blen, barr, ordr, arity = d.blen, d.barr, d.ord, getattr(d, 'arity', None)

            def item(g):
                kv = KeyVal(z3.Select(ordr, g))
                kv.arity = arity
                snap = SymDict('snap')
                snap.blen, snap.barr = blen, barr
                return VTuple([kv, Bucket(snap, z3.Select(ordr, g))])
            return VSeq(d.count, item, None, 'list')
    if isinstance(obj, Bucket):
        if m == 'append':
            d, k = obj.d, obj.k
            x = args[0]
            if not isinstance(x, VInt):
                raise Unsupported('bucket.append of a non-int')
            ln = z3.Select(d.blen, k)
            d.barr = z3.Store(d.barr, k, z3.Store(z3.Select(d.barr, k), ln, x.t))
            d.blen = z3.Store(d.blen, k, ln + 1)
            return NONE
    if isinstance(obj, SymSet):
        if m == 'add':
            obj.mem = z3.Store(obj.mem, obj.term(I, args[0]), z3.BoolVal(True))
            obj.nonempty = z3.BoolVal(True)
            return NONE
    if isinstance(obj, SymList):
        if m == 'append':
            obj.arr = z3.Store(obj.arr, obj.length, to_pyval(args[0]))
            obj.length = obj.length + 1
            return NONE
    raise Unsupported(f'method {m} on {obj.tag}')


class KeyVal(VObj):
    """A key tuple read back from a dict (e.g. in `for key, rows in d.items()`)."""

    def __init__(self, term):
        super().__init__(tuple, tag='keyval')
        self.term = term


def key_component(kv, j, arity=None):
    """j-th component of a stored key (normalised), for whatever arity the key has."""
    t = kv.term
    per = {1: [Key.a1], 2: [Key.b1, Key.b2], 3: [Key.c1, Key.c2, Key.c3]}
    if arity is not None:
        return VAny(per[arity][j](t))
    cands = [(Key.is_K1, per[1]), (Key.is_K2, per[2]), (Key.is_K3, per[3])]
    term = None
    for rec, accs in reversed(cands):
        if j < len(accs):
            term = accs[j](t) if term is None else z3.If(rec(t), accs[j](t), term)
    if term is None:
        raise Unsupported('key component index')
    return VAny(term)


def store_item(I, d, key, value):
    """d[key] = value  (value: a one-element literal list, or an existing bucket for the
    `duplicates[key] = bucket` idiom, where only membership matters)."""
    k = mkkey(I, key)
    if isinstance(key, VTuple):
        d.arity = len(key.items)
    if isinstance(value, VList) and len(value.items) == 1 and isinstance(value.items[0], VInt):
        fresh = z3.Select(d.blen, k) == 0
        d.ord = z3.If(fresh, z3.Store(d.ord, d.count, k), d.ord)
        d.count = z3.If(fresh, d.count + 1, d.count)
        d.barr = z3.Store(d.barr, k, z3.Store(z3.K(z3.IntSort(), z3.IntVal(0)), 0, value.items[0].t))
        d.blen = z3.Store(d.blen, k, z3.IntVal(1))
        return
    if isinstance(value, Bucket):
        # record only that the key is present (length of the aliased bucket)
        fresh = z3.Select(d.blen, k) == 0
        d.ord = z3.If(fresh, z3.Store(d.ord, d.count, k), d.ord)
        d.count = z3.If(fresh, d.count + 1, d.count)
        d.blen = z3.Store(d.blen, k, z3.Select(value.d.blen, value.k))
        d.barr = z3.Store(d.barr, k, z3.Select(value.d.barr, value.k))
        return
    raise Unsupported(f'symbolic dict store of {value!r}')


def contains(I, container, item):
    if isinstance(container, SymSet):
        return z3.Select(container.mem, container.term(I, item))
    if isinstance(container, SymDict):
        return z3.Select(container.blen, mkkey(I, item)) > 0
    raise Unsupported('in on symbolic container')


# ---------------------------------------------------------------- in-place havoc (loop induction)
def havoc(obj, name='h'):
    n = fresh_name(name)
    if isinstance(obj, SymDict):
        obj.blen = z3.Const(n + '.len', z3.ArraySort(Key, z3.IntSort()))
        obj.barr = z3.Const(n + '.arr', z3.ArraySort(Key, IntArr))
        obj.ord = z3.Const(n + '.ord', z3.ArraySort(z3.IntSort(), Key))
        obj.count = z3.Int(n + '.count')
    elif isinstance(obj, SymSet):
        dom = Key if obj.of == 'key' else z3.IntSort()
        obj.mem = z3.Const(n + '.mem', z3.ArraySort(dom, z3.BoolSort()))
        obj.nonempty = z3.Bool(n + '.nonempty')
    elif isinstance(obj, SymList):
        obj.length = z3.Int(n + '.len')
        obj.arr = z3.Const(n + '.arr', z3.ArraySort(z3.IntSort(), PyVal))
    elif isinstance(obj, SymKeyList):
        obj.arr = z3.Const(n + '.keys', z3.ArraySort(z3.IntSort(), Key))
    elif isinstance(obj, SymMap):
        obj.has = z3.Const(n + '.has', z3.ArraySort(Key, z3.BoolSort()))
        obj.val = z3.Const(n + '.val', z3.ArraySort(Key, PyVal))
    elif isinstance(obj, VList):
        for j, x in enumerate(obj.items):
            havoc(x, f'{name}{j}')
    else:
        raise Unsupported(f'in-place havoc of {obj!r}')


class VArr(Val):
    """Ghost array value (z3 array term)."""

    def __init__(self, t):
        self.t = t


def fresh_ghost(sort, name):
    n = fresh_name(name)
    if sort == 'intarr':
        return VArr(z3.Const(n, IntArr))
    if sort == 'keyintarr':
        return VArr(z3.Const(n, z3.ArraySort(Key, z3.IntSort())))
    if sort == 'int':
        return VInt(z3.Int(n))
    raise Unsupported(f'ghost sort {sort}')


# ---------------------------------------------------------------- spec API (contracts.specs.*)
def _keyterm(I, k):
    if isinstance(k, KeyVal):
        return k.term
    return mkkey(I, k)


def _int(v):
    if isinstance(v, VInt):
        return v.t
    if isinstance(v, VBool):
        return z3.If(v.t, 1, 0)
    raise Unsupported(f'int expected, got {v!r}')


def spec_api(I, name, args):
    """Symbolic meaning of the container-inspection functions used by loop invariants."""
    if name == 'mk_key':
        items = args[0].items if len(args) == 1 and isinstance(args[0], (VTuple, VList)) else list(args)
        kv = KeyVal(mkkey(I, VTuple(items)))
        kv.arity = len(items)
        return kv
    if name == 'blen':
        return VInt(z3.Select(args[0].blen, _keyterm(I, args[1])))
    if name == 'bat':
        return VInt(z3.Select(z3.Select(args[0].barr, _keyterm(I, args[1])), _int(args[2])))
    if name == 'dcount':
        return VInt(args[0].count)
    if name == 'dord':
        kv = KeyVal(z3.Select(args[0].ord, _int(args[1])))
        return kv
    if name == 'smem':
        s = args[0]
        return VBool(z3.Select(s.mem, s.term(I, args[1]) if not isinstance(args[1], KeyVal) else args[1].term))
    if name == 'llen':
        return VInt(args[0].length)
    if name == 'lat':
        return VAny(z3.Select(args[0].arr, _int(args[1])))
    if name == 'sel':
        a = args[0]
        idx = args[1]
        it = idx.term if isinstance(idx, KeyVal) else (_keyterm(I, idx) if isinstance(idx, VTuple) else _int(idx))
        return VInt(z3.Select(a.t, it))
    if name == 'upd':
        a, idx, v = args
        it = idx.term if isinstance(idx, KeyVal) else (_keyterm(I, idx) if isinstance(idx, VTuple) else _int(idx))
        return VArr(z3.Store(a.t, it, _int(v)))
    if name in ('csv_rowlen', 'csv_text', 'csv_nrows'):
        m = getattr(args[0], 'csv_model', None)
        if m is None:
            raise Unsupported('csv model of a sequence that does not come from csv.reader')
        n, rowlen, cell = m
        if name == 'csv_nrows':
            return VInt(n)
        if name == 'csv_rowlen':
            return VInt(rowlen(_int(args[1])))
        return VStr(cell(_int(args[1]), _int(args[2])))
    if name == 'sort_source':
        sq = args[0]
        if not hasattr(sq, 'sort_perm'):
            raise Unsupported('sort_source of a sequence that is not the result of a sort')
        return VInt(sq.sort_perm(_int(args[1])))
    if name == 'kat':
        kv = KeyVal(z3.Select(args[0].arr, _int(args[1])))
        kv.arity = args[0].arity
        return kv
    if name == 'mhas':
        return VBool(z3.Select(args[0].has, _keyterm(I, args[1])))
    if name == 'mget':
        return VAny(z3.Select(args[0].val, _keyterm(I, args[1])))
    if name == 'key_part':
        jj = args[1].concrete() if hasattr(args[1], 'concrete') else args[1]
        if not isinstance(jj, int):
            from .values import concrete_int
            jj = concrete_int(args[1])
        if jj is None:
            raise Unsupported('key_part with a symbolic component index')
        return key_component(args[0], jj, getattr(args[0], 'arity', None))
    if name == 'same':
        return VBool(to_pyval(args[0]) == to_pyval(args[1]))
    if name == 'at':
        from . import builtins as B
        return B.as_vseq(I, args[0]).elem(_int(args[1]))
    if name == 'ghost_zero_int':
        return VArr(z3.K(z3.IntSort(), z3.IntVal(0)))
    if name == 'ghost_zero_key':
        return VArr(z3.K(Key, z3.IntVal(0)))
    if name == 'forall':
        sorts, fn = args[0].concrete(), args[1]
        from . import builtins as B
        bound, vals = [], []
        for ch in sorts:
            if ch == 'i':
                b = z3.Int(fresh_name('qi'))
                bound.append(b)
                vals.append(VInt(b))
            elif ch == 'k':
                b = z3.Const(fresh_name('qk'), Key)
                bound.append(b)
                vals.append(KeyVal(b))
            else:
                raise Unsupported('forall sort ' + ch)
        body = B.eval_merged(I, lambda: VBool(truthy(I.call(fn, vals, {}))))
        pats = choose_patterns(bound, body.t)
        if pats:
            return VBool(z3.ForAll(bound, body.t, patterns=pats))
        return VBool(z3.ForAll(bound, body.t))
    raise Unsupported(f'spec api {name}')


_PATTERN_OK_KINDS = None


def choose_patterns(bound, body, max_alternatives=4):
    """Explicit, arithmetic-free instantiation patterns for a quantified invariant clause.

    z3's automatic choice prefers a single term covering all bound variables even when that term
    contains arithmetic (`arr[q - start[l]]`), and matching such a term is syntactic and fragile.
    Here: candidate terms are applications of uninterpreted functions / array reads / datatype
    constructors that contain a bound variable and no arithmetic, comparison, boolean or
    if-then-else operator anywhere inside; alternatives are small covers of all bound variables."""
    bids = {b.get_id(): i for i, b in enumerate(bound)}
    ok_kinds = {z3.Z3_OP_UNINTERPRETED, z3.Z3_OP_SELECT, z3.Z3_OP_DT_CONSTRUCTOR, z3.Z3_OP_DT_ACCESSOR}
    info = {}       # term id -> (clean?, frozenset(bound indices), size)

    def visit(t):
        k = t.get_id()
        if k in info:
            return info[k]
        if k in bids:
            r = (True, frozenset([bids[k]]), 1)
        elif z3.is_quantifier(t) or z3.is_var(t):
            r = (False, frozenset(), 1)
        elif z3.is_app(t):
            ch = [visit(c) for c in t.children()]
            vs = frozenset().union(*[c[1] for c in ch]) if ch else frozenset()
            size = 1 + sum(c[2] for c in ch)
            kind = t.decl().kind()
            if t.num_args() == 0:
                clean = True            # ground constant / numeral
            else:
                clean = kind in ok_kinds and all(c[0] for c in ch)
            r = (clean, vs, size)
        else:
            r = (False, frozenset(), 1)
        info[k] = r
        return r

    cands = {}
    seen = set()
    stack = [body]
    while stack:
        t = stack.pop()
        k = t.get_id()
        if k in seen or z3.is_quantifier(t):
            continue
        seen.add(k)
        clean, vs, size = visit(t)
        if z3.is_app(t) and t.num_args() > 0 and clean and vs and k not in bids and \
                t.decl().kind() in (z3.Z3_OP_UNINTERPRETED, z3.Z3_OP_SELECT):
            cands[k] = (t, vs, size)
            # keep looking inside: smaller candidates may be needed as alternatives
        if z3.is_app(t):
            stack.extend(t.children())
    if not cands:
        return None
    allv = frozenset(range(len(bound)))
    items = sorted(cands.values(), key=lambda x: (x[2], str(x[0])))
    alts = []
    singles = [t for t, vs, size in items if vs == allv]
    for t in singles[:max_alternatives]:
        alts.append(t)
    if len(alts) < max_alternatives and len(bound) > 1:
        # greedy covers starting from different first terms
        for t0, vs0, _ in items:
            if vs0 == allv:
                continue
            cover, have = [t0], set(vs0)
            for t1, vs1, _ in items:
                if have >= allv:
                    break
                if not (vs1 <= have):
                    cover.append(t1)
                    have |= vs1
            if have >= allv:
                key = tuple(sorted(c.get_id() for c in cover))
                if key not in [getattr(a, '_key', None) for a in alts]:
                    mp = z3.MultiPattern(*cover)
                    mp._key = key
                    alts.append(mp)
            if len(alts) >= max_alternatives:
                break
    return alts or None


SPEC_API = {'csv_rowlen', 'csv_text', 'csv_nrows', 'sort_source', 'kat', 'mhas', 'mget', 'key_part', 'same', 'at', 'ghost_zero_int', 'ghost_zero_key', 'mk_key', 'blen', 'bat', 'dcount', 'dord', 'smem', 'llen', 'lat', 'sel', 'upd', 'forall'}

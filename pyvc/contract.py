"""Contracts (sidecar), their use at call sites, and the per-function verification driver."""
import ast
import inspect
import time
import traceback
import z3

from .values import *  # noqa
from .values import fresh_name
from .explore import Explorer, solve, Infeasible, PathEnd
from .interp import Interp, PyRaise, Env, ReturnSig
from .loops import fresh_of_sort, LoopSpec
from . import extract

REGISTRY = {}       # qualname -> Contract
LEMMAS = []         # Contract(kind='lemma')
LOOPS = {}          # (qualname, ordinal) -> LoopSpec


class Contract:
    def __init__(self, qual, props, spec, kind='function'):
        self.qual = qual
        self.props = props
        self.kind = kind
        self.name = spec.__name__
        def g(a, d=None):
            for klass in spec.__mro__:          # plain attribute inheritance between sidecar classes
                if klass is not object and a in klass.__dict__:
                    return _unwrap(klass.__dict__[a])
            return _unwrap(d)
        self.params = g('params', {})
        self.requires = g('requires')
        self.returns = g('returns')
        self.ensures = g('ensures')
        self.raises = g('raises', [])          # [(exc class, cond func, iff?)]
        self.may_raise = g('may_raise', [])     # exception classes left unconstrained
        self.inline = g('inline', False)
        self.result_sort = g('result_sort')
        self.nested = g('nested')               # (outer qualname, inner name, ordinal)
        self.closure = g('closure', {})         # {free variable: sort} for nested targets
        self.setup = g('setup')                 # custom argument builder(I) -> dict
        self.statement = g('statement')         # lemma body
        self.exact = g('exact', True)
        self.note = g('note', '')
        self.extended = g('extended', False)
        self.total = g('total', False)          # no exception allowed at all
        self.modifies = g('modifies', [])       # fields of self havocked by a call
        self.updates = g('updates', {})         # {field of self: spec function of the PRE-state} (mutators)
        self.assume_loops = g('assume_loops', ())   # loop invariants proved by another variant of the same function: assumed at exit here
        self.generics = g('generics', ())       # names of rigid generic integer constants (arbitrary but fixed per activation)
        self.stop_after = g('stop_after', ())   # loop-invariant names after whose exit the path ends (phase proofs)
        self.quant_prune = g('quant_prune', True)   # use quantified facts to prune branches (slow when the pc holds big invariants)
        self.tier = g('tier', 'quick')          # 'thorough': verified in the thorough tier only (slow)
        self.trusted = g('trusted', False)      # assumed at call sites, body not verified (listed)
        self.c03 = g('c03', False)              # also prove Truthful(result) (C03 construction site)
        self.slice_vars = g('slice_vars')       # mechanical statement slice (see slice_function)
        if self.c03 and 'C03' not in self.props:
            self.props.append('C03')


def _unwrap(x):
    if isinstance(x, staticmethod):
        return x.__func__
    return x


def contract(qual, props=(), variant=None):
    """Register a contract.  `variant` registers an additional verification-only instance of the
    same function (e.g. one per key form, so that the pool can verify them in parallel); call
    sites always use the primary (variant-less) contract."""
    def deco(spec):
        c = Contract(qual, list(props), spec)
        c.variant = variant
        REGISTRY[qual if variant is None else f'{qual}#{variant}'] = c
        return spec
    return deco


def lemma(name, props=()):
    def deco(spec):
        c = Contract(name, list(props), spec, kind='lemma')
        LEMMAS.append(c)
        return spec
    return deco


REPRESENTATIONS = {}    # (qualname, local) -> symbolic representation of a container
EXIT_ASSERTS = {}       # qualname -> function over the locals at return


def loop_invariant(qual, ordinal, havoc, ghost=None, ghost_init=None, ghost_step=None):
    def deco(fn):
        LOOPS[(qual, ordinal)] = LoopSpec(fn, havoc, ghost=ghost, ghost_init=ghost_init, ghost_step=ghost_step)
        return fn
    return deco


def represent(qual, **locals_):
    for name, rep in locals_.items():
        REPRESENTATIONS[(qual, name)] = rep


def exit_assert(qual):
    def deco(fn):
        EXIT_ASSERTS[qual] = fn
        return fn
    return deco


def all_contracts():
    return [c for c in REGISTRY.values() if isinstance(c, Contract)]


def call_spec(I, fn, values):
    """Call sidecar function `fn` with the subset of `values` named in its signature."""
    params = list(inspect.signature(fn).parameters)
    kwargs = {p: values[p] for p in params if p in values}
    missing = [p for p in params if p not in values]
    if missing:
        raise Unsupported(f'spec function {fn.__name__} needs {missing}')
    return I.call(I.lift(fn), [], kwargs)


def bind_args(I, f, args, kwargs):
    env = Env(f.globs, f.closure_env, f.qual)
    I.bind(f, env, args, kwargs)
    return dict(env.vars)


def apply_contract(I, c, f, args, kwargs):
    """Call site: only the callee's contract is known."""
    vals = bind_args(I, f, args, kwargs)
    caller = 'call'
    if c.requires is not None:
        I.ex.prove(f'{caller}[{c.qual}]:pre', truthy(call_spec(I, c.requires, vals)), kind='pre')
    for exc, cond, *_ in c.raises:
        if I.ex.choose(truthy(call_spec(I, cond, vals))):
            raise PyRaise(VExc(exc))
    for exc in c.may_raise:
        if I.ex.choose(z3.Bool(fresh_name('may_raise'))):
            raise PyRaise(VExc(exc))
    for fld in c.modifies:
        slf = vals.get('self')
        if isinstance(slf, VObj):
            slf.fields[fld] = VOpaque('havoc:' + fld)
    if c.updates:
        slf = vals.get('self')
        newvals = {fld: call_spec(I, fn, vals) for fld, fn in c.updates.items()}   # all from the pre-state
        for fld, v in newvals.items():
            slf.fields[fld] = v
    if c.returns is not None:
        res = call_spec(I, c.returns, vals)
        if c.ensures is not None and 'old' not in inspect.signature(c.ensures).parameters:
            # both clauses are obligations of the callee's own proof
            I.ex.assume(truthy(call_spec(I, c.ensures, dict(vals, result=res))))
        return res
    if c.result_sort is None:
        return NONE
    res = fresh_of_sort(I, c.result_sort, 'res')
    if c.ensures is not None:
        I.ex.assume(truthy(call_spec(I, c.ensures, dict(vals, result=res))))
    return res


class FunctionReport:
    def __init__(self, c):
        self.contract = c
        self.obligations = []
        self.paths = 0
        self.error = None          # Unsupported / internal error text => undecided
        self.time_s = 0.0
        self.source = None

    @property
    def families(self):
        fam = {}
        for ob in self.obligations:
            fam.setdefault(ob.name, []).append(ob)
        return fam


def make_interp(timeout_ms=3000, extended=False):
    ex = Explorer(timeout_ms=timeout_ms)
    src = extract.SourceIndex()
    I = Interp(ex, src, REGISTRY, extended=extended)
    I.loop_specs = LOOPS
    I.representations = REPRESENTATIONS
    I.exit_asserts = EXIT_ASSERTS
    from . import vecmodel, builtins as _B
    vecmodel.install(REGISTRY)
    VSeq.length_hook = lambda s: _B.filtered_length(I, s)
    return I


def target_function(I, c):
    if c.nested is None:
        return I.lift(extract.resolve(c.qual)), None
    outer_q, name, ordinal = c.nested
    outer = extract.resolve(outer_q)
    onode = I.src.funcdef_of(outer)
    inner = I.src.find_nested(onode, name, ordinal)
    I.src.record_nested(c.qual, outer.__code__.co_filename, inner)
    return (outer, onode, inner), 'nested'


def verify_contract(c, timeout_ms=10000, explore_timeout_ms=3000):
    """Generate and discharge every obligation of one function against its contract."""
    rep = FunctionReport(c)
    t0 = time.time()
    if c.trusted:
        rep.assumptions = [f'TRUSTED contract (assumed, body not verified): {c.qual} - {(c.name)}']
        rep.source = {}
        return rep
    I = make_interp(explore_timeout_ms, c.extended)
    I.stop_after_loops = set(c.stop_after)
    I.assume_loops = set(c.assume_loops)
    I.generics = tuple(c.generics)
    I.ex.quant_prune = c.quant_prune
    prop = c.props[0] if c.props else 'C??'
    short = c.qual.replace('serif.', '', 1)
    try:
        if c.kind == 'lemma':
            results = _explore_lemma(I, c, prop)
        else:
            tgt, mode = target_function(I, c)
            results = _explore_function(I, c, tgt, mode, prop, short)
        for r in results:
            rep.obligations.extend(r.obligations)
        rep.paths = len(results)
        # vacuity guard: a contract that states a result must see at least one path that RETURNS and
        # reaches its postcondition; otherwise every obligation it generated is about raising paths
        # only and "all discharged" would say nothing about the result (the dropped-empty-path defect
        # of round 7 looked exactly like this).  Undecided, never a violation.
        if c.kind != 'lemma' and (c.returns is not None or c.ensures is not None) and not c.stop_after \
                and not any(getattr(ob, 'kind', None) == 'post' for ob in rep.obligations):
            rep.error = 'unsupported: vacuous - no explored path returns and reaches the postcondition'
    except Unsupported as e:
        rep.error = f'unsupported: {e}'
    except RecursionError:
        rep.error = 'unsupported: recursion depth'
    except Exception as e:      # engine defect: never mapped to a violation
        rep.error = 'internal: ' + ''.join(traceback.format_exception_only(type(e), e)).strip() + \
            ' @ ' + traceback.format_tb(e.__traceback__)[-1].strip().replace('\n', ' | ')
    rep.source = dict(I.src.used)
    rep.assumptions = sorted(I.assumptions)
    rep.explore_s = time.time() - t0
    for ob in rep.obligations:
        solve(ob, timeout_ms)
    rep.time_s = time.time() - t0
    return rep


def _explore_lemma(I, c, prop):
    def thunk():
        vals = {p: fresh_of_sort(I, s, p) for p, s in c.params.items()}
        if c.requires is not None:
            I.ex.assume(truthy(call_spec(I, c.requires, vals)))
        try:
            r = call_spec(I, c.statement, vals)
        except PyRaise as pr:
            I.ex.prove(f'{prop}:lemma:{c.qual}', z3.BoolVal(False), kind='lemma',
                       meta={'raised': pr.exc.pycls.__name__})
            return ('raise', pr.exc, None)
        I.ex.prove(f'{prop}:lemma:{c.qual}', truthy(r), kind='lemma')
        return ('return', r, None)
    return I.ex.explore(thunk)


def _fresh_params(I, params):
    """Fresh symbolic arguments; the sort `same:<earlier parameter>` binds a parameter to the very
    same object as an earlier one (calls such as `v == v`, where identity-based shortcuts apply)."""
    vals = {}
    for p, s in params.items():
        vals[p] = vals[s[5:]] if s.startswith('same:') else fresh_of_sort(I, s, p)
    return vals


def _explore_function(I, c, tgt, mode, prop, short):
    def thunk_inner():
        if mode == 'nested':
            outer, onode, inner = tgt
            cenv = Env(outer.__globals__, None, c.nested[0])
            for nm, s in c.closure.items():
                cenv.vars[nm] = fresh_of_sort(I, s, nm)
            if isinstance(inner, ast.Lambda):
                f = I.e_Lambda(inner, cenv)
            else:
                I.s_FunctionDef(inner, cenv)
                f = cenv.vars[inner.name]
            f.qual = c.qual
        else:
            f = tgt
            if c.slice_vars:
                f = slice_function(I, f, c.slice_vars, list(c.params))
        if c.setup is not None:
            vals = c.setup(I)
        else:
            vals = _fresh_params(I, c.params)
        if mode == 'nested':
            vals.update({k: v for k, v in cenv.vars.items() if k in c.closure})
        if c.requires is not None:
            I.ex.assume(truthy(call_spec(I, c.requires, vals)))
        callvals = {k: v for k, v in vals.items() if k in c.params}
        pre_vals = vals
        if c.updates or c.ensures is not None:
            slf = vals.get('self')
            if isinstance(slf, VObj):
                pre = VObj(slf.pycls, dict(slf.fields), slf.tag)
                pre_vals = dict(vals, self=pre, old=pre)
        try:
            try:
                res = I.call_def(f, [], callvals, force_body=True)
                outcome = ('return', res, None)
            except PyRaise as pr:
                outcome = ('raise', pr.exc, None)
        except ReturnSig:
            raise Unsupported('stray return')
        if outcome[0] == 'return':
            res = outcome[1]
            if c.returns is not None:
                try:
                    exp = call_spec(I, c.returns, vals)
                except PyRaise as pr:
                    # the spec raises here but the code returned normally
                    I.ex.prove(f'{prop}:{short}:post', z3.BoolVal(False), kind='post', exact=c.exact,
                               meta={'spec_raises': pr.exc.pycls.__name__})
                    return outcome
                I.ex.prove(f'{prop}:{short}:post', veq(res, exp), kind='post', exact=c.exact)
            if c.ensures is not None:
                ok = call_spec(I, c.ensures, dict(vals, result=res, old=pre_vals.get('old')))
                I.ex.prove(f'{prop}:{short}:ensures', truthy(ok), kind='post', exact=c.exact)
            for fld, fn in c.updates.items():
                expv = call_spec(I, fn, pre_vals)      # spec over the PRE-state, evaluated on return paths only
                I.ex.prove(f'{prop}:{short}:updates[{fld}]', veq(vals['self'].fields[fld], expv), kind='post', exact=c.exact)
            if c.c03:
                from .vecmodel import is_vector
                from contracts import specs as _specs
                if is_vector(res):
                    tv = I.call(I.lift(_specs.truthful), [res], {})
                    I.ex.prove(f'C03:{short}:site:truthful', truthy(tv), kind='post', exact=c.exact)
            for exc, cond, *rest in c.raises:
                iff = rest[0] if rest else True
                if iff:
                    cv = call_spec(I, cond, vals)
                    I.ex.prove(f'{prop}:{short}:raises[{exc.__name__}]:only-if',
                               z3.Not(truthy(cv)), kind='raises', exact=c.exact)
        else:
            exc = outcome[1]
            matched = False
            for ecls, cond, *rest in c.raises:
                if issubclass(exc.pycls, ecls):
                    cv = call_spec(I, cond, vals)
                    I.ex.prove(f'{prop}:{short}:raises[{ecls.__name__}]:if', truthy(cv),
                               kind='raises', exact=c.exact)
                    matched = True
                    break
            if not matched and not any(issubclass(exc.pycls, m) for m in c.may_raise):
                I.ex.prove(f'{prop}:{short}:unexpected-exception[{exc.pycls.__name__}]',
                           z3.BoolVal(False), kind='unexpected-exception', exact=c.exact)
        return outcome
    def thunk():
        # a construct outside the modelled subset ends THIS path with an undecided marker; the
        # other paths of the function are still explored and their obligations still decided
        try:
            return thunk_inner()
        except Unsupported as e:
            from .explore import PathEnd
            ob = I.ex.prove(f'{prop}:{short}:path-unsupported', z3.BoolVal(False), kind='unsupported', exact=False,
                            meta={'unsupported': str(e)})
            ob.preset = ('undecided', f'unsupported on this path: {e}')
            raise PathEnd()
    return I.ex.explore(thunk)


def load_sidecars(modules):
    import importlib
    for m in modules:
        importlib.import_module(m)


def slice_function(I, f, slice_vars, params):
    """Mechanical statement slice of a large function (DESIGN 2.1 addendum).

    Kept: top-level `if <test over params only>: raise ...` statements and top-level
    assignments `v = <expr over params / earlier slice vars>` for v in slice_vars; then
    `return (v1, ..., vn)`.  Everything else is dropped; the slice is refused (Unsupported)
    if a kept assignment is not top-level/unconditional or reads anything else."""
    import copy
    node = f.node
    allowed = set(params)
    body = []
    seen = []
    for st in node.body:
        if isinstance(st, ast.If) and len(st.body) == 1 and isinstance(st.body[0], ast.Raise) and not st.orelse:
            names = {n.id for n in ast.walk(st.test) if isinstance(n, ast.Name)}
            if names <= allowed:
                body.append(st)
            continue
        if isinstance(st, ast.Assign) and len(st.targets) == 1 and isinstance(st.targets[0], ast.Name) \
                and st.targets[0].id in slice_vars:
            names = {n.id for n in ast.walk(st.value) if isinstance(n, ast.Name)}
            if not names <= allowed | set(seen):
                raise Unsupported(f'slice variable {st.targets[0].id} reads {sorted(names - allowed)}')
            body.append(st)
            seen.append(st.targets[0].id)
    # any other assignment to a slice variable (nested, conditional, augmented) defeats the slice
    count = 0
    for n in ast.walk(node):
        if isinstance(n, ast.Name) and isinstance(n.ctx, ast.Store) and n.id in slice_vars:
            count += 1
    if count != len(seen) or sorted(seen) != sorted(slice_vars):
        raise Unsupported(f'slice variables {slice_vars} are not assigned exactly once at top level')
    ret = ast.Return(value=ast.Tuple(elts=[ast.Name(id=v, ctx=ast.Load()) for v in slice_vars], ctx=ast.Load()))
    new = copy.copy(node)
    new.body = body + [ret]
    new.args = ast.arguments(posonlyargs=[], args=[ast.arg(arg=p) for p in params], vararg=None,
                             kwonlyargs=[], kw_defaults=[], kwarg=None, defaults=[])
    ast.fix_missing_locations(new)
    g = VFunc('def', node=new, globs=f.globs, pyfunc=None, defaults=[], kw_defaults=[], closure_env=None, name=f.name, qual=f.qual)
    return g

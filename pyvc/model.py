"""z3 value model for pyvc (see DESIGN.md section 2.2).

Kinds (class objects) and scalar values are z3 datatypes; everything about floats,
complex numbers, dates and arbitrary objects is uninterpreted.  `int` is mathematical.
"""
import z3

BUILTIN_KINDS = ['NoneType', 'bool', 'int', 'float', 'complex', 'str', 'bytes', 'date',
                 'datetime', 'list', 'dict', 'tuple', 'object', 'timedelta', 'set', 'bytearray']

_K = z3.Datatype('Kind')
for _n in BUILTIN_KINDS:
    _K.declare('K_' + _n)
_K.declare('K_other', ('cls', z3.IntSort()))
Kind = _K.create()


def K(name):
    return getattr(Kind, 'K_' + name)


Fl = z3.DeclareSort('Fl')      # float payload, uninterpreted (A-real / no IEEE reasoning)
Cx = z3.DeclareSort('Cx')      # complex payload

_P = z3.Datatype('PyVal')
_P.declare('PNone')
_P.declare('PB', ('b', z3.BoolSort()))
_P.declare('PI', ('i', z3.IntSort()))
_P.declare('PF', ('f', Fl))
_P.declare('PC', ('c', Cx))
_P.declare('PS', ('s', z3.StringSort()))
_P.declare('PBy', ('by', z3.IntSort()))
_P.declare('PD', ('d', z3.IntSort()))
_P.declare('PDT', ('dt', z3.IntSort()))
_P.declare('PL', ('l', z3.IntSort()))
_P.declare('PDi', ('di', z3.IntSort()))
_P.declare('PT', ('t', z3.IntSort()))
_P.declare('PTd', ('td', z3.IntSort()))
_P.declare('PInst', ('icls', z3.IntSort()), ('iid', z3.IntSort()))
PyVal = _P.create()

# domain switch: in the base domain every "other" class derives directly from object
# (no subclasses of the builtin ladders); the extended domain lets obase range.
obase = z3.Function('obase', z3.IntSort(), Kind)


def type_of(v):
    """Kind term for type(v), v a PyVal term."""
    P = PyVal
    return z3.If(P.is_PNone(v), K('NoneType'),
           z3.If(P.is_PB(v), K('bool'),
           z3.If(P.is_PI(v), K('int'),
           z3.If(P.is_PF(v), K('float'),
           z3.If(P.is_PC(v), K('complex'),
           z3.If(P.is_PS(v), K('str'),
           z3.If(P.is_PBy(v), K('bytes'),
           z3.If(P.is_PD(v), K('date'),
           z3.If(P.is_PDT(v), K('datetime'),
           z3.If(P.is_PL(v), K('list'),
           z3.If(P.is_PDi(v), K('dict'),
           z3.If(P.is_PT(v), K('tuple'),
           z3.If(P.is_PTd(v), K('timedelta'),
                 Kind.K_other(P.icls(v)))))))))))))))


def _builtin_sub(k, sup):
    """issubclass for builtin kinds k, sup (terms), ignoring 'other' on the left."""
    return z3.Or(k == sup, sup == K('object'),
                 z3.And(k == K('bool'), sup == K('int')),
                 z3.And(k == K('datetime'), sup == K('date')))


def is_subclass(k, sup, extended=False):
    """Kind term k is a subclass of kind term sup."""
    base = _builtin_sub(k, sup)
    if not extended:
        return base
    ob = obase(Kind.cls(k))
    return z3.Or(base, z3.And(Kind.is_K_other(k), _builtin_sub(ob, sup)))


def extended_domain_axioms(cls_terms):
    """obase(c) is a builtin, subclassable kind."""
    out = []
    for c in cls_terms:
        ob = obase(c)
        out.append(z3.Not(Kind.is_K_other(ob)))
        out.append(ob != K('bool'))
        out.append(ob != K('NoneType'))
    return out


# uninterpreted operators on scalars --------------------------------------------------
OPCODES = ['add', 'sub', 'mul', 'truediv', 'floordiv', 'mod', 'pow', 'lshift', 'rshift',
           'and_', 'or_', 'xor', 'matmul',
           'eq', 'ne', 'lt', 'le', 'gt', 'ge',
           'neg', 'pos', 'abs', 'invert', 'not_']
OP = {n: i for i, n in enumerate(OPCODES)}

binop = z3.Function('binop', z3.IntSort(), PyVal, PyVal, PyVal)     # op code, x, y
unop = z3.Function('unop', z3.IntSort(), PyVal, PyVal)
truth = z3.Function('truth', PyVal, z3.BoolSort())                  # bool(x) for opaque x
conv = z3.Function('conv', z3.IntSort(), PyVal, PyVal)              # float()/int()/complex()/...
call_m = z3.Function('call_m', PyVal, z3.IntSort(), z3.IntSort(), PyVal)   # elem, method id, args id
getattr_m = z3.Function('getattr_m', PyVal, z3.IntSort(), PyVal)
apply1 = z3.Function('apply1', z3.IntSort(), PyVal, PyVal)          # symbolic callable
apply2 = z3.Function('apply2', z3.IntSort(), PyVal, PyVal, PyVal)
hash_f = z3.Function('hash_f', PyVal, z3.IntSort())
kind_name = z3.Function('kind_name', Kind, z3.StringSort())
str_of = z3.Function('str_of', PyVal, z3.StringSort())
repr_of = z3.Function('repr_of', PyVal, z3.StringSort())

CONV = {'float': 0, 'int': 1, 'complex': 2, 'combine_midnight': 3, 'bool': 4, 'str': 5}


def int_like(v):
    return z3.Or(PyVal.is_PI(v), PyVal.is_PB(v))


def int_of(v):
    return z3.If(PyVal.is_PB(v), z3.If(PyVal.b(v), z3.IntVal(1), z3.IntVal(0)), PyVal.i(v))


def py_truth(v):
    """bool(v) for a PyVal term, exact on None/bool/int/str, uninterpreted elsewhere."""
    P = PyVal
    return z3.If(P.is_PNone(v), z3.BoolVal(False),
           z3.If(P.is_PB(v), P.b(v),
           z3.If(P.is_PI(v), P.i(v) != 0,
           z3.If(P.is_PS(v), z3.Length(P.s(v)) > 0, truth(v)))))


def floordiv(a, b):
    """Python // on ints (b != 0 is a separate safety obligation)."""
    return z3.If(b > 0, a / b, (-a) / (-b))   # z3 '/' on Int is Euclidean div


def pymod(a, b):
    return a - b * floordiv(a, b)

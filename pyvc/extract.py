"""Extraction: the verified text is the code that runs.

Every run re-reads /repo/src/serif/*.py, parses it with `ast`, and hands the real
FunctionDef nodes to the interpreter.  Nothing is copied by hand.  What extraction
drops is listed in DROPS (and in DESIGN.md 2.1).
"""
import ast
import hashlib
import importlib
import inspect
import os
import sys

REPO_SRC = os.environ.get('SERIF_SRC', '/repo/src')

DROPS = [
    'docstrings and bare string-expression statements',
    'type annotations',
    'warnings.warn(...) expression statements (treated as no-ops)',
    'the message argument of raise X(msg) (the exception class is kept)',
    'stacklevel= / "from exc" decorations',
]


class SourceIndex:
    def __init__(self):
        self.files = {}       # path -> (source, tree, {lineno: node})
        self.used = {}        # qualname -> (file, first, last, sha256)

    def load_file(self, path):
        if path in self.files:
            return self.files[path]
        with open(path, 'r', encoding='utf-8') as fh:
            src = fh.read()
        tree = ast.parse(src, filename=path)
        by_line = {}
        for node in ast.walk(tree):
            if isinstance(node, (ast.FunctionDef, ast.AsyncFunctionDef, ast.Lambda, ast.ClassDef)):
                by_line.setdefault(node.lineno, []).append(node)
                for d in getattr(node, 'decorator_list', []):
                    by_line.setdefault(d.lineno, []).append(node)
        self.files[path] = (src, tree, by_line)
        return self.files[path]

    def funcdef_of(self, pyfunc):
        """FunctionDef node of a real function object, read from its source file."""
        code = pyfunc.__code__
        path = code.co_filename
        src, tree, by_line = self.load_file(path)
        cands = [n for n in by_line.get(code.co_firstlineno, [])
                 if isinstance(n, (ast.FunctionDef, ast.Lambda))]
        name = pyfunc.__name__
        for n in cands:
            if isinstance(n, ast.FunctionDef) and n.name == name:
                self._record(pyfunc, path, src, n)
                return n
        for n in cands:
            if isinstance(n, ast.Lambda) and name == '<lambda>':
                return n
        raise LookupError(f'no def for {pyfunc.__qualname__} at {path}:{code.co_firstlineno}')

    def _record(self, pyfunc, path, src, node):
        q = f'{pyfunc.__module__}.{pyfunc.__qualname__}'
        seg = ast.get_source_segment(src, node) or ''
        self.used[q] = {
            'file': path, 'lines': [node.lineno, node.end_lineno],
            'sha256': hashlib.sha256(seg.encode()).hexdigest(),
        }

    def find_nested(self, outer_node, name, ordinal=0):
        """Nested FunctionDef `name` (ordinal-th occurrence) inside outer_node."""
        if name == '<lambda>':
            found = [n for n in ast.walk(outer_node) if isinstance(n, ast.Lambda)]
            found.sort(key=lambda n: (n.lineno, n.col_offset))
            return found[ordinal]
        found = [n for n in ast.walk(outer_node)
                 if isinstance(n, ast.FunctionDef) and n.name == name and n is not outer_node]
        found.sort(key=lambda n: n.lineno)
        return found[ordinal]

    def record_nested(self, qual, path, node):
        src = self.files[path][0]
        seg = ast.get_source_segment(src, node) or ''
        self.used[qual] = {'file': path, 'lines': [node.lineno, node.end_lineno],
                           'sha256': hashlib.sha256(seg.encode()).hexdigest()}


def import_serif():
    """Import the working-tree serif package (fresh)."""
    if REPO_SRC not in sys.path:
        sys.path.insert(0, REPO_SRC)
    for m in [m for m in sys.modules if m == 'serif' or m.startswith('serif.')]:
        del sys.modules[m]
    return importlib.import_module('serif')


def resolve(qualname):
    """'serif.typing.DataType.promote_with' -> python object (function / property fget)."""
    parts = qualname.split('.')
    for cut in range(len(parts), 0, -1):
        modname = '.'.join(parts[:cut])
        try:
            obj = importlib.import_module(modname)
        except ImportError:
            continue
        for p in parts[cut:]:
            if isinstance(obj, type):
                raw = None
                for k in obj.__mro__:
                    if p in k.__dict__:
                        raw = k.__dict__[p]
                        break
                if raw is None:
                    raise AttributeError(qualname)
                obj = raw
            else:
                obj = getattr(obj, p)
        if isinstance(obj, property):
            obj = obj.fget
        if isinstance(obj, (staticmethod, classmethod)):
            obj = obj.__func__
        return obj
    raise ImportError(qualname)

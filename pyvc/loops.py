"""Loops: concrete unrolling, sidecar invariants (unbounded), and the map-loop rule."""
import ast
import inspect
import z3

from .values import *  # noqa
from .values import fresh_int, fresh_name
from .explore import PathEnd
from . import builtins as B


class LoopSpec:
    """Sidecar loop contract: `invariant(k, <locals...>)` holds after k iterations.

    havoc: {local name: sort} for every variable the body assigns (checked against the AST).
    """

    def __init__(self, invariant, havoc, name=None, ghost=None, ghost_init=None, ghost_step=None):
        self.invariant = invariant
        self.havoc = havoc
        self.name = name or invariant.__name__
        self.ghost = ghost or {}            # {ghost variable: sort}
        self.ghost_init = ghost_init        # (locals...) -> dict of initial ghost values
        self.ghost_step = ghost_step        # (k, locals..., ghosts...) -> dict of updated ghost values (after the body)


def loop_ordinal(func_node, node):
    loops = [n for n in ast.walk(func_node) if isinstance(n, (ast.For, ast.While))]
    loops.sort(key=lambda n: (n.lineno, n.col_offset))
    # nested function bodies are walked too; ordinal is position in source order
    return loops.index(node)


def assigned_names(stmts):
    """Names (re)bound by the statements, not counting comprehension / lambda scopes."""
    out = set()

    def visit(n):
        if isinstance(n, (ast.GeneratorExp, ast.ListComp, ast.SetComp, ast.DictComp, ast.Lambda)):
            return
        if isinstance(n, ast.Name) and isinstance(n.ctx, (ast.Store, ast.Del)):
            out.add(n.id)
        for c in ast.iter_child_nodes(n):
            visit(c)
    for s in stmts:
        visit(s)
    return out


def run_body(I, body, env):
    """Execute loop body; returns 'normal' | 'break'.  Return/raise propagate."""
    from .interp import BreakSig, ContinueSig
    try:
        I.exec_block(body, env)
    except ContinueSig:
        return 'normal'
    except BreakSig:
        return 'break'
    return 'normal'


def exec_for(I, node, env):
    src = B.to_seq(I, I.eval(node.iter, env))
    if isinstance(src, (VTuple, VList)):
        broke = False
        for item in list(src.items):
            I.assign(node.target, item, env)
            if run_body(I, node.body, env) == 'break':
                broke = True
                break
        if not broke:
            I.exec_block(node.orelse, env)
        return
    fn = getattr(env, 'func_node', None)
    spec = None
    if fn is not None:
        def _hdr(n):
            t = ast.unparse(n.target)
            if isinstance(n.target, ast.Tuple) and t.startswith('(') and t.endswith(')'):
                t = t[1:-1]         # `for key, rows in xs` as written
            return f'for {t} in {ast.unparse(n.iter)}'
        header = _hdr(node)
        same = [n for n in ast.walk(fn) if isinstance(n, ast.For) and _hdr(n) == header]
        same.sort(key=lambda n: (n.lineno, n.col_offset))
        occ = same.index(node) + 1          # 'header#2': the second loop with this header text
        spec = I.loop_specs.get((env.qual, f'{header}#{occ}')) or I.loop_specs.get((env.qual, header)) or \
            I.loop_specs.get((env.qual, loop_ordinal(fn, node)))
    if spec is not None:
        return invariant_loop(I, node, env, src, spec)
    return map_loop(I, node, env, src)


def exec_while(I, node, env):
    from .interp import BreakSig, ContinueSig
    fn = getattr(env, 'func_node', None)
    spec = I.loop_specs.get((env.qual, loop_ordinal(fn, node))) if fn is not None else None
    if spec is not None:
        raise Unsupported('while with invariant: not implemented')
    for _ in range(64):
        c = truthy(I.eval(node.test, env))
        cc = is_concrete_bool(c)
        if cc is None:
            raise Unsupported(f'while with symbolic guard at line {node.lineno}')
        if not cc:
            I.exec_block(node.orelse, env)
            return
        if run_body(I, node.body, env) == 'break':
            return
    raise Unsupported('while unrolling bound')


def fresh_of_sort(I, sort, name):
    """Fresh symbolic value of a declared sort (may fork the path for optionals)."""
    from .model import PyVal, Kind
    n = fresh_name(name)
    if sort == 'int':
        return VInt(z3.Int(n))
    if sort == 'nat':
        v = z3.Int(n)
        I.ex.assume(v >= 0)
        return VInt(v)
    if sort == 'bool':
        return VBool(z3.Bool(n))
    if sort == 'str':
        return VStr(z3.String(n))
    if sort == 'any':
        return VAny(z3.Const(n, PyVal))
    if sort == 'scalar':      # any value except list / dict / tuple
        t = z3.Const(n, PyVal)
        I.ex.assume(z3.Not(z3.Or(PyVal.is_PL(t), PyVal.is_PDi(t), PyVal.is_PT(t))))
        return VAny(t)
    if sort == 'kind':
        return VKind(z3.Const(n, Kind))
    if sort == 'dtype':
        return VDType(z3.Const(n + '.kind', Kind), z3.Bool(n + '.nullable'))
    if sort.startswith('opt_'):
        if I.ex.choose(z3.Bool(n + '.isnone')):
            return NONE
        return fresh_of_sort(I, sort[4:], name)
    if sort.startswith('seq_'):
        inner = sort[4:]
        ln = z3.Int(n + '.len')
        I.ex.assume(ln >= 0)
        if inner == 'any':
            arr = z3.Function(n + '.at', z3.IntSort(), PyVal)
            return VSeq(ln, lambda i: VAny(arr(i)), None, 'tuple')
        if inner == 'int':
            arr = z3.Function(n + '.at', z3.IntSort(), z3.IntSort())
            return VSeq(ln, lambda i: VInt(arr(i)), None, 'tuple')
        if inner == 'bool':
            arr = z3.Function(n + '.at', z3.IntSort(), z3.BoolSort())
            return VSeq(ln, lambda i: VBool(arr(i)), None, 'tuple')
    if sort.startswith('list_'):
        s = fresh_of_sort(I, 'seq_' + sort[5:], name)
        return s.with_kind('list')
    if sort.startswith('tuple'):     # 'tuple:bool,kind,bool'
        parts = sort.split(':', 1)[1].split(',')
        return VTuple([fresh_of_sort(I, p, f'{name}{j}') for j, p in enumerate(parts)])
    if sort == 'slice':
        # each component is None or an int, held symbolically (no path split)
        comps = []
        for part in ('start', 'stop', 'step'):
            t = z3.Const(fresh_name(f'{name}.{part}'), PyVal)
            I.ex.assume(z3.Or(PyVal.is_PNone(t), PyVal.is_PI(t)))
            comps.append(VAny(t))
        return VSlice(*comps)
    if sort == 'func1' or sort == 'func2':
        return VFunc('sym', ident=z3.Int(n), name=name)
    if sort == 'opaque':
        return VOpaque(name, ident=fresh_name(name))
    hook = I.registry.get('sort:' + sort)
    if hook is not None:
        return hook(I, name)
    raise Unsupported(f'fresh value of sort {sort}')


def call_inv(I, spec, k, env):
    f = I.lift(spec.invariant)
    sig = inspect.signature(spec.invariant).parameters
    params = list(sig)
    kwargs = {}
    for p in params:
        if p == 'k':
            kwargs[p] = VInt(k)
        else:
            try:
                kwargs[p] = env.lookup(p)
            except KeyError:
                if sig[p].default is not inspect.Parameter.empty:
                    kwargs[p] = I.lift(sig[p].default)      # optional local (defined on some paths only)
                    continue
                raise Unsupported(f'invariant {spec.name} mentions unknown local {p!r} '
                                  f'(renamed local? the loop proof is lost, not the property)')
    return truthy(I.call(f, [], kwargs))


def _call_named(I, fn, k, env):
    f = I.lift(fn)
    kwargs = {}
    for p in inspect.signature(fn).parameters:
        if p == 'k':
            kwargs[p] = VInt(k)
        else:
            try:
                kwargs[p] = env.lookup(p)
            except KeyError:
                raise Unsupported(f'ghost function {fn.__name__} mentions unknown local {p!r}')
    return I.call(f, [], kwargs)


def invariant_loop(I, node, env, src, spec):
    """Unbounded loop by induction: initiation, consecution for one arbitrary iteration,
    and use of the invariant at exit."""
    from .interp import ReturnSig, PyRaise
    if src.pred is not None:
        raise Unsupported('invariant loop over filtered sequence')
    body_assigned = assigned_names(node.body) | assigned_names([node.target])
    targets = assigned_names([node.target])
    missing = [n for n in body_assigned - targets if n not in spec.havoc and _is_live(n, env)]
    if missing:
        raise Unsupported(f'loop assigns {missing} not covered by the sidecar havoc set')
    n = src.length
    qual = env.qual.split('.', 1)[-1]
    from . import symcoll
    if spec.ghost_init is not None:
        g0 = _call_named(I, spec.ghost_init, None, env)
        for gname in spec.ghost:
            env.vars[gname] = g0.d[gname]
    assumed = spec.name in getattr(I, 'assume_loops', ())
    if assumed:
        # phase proof: initiation and consecution of this loop are obligations of another contract
        # variant of the same function (same check); here only the exit fact is used
        I.assumption(f'loop invariant {spec.name} is used at the loop exit; its initiation and consecution are discharged by another variant of {env.qual}')
        step = False
    else:
        # initiation
        I.ex.prove(f'{qual}:loop[{spec.name}]:init', call_inv(I, spec, z3.IntVal(0), env), kind='loop-init')
        step = I.ex.choose(z3.Bool(fresh_name('loop.step')))
    for name, sort in spec.havoc.items():
        if not _is_live(name, env):
            continue        # a local that exists on some paths only (e.g. `if flag: duplicates = {}`)
        if sort in ('symdict', 'symset', 'symlist', 'list_of_symlist', 'symkeylist', 'symmap'):
            symcoll.havoc(env.lookup(name), name)       # in place: bound-method aliases keep pointing at it
        else:
            env.vars[name] = fresh_of_sort(I, sort, name)
    for gname, gsort in spec.ghost.items():
        env.vars[gname] = symcoll.fresh_ghost(gsort, gname)
    if step:
        k = fresh_int('it')
        I.ex.assume(z3.And(k >= 0, k < n))
        I.ex.assume(call_inv(I, spec, k, env))
        I.assign(node.target, src.elem(k), env)
        r = run_body(I, node.body, env)
        if r == 'break':
            return   # continue after the loop with the state at the break
        if spec.ghost_step is not None:
            g1 = _call_named(I, spec.ghost_step, k, env)
            for gname in spec.ghost:
                if gname in g1.d:
                    env.vars[gname] = g1.d[gname]
        I.ex.prove(f'{qual}:loop[{spec.name}]:step', call_inv(I, spec, k + 1, env), kind='loop-step')
        raise PathEnd()
    I.ex.assume(call_inv(I, spec, n, env))
    I.exec_block(node.orelse, env)
    if spec.name in getattr(I, 'stop_after_loops', ()):
        # phase proof: the obligations of this loop are what is being verified; the rest of the
        # function is covered by other contract variants
        raise PathEnd()


def _is_live(name, env):
    try:
        env.lookup(name)
        return True
    except KeyError:
        return False


class Recorder(VObj):
    def __init__(self, name):
        super().__init__(object, tag='recorder')
        self.name = name
        self.appended = []


def sym_method(I, obj, m, args, kwargs):
    if obj.tag == 'recorder' and m == 'append':
        obj.appended.append(args[0])
        return NONE
    raise Unsupported(f'method {m} on {obj.tag}')


def scatter_loop(I, node, env, src):
    """`for idx, val in updates: lst[idx] = val` (plus dead temporaries): the list keeps its
    length, its contents after the loop are abstracted (an unknown function of the position).
    Value-level facts about the result are NOT proved through this rule."""
    stores = [n for n in ast.walk(ast.Module(body=node.body, type_ignores=[]))
              if isinstance(n, ast.Assign) and any(isinstance(t, ast.Subscript) for t in n.targets)]
    if len(stores) != 1 or not isinstance(stores[0].targets[0].value, ast.Name):
        return False
    lst = stores[0].targets[0].value.id
    for st in node.body:
        if st is stores[0]:
            continue
        if not (isinstance(st, ast.Assign) and len(st.targets) == 1 and isinstance(st.targets[0], ast.Name)):
            return False
        # temporaries must be dead afterwards: not already live
        if _is_live(st.targets[0].id, env):
            return False
    cur = env.lookup(lst)
    if not isinstance(cur, (VSeq, VList)):
        return False
    vs = B.as_vseq(I, cur)
    from .model import PyVal
    f = z3.Function(fresh_name('scattered'), z3.IntSort(), PyVal)
    e = env
    while e is not None and lst not in e.vars:
        e = e.parent
    (e or env).vars[lst] = VSeq(vs.src_len, lambda i: VAny(f(i)), None, 'list')
    if _scatter_exact(I, node, env, src, stores[0], vs, f):
        return True
    I.assumption('scatter-loop abstraction: list contents after `for i, v in updates: lst[i] = v` are not tracked (length is)')
    return True


def _scatter_exact(I, node, env, src, store, vs, f):
    """Exact meaning of `for idx, val in updates: lst[idx] = val` (last write wins):
       (1) a position no update addresses keeps its old element;
       (2) the position of an update that no later update addresses again holds that update's value;
    plus the safety obligation that every index is in range (a list store out of range raises)."""
    from .values import to_pyval
    tgt = node.target
    st_t = store.targets[0]
    if not (isinstance(src, VSeq) and src.pred is None and isinstance(tgt, ast.Tuple) and len(tgt.elts) == 2
            and all(isinstance(x, ast.Name) for x in tgt.elts)
            and isinstance(st_t.slice, ast.Name) and st_t.slice.id == tgt.elts[0].id
            and isinstance(store.value, ast.Name) and store.value.id == tgt.elts[1].id):
        return False
    n, m = vs.src_len, src.src_len
    probe = src.elem(fresh_int('sp'))
    if not (isinstance(probe, VTuple) and len(probe.items) == 2 and isinstance(probe.items[0], (VInt, VAny))):
        return False

    def raw(t):
        it = src.elem(t).items[0]
        if isinstance(it, VInt):
            return it.t
        from .model import PyVal as _P
        return _P.i(it.t)

    def J(t):
        r = raw(t)
        return z3.If(r < 0, r + n, r)

    def V(t):
        return to_pyval(src.elem(t).items[1])
    from . import symcoll
    qual = env.qual.split('.', 1)[-1]
    tq = z3.Int(fresh_name('st'))
    I.ex.prove(f'{qual}:scatter-index-in-range',
               z3.ForAll([tq], z3.Implies(z3.And(tq >= 0, tq < m), z3.And(raw(tq) >= -n, raw(tq) < n))), kind='safety')
    j, t, u = z3.Int(fresh_name('sj')), z3.Int(fresh_name('st')), z3.Int(fresh_name('su'))
    untouched = z3.ForAll([t], z3.Implies(z3.And(t >= 0, t < m), J(t) != j))
    a1 = z3.ForAll([j], z3.Implies(z3.And(j >= 0, j < n, untouched), f(j) == to_pyval(vs.elem(j))), patterns=[f(j)])
    last = z3.ForAll([u], z3.Implies(z3.And(u > t, u < m), J(u) != J(t)))
    body2 = z3.Implies(z3.And(t >= 0, t < m, last), f(J(t)) == V(t))
    pats = symcoll.choose_patterns([t], body2)
    a2 = z3.ForAll([t], body2, patterns=pats) if pats else z3.ForAll([t], body2)
    I.ex.ctx.add(a1)
    I.ex.ctx.add(a2)
    return True


def map_loop(I, node, env, src):
    """`for x in xs: ... out.append(E) ...` with no loop-carried state  ==  out += [E | x in xs if P]."""
    from .interp import PyRaise, ReturnSig, BreakSig, ContinueSig, Env
    if scatter_loop(I, node, env, src):
        return
    appended = set()
    for n in ast.walk(ast.Module(body=node.body, type_ignores=[])):
        if isinstance(n, ast.Call) and isinstance(n.func, ast.Attribute) and n.func.attr == 'append' \
                and isinstance(n.func.value, ast.Name):
            appended.add(n.func.value.id)
    # calls of local one-line lambdas `f = lambda a, b: lst.append(...)` count as appends to lst
    lam_targets = {}
    for n in ast.walk(ast.Module(body=node.body, type_ignores=[])):
        if isinstance(n, ast.Call) and isinstance(n.func, ast.Name):
            try:
                fv = env.lookup(n.func.id)
            except KeyError:
                continue
            if isinstance(fv, VFunc) and fv.kind == 'def' and isinstance(fv.node, ast.Lambda):
                b = fv.node.body
                if isinstance(b, ast.Call) and isinstance(b.func, ast.Attribute) and b.func.attr == 'append' \
                        and isinstance(b.func.value, ast.Name):
                    appended.add(b.func.value.id)
                    lam_targets[b.func.value.id] = fv
    if not appended:
        raise Unsupported(f'loop at line {node.lineno}: symbolic length, no invariant, not a map-loop')
    targets = assigned_names([node.target])
    carried = [n for n in assigned_names(node.body) - targets if _is_live(n, env)]
    if carried:
        raise Unsupported(f'loop at line {node.lineno}: loop-carried locals {carried} need an invariant')
    if node.orelse:
        raise Unsupported('for-else on a map-loop')
    prefixes = {}
    for name in appended:
        cur = env.lookup(name)
        if not isinstance(cur, VList) and not (isinstance(cur, VSeq) and cur.kind == 'list'):
            raise Unsupported(f'map-loop appends to non-list {name}')
        prefixes[name] = cur
    snap = env.snapshot()
    cache = {}

    def run(i):
        key = i.get_id()
        if key in cache:
            return cache[key][1]
        base_len = len(I.ex.ctx.pc)

        def thunk():
            e2 = Env(snap.globs, snap, snap.qual)
            e2.func_node = getattr(env, 'func_node', None)
            recs = {name: Recorder(name) for name in appended}
            e2.vars.update(recs)
            # lambdas defined in the enclosing activation see that activation's variables
            saved = {}
            for name in lam_targets:
                ee = env
                while ee is not None and name not in ee.vars:
                    ee = ee.parent
                if ee is not None:
                    saved[name] = (ee, ee.vars[name])
                    ee.vars[name] = recs[name]
            I.assign(node.target, src.elem(i), e2)
            try:
                try:
                    try:
                        I.exec_block(node.body, e2)
                    except ContinueSig:
                        pass
                except BreakSig:
                    raise Unsupported('break inside a map-loop')
                except ReturnSig:
                    raise Unsupported('return inside a map-loop')
                except PyRaise as pr:
                    return ('raise', pr.exc, None)
            finally:
                for name, (ee, old) in saved.items():
                    ee.vars[name] = old
            return ('return', VTuple([VTuple(list(recs[nm].appended)) for nm in sorted(appended)]), None)
        res = I.ex.explore_nested(thunk)
        out = {}
        raises = []
        for r in res:
            cond = z3.And(*r.pc[base_len:]) if len(r.pc) > base_len else z3.BoolVal(True)
            if r.kind == 'raise':
                raises.append((cond, r.value))
                continue
            if r.kind != 'return':
                continue
            for nm, tup in zip(sorted(appended), r.value.items):
                if len(tup.items) > 1:
                    raise Unsupported('map-loop appends more than once per iteration')
                out.setdefault(nm, []).append((cond, tup.items[0] if tup.items else None))
        cache[key] = (i, (out, raises))
        return out, raises

    # exceptional exits: the loop raises iff some iteration does (witness index)
    probe = fresh_int('mp')
    _, raises0 = run(probe)
    if raises0:
        classes = {e.pycls for _, e in raises0}
        if len(classes) != 1:
            raise Unsupported('map-loop raising different exception classes')
        if I.ex.choose(z3.Bool(fresh_name('loop.raises'))):
            j = fresh_int('wit')
            I.ex.assume(z3.And(j >= 0, j < src.src_len))
            if src.pred is not None:
                I.ex.assume(src.pred(j))
            _, rj = run(j)
            I.ex.assume(z3.Or([c for c, _ in rj]))
            raise PyRaise(VExc(next(iter(classes))))

    def no_raise(i):
        _, rs = run(i)
        return z3.Not(z3.Or([c for c, _ in rs])) if rs else z3.BoolVal(True)

    if raises0:
        # the loop completed: no iteration raised (quantified fact, usable by later obligations)
        jq = z3.Int(fresh_name('nr'))
        rngq = z3.And(jq >= 0, jq < src.src_len)
        if src.pred is not None:
            rngq = z3.And(rngq, src.pred(jq))
        I.ex.ctx.add(z3.ForAll([jq], z3.Implies(rngq, no_raise(jq))))

    for name in appended:
        def pred(i, name=name):
            out, _ = run(i)
            conds = [c for c, v in out.get(name, []) if v is not None]
            p = z3.Or(conds) if conds else z3.BoolVal(False)
            if src.pred is not None:
                p = z3.And(src.pred(i), p)
            return p

        def elem(i, name=name):
            out, _ = run(i)
            rets = [(c, v) for c, v in out.get(name, []) if v is not None]
            if not rets:
                return NONE
            if raises0:
                # instantiating the "no iteration raised" fact at i
                I.ex.ctx.add(z3.Implies(z3.And(i >= 0, i < src.src_len), no_raise(i)))
            return B.merge_vals(rets)
        # is the append unconditional?
        out0, _ = run(probe)
        always = all(v is not None for _, v in out0.get(name, [])) and src.pred is None
        new = VSeq(src.src_len, elem, None if always else pred, 'list')
        pre = prefixes[name]
        if isinstance(pre, VList) and not pre.items:
            env.vars[name] = new
        else:
            env.vars[name] = B.seq_concat(I, pre, new) if always else _unsup_concat()


def _unsup_concat():
    raise Unsupported('map-loop appending conditionally to a non-empty list')


# ------------------------------------------------------------------ ghost folds
PROBE = z3.Int('probe!fold')


def _leaf_funcs(name, v):
    from .model import PyVal, Kind
    if isinstance(v, VTuple):
        return [_leaf_funcs(f'{name}.{j}', x) for j, x in enumerate(v.items)]
    if isinstance(v, VBool):
        return ('bool', z3.Function(name, z3.IntSort(), z3.BoolSort()))
    if isinstance(v, VInt):
        return ('int', z3.Function(name, z3.IntSort(), z3.IntSort()))
    if isinstance(v, VKind):
        return ('kind', z3.Function(name, z3.IntSort(), Kind))
    if isinstance(v, (VNone, VAny, VStr)):
        return ('any', z3.Function(name, z3.IntSort(), PyVal))
    raise Unsupported(f'fold state leaf {v!r}')


def _state_at(funcs, k):
    if isinstance(funcs, list):
        return VTuple([_state_at(f, k) for f in funcs])
    tag, f = funcs
    return {'bool': VBool, 'int': VInt, 'kind': VKind, 'any': VAny}[tag](f(k))


def ghost_fold(I, step, init, values, k):
    """fold(step, init, values, k) as an axiomatised recursive function of k:
    F(0) = init, F(t+1) = step(F(t), values[t]); unfolded at the instances that occur."""
    vs = B.as_vseq(I, values)
    kt = k.t
    ctx = I.ex.ctx
    table = getattr(ctx, 'folds', None)
    if table is None:
        table = ctx.folds = {}
    sq = getattr(step, 'qual', step.name)
    key = None
    for k2, ent in table.items():
        if k2[0] != sq:
            continue
        ovs = ent[2]
        if k2[1] == vs.src_len.sexpr() and k2[2] == to_pyval_id(vs.elem(PROBE)):
            key = k2
            break
        goal = z3.And(vs.src_len == ovs.src_len,
                      z3.Implies(z3.And(PROBE >= 0, PROBE < vs.src_len), veq(vs.elem(PROBE), ovs.elem(PROBE))))
        sol = z3.Solver()
        sol.set('timeout', 2000)
        sol.add(*ctx.pc)
        sol.add(z3.Not(goal))
        if sol.check() == z3.unsat:
            key = k2
            break
    if key is None:
        key = (sq, vs.src_len.sexpr(), to_pyval_id(vs.elem(PROBE)))
        nm = f'fold!{len(table)}!{len(I.ex.stack)}'
        funcs = _leaf_funcs(nm, init)
        table[key] = (funcs, {}, vs)
        ctx.add(veq(_state_at(funcs, z3.IntVal(0)), init))
    funcs, done, _ = table[key]
    ks = z3.simplify(kt)
    # unfold at k = t + 1
    t = None
    if z3.is_add(ks) and ks.num_args() == 2:
        a, b = ks.arg(0), ks.arg(1)
        if z3.is_int_value(a) and a.as_long() == 1:
            t = b
        elif z3.is_int_value(b) and b.as_long() == 1:
            t = a
    elif z3.is_int_value(ks) and ks.as_long() >= 1:
        t = z3.IntVal(ks.as_long() - 1)
    if t is not None and t.sexpr() not in done:
        done[t.sexpr()] = t
        prev = ghost_fold(I, step, init, values, VInt(t)) if z3.is_int_value(t) and t.as_long() > 0 \
            else _state_at(funcs, t)
        nxt = B.eval_merged(I, lambda: I.call(step, [prev, vs.elem(t)], {}))
        ctx.add(z3.Implies(t >= 0, veq(_state_at(funcs, t + 1), nxt)))
    return _state_at(funcs, kt)


def to_pyval_id(v):
    try:
        return to_pyval(v).sexpr()
    except Unsupported:
        return id(type(v))


# ------------------------------------------------------------------ more sorts
_base_fresh = fresh_of_sort


def fresh_of_sort(I, sort, name):      # noqa: F811  (extends the basic sorts)
    if sort == 'dvector':       # a vector with a dtype (non-empty or typed empty): no None-dtype fork
        from .vecmodel import fresh_vector
        return fresh_vector(I, name, dtype='dtype')
    if sort == 'float':              # an arbitrary float (finite, infinite or NaN); payload uninterpreted
        from .model import PyVal as _P
        t = z3.Const(fresh_name(name), _P)
        I.ex.assume(_P.is_PF(t))
        return VAny(t)
    if sort.startswith('op:'):       # a concrete function of the operator module
        import operator as _operator
        return I.lift(getattr(_operator, sort[3:]))
    if sort == 'ellipsis':
        return ELLIPSIS
    if sort == 'none':
        return NONE
    if sort.startswith('alt:'):
        alts = sort[4:].split('|')
        for a in alts[:-1]:
            if I.ex.choose(z3.Bool(fresh_name(f'{name}.is_{a}'))):
                return fresh_of_sort(I, a, name)
        return fresh_of_sort(I, alts[-1], name)
    if sort.startswith('gen_'):
        return _base_fresh(I, 'seq_' + sort[4:], name).with_kind('gen')
    if sort.startswith('listof:') or sort.startswith('tupleof:'):
        _, n, inner = sort.split(':', 2)
        items = [fresh_of_sort(I, inner, f'{name}{j}') for j in range(int(n))]
        return VList(items) if sort.startswith('listof:') else VTuple(items)
    if sort == 'name':      # a column / vector name: None or a string, held symbolically (no path split)
        from .model import PyVal as _P
        t = z3.Const(fresh_name(name), _P)
        I.ex.assume(z3.Or(_P.is_PNone(t), _P.is_PS(t)))
        return VAny(t)
    return _base_fresh(I, sort, name)

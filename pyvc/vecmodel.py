"""Model of serif Vector objects inside pyvc: fresh symbolic vectors, the constructor
contract (joint __new__ + __init__), and structural equality of vector views."""
import z3

from .values import *  # noqa
from .values import fresh_name
from .model import PyVal, Kind, K
from . import builtins as B
from .loops import fresh_of_sort

VIEW_FIELDS = ('_underlying', '_dtype', '_name', '_display_as_row')


def vector_cls():
    import serif.vector
    return serif.vector.Vector


def is_vector(v):
    return isinstance(v, VObj) and issubclass(v.pycls, vector_cls())


def fresh_vector(I, name, elem='any', dtype='opt_dtype', truthful=False):
    """A symbolic, initialised, one-dimensional Vector of scalars."""
    V = vector_cls()
    und = fresh_of_sort(I, 'seq_' + elem, name + '._underlying')
    dt = fresh_of_sort(I, dtype, name + '._dtype') if isinstance(dtype, str) else dtype
    o = VObj(V, tag='vector')
    o.fields.update({
        '_underlying': und, '_dtype': dt, '_name': fresh_of_sort(I, 'name', name + '._name'),
        '_display_as_row': fresh_of_sort(I, 'bool', name + '._display_as_row'),
        '_fp': NONE, '_fp_powers': NONE, '_wild': VBool(True),
    })
    # class invariant: dtype None  =>  empty (one-dimensional vectors)
    if isinstance(dt, VNone):
        I.ex.assume(und.length == 0)
    return o


def sort_vector(I, name):
    return fresh_vector(I, name)


def sort_boolvec(I, name):
    return fresh_vector(I, name, elem='bool', dtype=VDType(K('bool'), z3.BoolVal(False)))


def sort_intvec(I, name):
    return fresh_vector(I, name, elem='int', dtype=VDType(K('int'), z3.BoolVal(False)))


def construct_vector(I, cls, args, kwargs):
    """Contract of Vector(initial=(), dtype=None, name=None, as_row=False) for scalar elements:
    values = tuple(initial); dtype = given (wrapped in DataType if a plain type), else inferred
    (infer_dtype contract) when non-empty, else None; name / as_row stored."""
    names = ['initial', 'dtype', 'name', 'as_row']
    vals = {'initial': VTuple([]), 'dtype': NONE, 'name': NONE, 'as_row': VBool(False)}
    for n, a in zip(names, args):
        vals[n] = a
    for k, v in kwargs.items():
        if k in vals:
            vals[k] = v
    init = vals['initial']
    if is_vector(init):
        I.raise_(TypeError)          # `if initial and ...` goes through Vector.__bool__
    seq = B.as_vseq(I, init).with_kind('tuple')
    if seq.pred is None:
        # element vectors would dispatch to Table: outside the scalar model
        pass
    dt = vals['dtype']
    if isinstance(dt, VKind):
        dt = VDType(dt.t, z3.BoolVal(False))
    elif isinstance(dt, VNone):
        nonempty = I.ex.choose(seq.length > 0)
        if nonempty:
            from .contract import REGISTRY, call_spec
            c = REGISTRY.get('serif.typing.infer_dtype')
            if c is None:
                raise Unsupported('infer_dtype contract missing')
            dt = call_spec(I, c.returns, {'values': seq})
        else:
            dt = NONE
    elif not isinstance(dt, VDType):
        raise Unsupported(f'Vector dtype argument {dt!r}')
    o = VObj(cls.pycls if is_subclass_py(cls.pycls) else vector_cls(), tag='vector')
    o.fields.update({'_underlying': seq, '_dtype': dt, '_name': vals['name'],
                     '_display_as_row': vals['as_row'] if isinstance(vals['as_row'], VBool) else VBool(truthy(vals['as_row'])),
                     '_fp': NONE, '_fp_powers': NONE, '_wild': VBool(True)})
    return o


def is_subclass_py(c):
    return isinstance(c, type) and issubclass(c, vector_cls())


def vec_eq(a, b):
    """Equality of the abstract views of two vectors (values, dtype, name, row flag)."""
    conds = []
    for f in VIEW_FIELDS:
        conds.append(veq(a.fields[f], b.fields[f]))
    return z3.And(conds)


def install(registry):
    registry['sort:vector'] = sort_vector
    registry['sort:boolvec'] = sort_boolvec
    registry['sort:intvec'] = sort_intvec
    registry['construct:serif.vector.Vector'] = construct_vector


def sort_methodproxy(I, name):
    import serif.vector
    o = VObj(serif.vector.MethodProxy, tag='methodproxy')
    o.fields['_vector'] = fresh_vector(I, name + '._vector')
    o.fields['_method_name'] = VStr(z3.String(fresh_name(name + '._method_name')))
    return o


_install0 = install


def install(registry):      # noqa: F811
    _install0(registry)
    registry['sort:methodproxy'] = sort_methodproxy


def _elem_ok(I, v, dt):
    from contracts import specs
    f = I.lift(specs.truthful_elem)
    return B.eval_merged(I, lambda: I.call(f, [v, dt], {})).t


def truthful_goal(I, vec):
    """Truthful(vec) in goal position: one arbitrary source index."""
    seq = B.as_vseq(I, vec.fields['_underlying'])
    dt = vec.fields['_dtype']
    i = fresh_int('tr')
    rng = z3.And(i >= 0, i < seq.src_len)
    if seq.pred is not None:
        rng = z3.And(rng, seq.pred(i))
    return z3.Implies(rng, _elem_ok(I, seq.elem(i), dt))


def sort_tvector(I, name):
    """A vector satisfying the C03 class invariant (quantified hypothesis over its storage)."""
    v = fresh_vector(I, name)
    seq = v.fields['_underlying']
    j = z3.Int(fresh_name('tq'))
    body = z3.Implies(z3.And(j >= 0, j < seq.src_len), _elem_ok(I, seq.elem(j), v.fields['_dtype']))
    pat = to_pyval(seq.elem(j))
    I.ex.ctx.add(z3.ForAll([j], body, patterns=[pat]))
    return v


_install1 = install


def install(registry):      # noqa: F811
    _install1(registry)
    registry['sort:tvector'] = sort_tvector


def sort_vector_fp(I, name):
    """A vector whose fingerprint memo fields are arbitrary (None or some value)."""
    v = fresh_vector(I, name)
    v.fields['_fp'] = fresh_of_sort(I, 'opt_int', name + '._fp')
    v.fields['_fp_powers'] = fresh_of_sort(I, 'alt:none|list_int', name + '._fp_powers')
    return v


_install2 = install


def install(registry):      # noqa: F811
    _install2(registry)
    registry['sort:vector_fp'] = sort_vector_fp


def sort_rawtable(I, name):
    """A Table instance as handed to __init__ by type.__call__: allocated, not initialised."""
    import serif.table
    return VObj(serif.table.Table, tag='table')


_install3 = install


def install(registry):      # noqa: F811
    _install3(registry)
    registry['sort:rawtable'] = sort_rawtable


def fresh_table(I, name, ncols):
    """A rectangular Table with `ncols` (concrete) truthful-agnostic columns of one symbolic length."""
    import serif.table
    t = VObj(serif.table.Table, tag='table')
    cols = [fresh_vector(I, f'{name}.c{j}') for j in range(ncols)]
    n = z3.Int(fresh_name(name + '._length'))
    I.ex.assume(n >= 0)
    for c in cols:
        I.ex.assume(c.fields['_underlying'].length == n)
    t.fields.update({'_underlying': VTuple(cols), '_length': VInt(n) if ncols else VInt(0), '_dtype': NONE,
                     '_name': fresh_of_sort(I, 'name', name + '._name'), '_display_as_row': VBool(False),
                     '_column_map': VOpaque('column_map'), '_fp': NONE, '_fp_powers': NONE, '_wild': VBool(False),
                     '_repr_rows': NONE})
    t.raw_setattr = False
    return t


_install4 = install


def install(registry):      # noqa: F811
    _install4(registry)
    for k in range(0, 4):
        registry[f'sort:table{k}'] = (lambda I, name, k=k: fresh_table(I, name, k))


def copy_vector_obj(v):
    """A fresh vector object with the same abstract view (what Vector.copy() returns)."""
    o = VObj(v.pycls, tag='vector')
    o.fields.update(v.fields)
    o.fields['_fp'] = NONE
    o.fields['_wild'] = VBool(True)
    return o


def construct_table(I, cls, args, kwargs):
    """Contract of Table(initial=(), ...) for a concrete number of column vectors (proved against
    the real Table.__init__ by the contract `serif.table.Table.__init__`): ragged input raises
    SerifValueError; otherwise a rectangular table of fresh copies that keep name, dtype, values."""
    import serif.table
    import serif.errors
    init = args[0] if args else kwargs.get('initial', VTuple([]))
    if isinstance(init, VDict):
        raise Unsupported('Table(dict) inside a verified function')
    if isinstance(init, VList) and getattr(init, 'gen', False):
        init = VTuple(init.items)
    if not isinstance(init, (VTuple, VList)) or not all(is_vector(x) for x in init.items):
        raise Unsupported(f'Table({init!r})')
    cols = init.items
    t = VObj(serif.table.Table, tag='table')
    if cols:
        n0 = B.seq_len(I, cols[0].fields['_underlying']).t
        for c in cols[1:]:
            if not I.ex.choose(B.seq_len(I, c.fields['_underlying']).t == n0):
                I.raise_(serif.errors.SerifValueError)
    else:
        n0 = z3.IntVal(0)
    new_cols = [copy_vector_obj(c) for c in cols]
    for c in new_cols:
        c.fields['_wild'] = VBool(False)
    name = args[2] if len(args) > 2 else kwargs.get('name', NONE)
    t.fields.update({'_underlying': VTuple(new_cols), '_length': VInt(n0), '_dtype': NONE, '_name': name,
                     '_display_as_row': VBool(False), '_column_map': VOpaque('column_map'), '_fp': NONE,
                     '_fp_powers': NONE, '_wild': VBool(True), '_repr_rows': NONE})
    return t


_construct_vector0 = construct_vector


def construct_vector(I, cls, args, kwargs):      # noqa: F811
    """Vector(...) whose elements are vectors dispatches to Table when all lengths agree."""
    init = args[0] if args else kwargs.get('initial', None)
    if isinstance(init, VList) and getattr(init, 'gen', False):
        init = VTuple(init.items)
    if isinstance(init, (VTuple, VList)) and init.items and all(is_vector(x) for x in init.items):
        n0 = B.seq_len(I, init.items[0].fields['_underlying']).t
        same = z3.And([B.seq_len(I, c.fields['_underlying']).t == n0 for c in init.items[1:]] or [z3.BoolVal(True)])
        if I.ex.choose(same):
            return construct_table(I, cls, [init] + list(args[1:]), kwargs)
        raise Unsupported('Vector of vectors of unequal length (nested vector)')
    return _construct_vector0(I, cls, args, kwargs)


_install5 = install


def install(registry):      # noqa: F811
    _install5(registry)
    registry['construct:serif.vector.Vector'] = construct_vector
    registry['construct:serif.table.Table'] = construct_table

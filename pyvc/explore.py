"""Path exploration by decision replay, obligations, and the SMT back ends."""
import time
import subprocess
import tempfile
import os
import z3


class Infeasible(Exception):
    """Current path condition is unsatisfiable / path deliberately ended."""


class PathEnd(Exception):
    """Path ends here without outcome (e.g. after proving a loop invariant step)."""


class Obligation:
    def __init__(self, name, pc, goal, kind='post', exact=True, meta=None):
        self.name = name
        self.pc = list(pc)
        self.goal = goal
        self.kind = kind
        self.exact = exact
        self.meta = meta or {}
        self.status = None      # 'discharged' | 'refuted' | 'undecided'
        self.backend = None
        self.time_s = 0.0
        self.model = None
        self.reason = ''

    def formula(self):
        pc, goal = resolve_ites(self.pc, self.goal)
        return z3.And(*pc, z3.Not(goal)) if pc else z3.Not(goal)


_ITE_CACHE = {}
_ARITH_CMP = (z3.Z3_OP_LE, z3.Z3_OP_GE, z3.Z3_OP_LT, z3.Z3_OP_GT)


def _ground_ite_conditions(terms, limit=60):
    """Distinct conditions of if-then-else terms that mention no bound variable."""
    out, keys = [], set()
    for t in terms:
        k = t.get_id()
        hit = _ITE_CACHE.get(k)
        if hit is None or not hit[0].eq(t):
            if len(_ITE_CACHE) > 100000:
                _ITE_CACHE.clear()
            hit = (t, _ground_ite_conditions_walk([t], limit))
            _ITE_CACHE[k] = hit
        for c in hit[1]:
            ck = c.get_id()
            if ck not in keys:
                keys.add(ck)
                out.append(c)
        if len(out) >= limit:
            break
    return out[:limit]


def _ground_ite_conditions_walk(terms, limit=60):
    out, seen, stack = [], set(), list(terms)
    keys = set()
    while stack and len(out) < limit:
        t = stack.pop()
        k = t.get_id()
        if k in seen:
            continue
        seen.add(k)
        if z3.is_quantifier(t):
            stack.append(t.body())
            continue
        if z3.is_app(t):
            if t.decl().kind() == z3.Z3_OP_ITE:
                c = t.arg(0)
                # index normalisations (`i if i >= 0 else i + n`) are arithmetic comparisons
                if z3.is_app(c) and c.decl().kind() in _ARITH_CMP and not _has_var(c):
                    ck = c.get_id()
                    if ck not in keys:
                        keys.add(ck)
                        out.append(c)
            stack.extend(t.children())
    return out


def _has_var(t):
    seen, stack = set(), [t]
    while stack:
        x = stack.pop()
        if z3.is_var(x):
            return True
        k = x.get_id()
        if k in seen:
            continue
        seen.add(k)
        if z3.is_quantifier(x):
            return True
        stack.extend(x.children())
    return False


def resolve_ites(pc, goal):
    """Contextual simplification: an if-then-else whose condition is decided by the quantifier-free
    part of the path condition is replaced by the taken branch (in the quantified facts and the goal
    too).  Sound: only consequences of the hypotheses are used, and each decided condition is kept
    as an explicit hypothesis.  This removes the `i if i >= 0 else i + n` index normalisations that
    otherwise hide syntactically equal terms from quantifier instantiation."""
    if _os.environ.get('PYVC_NO_ITE_RESOLVE') or not any(has_quantifier(c) for c in list(pc) + [goal]):
        return list(pc), goal
    conds = _ground_ite_conditions(list(pc) + [goal])
    if not conds:
        return list(pc), goal
    sv = z3.Solver()
    sv.set('timeout', 300)
    for c in pc:
        if not has_quantifier(c):
            sv.add(c)
    subs, facts = [], []
    for c in conds:
        if sv.check(z3.Not(c)) == z3.unsat:
            subs.append((c, z3.BoolVal(True)))
            facts.append(c)
        elif sv.check(c) == z3.unsat:
            subs.append((c, z3.BoolVal(False)))
            facts.append(z3.Not(c))
    if not subs:
        return list(pc), goal
    new_pc = [z3.simplify(z3.substitute(c, *subs)) for c in pc]
    new_pc = [c for c in new_pc if not z3.is_true(c)] + facts
    return new_pc, z3.simplify(z3.substitute(goal, *subs))


class PathCtx:
    def __init__(self, prefix, base_pc, timeout_ms):
        self.prefix = list(prefix)
        self.decisions = []
        self.alts = []
        self.pc = list(base_pc)
        self.solver = z3.Solver()
        self.solver.set('timeout', timeout_ms)
        for c in base_pc:
            if not has_quantifier(c):
                self.solver.add(c)
        self.obligations = []
        self.notes = []
        self.n_quant = sum(1 for c in base_pc if has_quantifier(c))

    def feasible_full(self, cond):
        """Second opinion including the quantified facts (unknown counts as feasible)."""
        s = z3.Solver()
        s.set('timeout', 250)
        s.add(*self.pc)
        return s.check(cond) != z3.unsat

    def add(self, cond):
        self.pc.append(cond)
        if has_quantifier(cond):
            self.n_quant += 1
        # quantified facts stay out of the feasibility solver (they make it answer `unknown`,
        # which would keep infeasible branches alive); they are part of every obligation's pc
        if not has_quantifier(cond):
            self.solver.add(cond)

    def feasible(self, cond):
        r = self.solver.check(cond)
        return r != z3.unsat


_HQ_CACHE = {}


def has_quantifier(t):
    # cached per term; the cache holds the term itself, so its id cannot be recycled
    k = t.get_id()
    hit = _HQ_CACHE.get(k)
    if hit is not None and hit[0].eq(t):
        return hit[1]
    r = _has_quantifier_walk(t)
    if len(_HQ_CACHE) > 200000:
        _HQ_CACHE.clear()
    _HQ_CACHE[k] = (t, r)
    return r


def _has_quantifier_walk(t):
    seen = set()
    stack = [t]
    while stack:
        x = stack.pop()
        if z3.is_quantifier(x):
            return True
        i = x.get_id()
        if i in seen:
            continue
        seen.add(i)
        if z3.is_app(x):
            stack.extend(x.children())
    return False


class PathResult:
    def __init__(self, pc, kind, value, obligations, state=None, notes=None):
        self.pc = pc
        self.kind = kind          # 'return' | 'raise'
        self.value = value
        self.obligations = obligations
        self.state = state
        self.notes = notes or []


import os as _os
TRACE = bool(_os.environ.get('PYVC_TRACE'))
CUR_LINE = None
FORKS = {}


class Explorer:
    def __init__(self, timeout_ms=3000, max_paths=int(_os.environ.get('PYVC_MAX_PATHS', 4000))):
        self.timeout_ms = timeout_ms
        self.max_paths = max_paths
        self.stack = []
        self.paths_explored = 0
        self.infeasible_pruned = 0
        # wall-clock budget for exploring ONE contract (a changed function can make the path tree
        # explode); exceeding it makes the contract undecided, never a violation
        self.deadline = time.time() + float(_os.environ.get('PYVC_CONTRACT_BUDGET_S', '600'))

    @property
    def ctx(self):
        return self.stack[-1]

    # -- decisions ------------------------------------------------------------------
    def choose(self, cond):
        """Branch on z3 Bool `cond`; returns the Python bool taken on this path."""
        s = z3.simplify(cond)
        if z3.is_true(s):
            return True
        if z3.is_false(s):
            return False
        if time.time() > self.deadline:
            raise RuntimeError('exploration time budget exhausted')
        ctx = self.ctx
        i = len(ctx.decisions)
        if i < len(ctx.prefix):
            d = ctx.prefix[i]
            ctx.decisions.append(d)
            ctx.alts.append(False)
            ctx.add(s if d else z3.Not(s))
            return d
        ft = ctx.feasible(s)
        ff = ctx.feasible(z3.Not(s))
        if ft and ff and ctx.n_quant and getattr(self, 'quant_prune', True):
            ft = ctx.feasible_full(s)
            ff = ctx.feasible_full(z3.Not(s)) if ft else True
        # forced branches are recorded too (alt=False) so that replays stay index-aligned
        # even if a solver timeout answers differently on a later replay
        if ft and not ff:
            ctx.decisions.append(True)
            ctx.alts.append(False)
            ctx.add(s)
            self.infeasible_pruned += 1
            return True
        if ff and not ft:
            ctx.decisions.append(False)
            ctx.alts.append(False)
            ctx.add(z3.Not(s))
            self.infeasible_pruned += 1
            return False
        if not ft and not ff:
            raise Infeasible()
        ctx.decisions.append(True)
        ctx.alts.append(True)
        ctx.add(s)
        if TRACE:
            FORKS[CUR_LINE] = FORKS.get(CUR_LINE, 0) + 1
            if FORKS[CUR_LINE] == 3:
                import traceback
                print('FORK@', CUR_LINE, str(s)[:300])
                print(''.join(traceback.format_stack(limit=14)[:-1])[-2500:])
        return True

    def assume(self, cond):
        ctx = self.ctx
        s = z3.simplify(cond)
        if z3.is_true(s):
            return
        ctx.add(s)
        if z3.is_false(s) or not ctx.feasible(z3.BoolVal(True)):
            raise Infeasible()

    def prove(self, name, goal, kind='post', exact=True, meta=None):
        ctx = self.ctx
        ob = Obligation(name, ctx.pc, goal, kind, exact, meta)
        ctx.obligations.append(ob)
        return ob

    def note(self, text):
        self.ctx.notes.append(text)

    # -- exploration ----------------------------------------------------------------
    def explore(self, thunk, base_pc=(), capture=None):
        """Run `thunk` along every feasible decision sequence.

        thunk() -> value, or raises PyRaise-like exception objects caught by the caller's
        wrapper (the wrapper must return ('return', v) / ('raise', e)).
        """
        results = []
        work = [[]]
        while work:
            prefix = work.pop()
            if self.paths_explored - getattr(self, 'nested_paths', 0) >= self.max_paths:
                if TRACE:
                    print('FORKS', sorted(FORKS.items(), key=lambda kv: -kv[1])[:25])
                raise RuntimeError('path budget exhausted')
            ctx = PathCtx(prefix, base_pc, self.timeout_ms)
            self.stack.append(ctx)
            out = None
            try:
                try:
                    out = thunk()
                except (Infeasible, PathEnd):
                    out = None
            finally:
                self.stack.pop()
            self.paths_explored += 1
            if out is not None:
                kind, value, state = out
                results.append(PathResult(list(ctx.pc), kind, value, ctx.obligations, state, ctx.notes))
            elif ctx.obligations:
                results.append(PathResult(list(ctx.pc), 'end', None, ctx.obligations, None, ctx.notes))
            for i in range(len(prefix), len(ctx.decisions)):
                if ctx.alts[i]:
                    work.append(ctx.decisions[:i] + [not ctx.decisions[i]])
        return results

    def explore_nested(self, thunk, assume=()):
        """Explore a sub-computation under the current path condition (plus `assume`, e.g. the
        index range of a generic element); obligations raised inside are forwarded to the
        enclosing path."""
        outer = self.ctx
        before = self.paths_explored
        res = self.explore(thunk, base_pc=list(outer.pc) + list(assume))
        # sub-computations that were merged back do not multiply the enclosing paths
        self.nested_paths = getattr(self, 'nested_paths', 0) + (self.paths_explored - before)
        for r in res:
            for ob in r.obligations:
                outer.obligations.append(ob)
        return res


# ------------------------------------------------------------------------------------
def quick_valid(pc, goal, timeout_ms=2000):
    """Is `goal` a consequence of `pc`?  Used while exploring (sequence-class identification):
    contextual ite resolution, then e-matching only, then the default configuration; `False`
    means "not shown", never "refuted"."""
    key = (goal.get_id(), len(pc), pc[-1].get_id() if len(pc) else 0)
    hit = _QV_MEMO.get(key)
    if hit is not None and hit[0].eq(goal) and (not len(pc) or hit[1].eq(pc[-1])):
        return hit[2]
    r = _quick_valid(pc, goal, timeout_ms)
    if len(_QV_MEMO) > 50000:
        _QV_MEMO.clear()
    _QV_MEMO[key] = (goal, pc[-1] if len(pc) else None, r)
    return r


_QV_MEMO = {}


QV_RLIMIT = 600000      # z3 resource units, not seconds: the same verdict on an idle and on a loaded machine


def _quick_valid(pc, goal, timeout_ms):
    pc2, goal2 = resolve_ites(list(pc), goal)
    f = z3.And(*pc2, z3.Not(goal2)) if pc2 else z3.Not(goal2)
    if has_quantifier(f):
        s2 = z3.Solver()
        s2.set('rlimit', QV_RLIMIT)
        s2.set('auto_config', False)
        s2.set('mbqi', False)
        s2.add(f)
        if s2.check() == z3.unsat:
            return True
        s = z3.Solver()
        # exploration-time question: a proof by instantiation has been tried above; the default
        # configuration gets the same deterministic budget (a miss costs precision, never soundness)
        s.set('rlimit', QV_RLIMIT)
        s.add(f)
        return s.check() == z3.unsat
    s = z3.Solver()
    s.set('timeout', timeout_ms)
    s.add(f)
    return s.check() == z3.unsat


def decompose(goal, hyps=(), budget=None):
    """Split a goal into leaves (extra hypotheses, atomic goal): conjunctions are proved conjunct by
    conjunct, universal goals are skolemised, implications move their premise to the hypotheses.
    The conjunction of `hyps => leaf` over all leaves is equivalent to the goal."""
    if budget is None:
        budget = [96]
    g = goal
    if z3.is_and(g) and budget[0] > 0:
        for ch in g.children():
            yield from decompose(ch, hyps, budget)
        return
    if z3.is_quantifier(g) and g.is_forall() and budget[0] > 0:
        n = g.num_vars()
        consts = [z3.Const(f'gsk!{g.var_name(i)}!{g.get_id()}', g.var_sort(i)) for i in range(n)]
        body = z3.substitute_vars(g.body(), *reversed(consts))
        yield from decompose(body, hyps, budget)
        return
    if z3.is_implies(g) and budget[0] > 0:
        yield from decompose(g.arg(1), hyps + (g.arg(0),), budget)
        return
    if z3.is_or(g) and budget[0] > 0:
        ch = g.children()
        big = [i for i, c in enumerate(ch) if z3.is_and(c) or (z3.is_quantifier(c) and c.is_forall())]
        if len(big) == 1:
            i = big[0]
            yield from decompose(ch[i], hyps + tuple(z3.Not(c) for j, c in enumerate(ch) if j != i), budget)
            return
    budget[0] -= 1
    yield hyps, g


def _solve_formula(f, timeout_ms, fallback, name):
    """-> (status, backend, model, reason)"""
    if _has_quantifier(f):
        # quantified query: E-matching only first (no model-based instantiation) - proofs by
        # instantiation are found in milliseconds this way; only its `unsat` answer is used
        s2 = z3.Solver()
        s2.set('timeout', min(timeout_ms, 4000))
        s2.set('auto_config', False)
        s2.set('mbqi', False)
        s2.add(f)
        if s2.check() == z3.unsat:
            return 'discharged', 'z3-5.1(py, e-matching only)', None, ''
    s = z3.Solver()
    s.set('timeout', timeout_ms)
    s.add(f)
    r = s.check()
    if r == z3.unsat:
        return 'discharged', 'z3-5.1(py)', None, ''
    if r == z3.sat:
        return 'refuted', 'z3-5.1(py)', s.model(), ''
    reason = s.reason_unknown()
    if _os.environ.get('PYVC_DEBUG_EM'):
        for lbl, ff in (('same', f), ('reparsed', z3.And(z3.parse_smt2_string(s.to_smt2())))):
            s3 = z3.Solver(); s3.set('timeout', 8000); s3.set('auto_config', False); s3.set('mbqi', False)
            s3.add(ff)
            t1 = time.time(); r3 = s3.check()
            print('DEBUG_EM', name[-40:], lbl, r3, round(time.time() - t1, 2), s3.reason_unknown() if r3 == z3.unknown else '')
    if _os.environ.get('PYVC_DUMP'):
        import re as _re
        with open(_os.path.join(_os.environ['PYVC_DUMP'], _re.sub(r'[^A-Za-z0-9_.-]', '_', name)[-80:] + f'.{abs(hash(f)) % 10000}.smt2'), 'w') as fh:
            fh.write(s.to_smt2())
    if fallback:
        smt2 = s.to_smt2()
        for bname, cmd in (('cvc5-1.0.3', ['/usr/bin/cvc5', '--lang=smt2', f'--tlimit={timeout_ms}']),
                           ('z3-4.8.12', ['/usr/bin/z3', f'-T:{max(1, timeout_ms // 1000)}', '-smt2'])):
            res = run_cli(cmd, smt2, timeout_ms)
            if res == 'unsat':
                return 'discharged', bname, None, ''
    return 'undecided', 'z3-5.1(py)', None, reason


def solve(ob, timeout_ms=10000, fallback=True):
    """Discharge one obligation.  unsat -> discharged; sat -> refuted (model kept);
    unknown -> try the CLI back ends, else undecided.  Quantified obligations are first tried
    whole; if that does not succeed the goal is decomposed (conjuncts, skolemised universals) and
    every leaf has to be discharged."""
    t0 = time.time()
    if getattr(ob, 'preset', None):
        ob.status, ob.reason = ob.preset
        ob.backend = 'none'
        return ob
    pc, goal = resolve_ites(ob.pc, ob.goal)
    f = z3.And(*pc, z3.Not(goal)) if pc else z3.Not(goal)
    quant = _has_quantifier(f)
    if quant and (z3.is_and(goal) or z3.is_quantifier(goal)):
        leaves = list(decompose(goal))
    else:
        leaves = [((), goal)]
    if len(leaves) == 1:
        ob.status, ob.backend, ob.model, ob.reason = _solve_formula(f, timeout_ms, fallback, ob.name)
    else:
        backends = set()
        ob.status = 'discharged'
        for hyps, leaf in leaves:
            lf = z3.And(*pc, *hyps, z3.Not(leaf))
            st, be, model, reason = _solve_formula(lf, timeout_ms, fallback, ob.name)
            backends.add(be)
            if st != 'discharged':
                ob.status, ob.model, ob.reason = st, model, reason
                break
        ob.backend = '+'.join(sorted(backends))
        ob.meta = dict(ob.meta or {}, leaves=len(leaves))
        if ob.status == 'undecided':
            # a counter-model of the undivided obligation is still a refutation
            sw = z3.Solver()
            sw.set('timeout', timeout_ms)
            sw.add(f)
            if sw.check() == z3.sat:
                ob.status, ob.model, ob.reason = 'refuted', sw.model(), ''
    ob.time_s = time.time() - t0
    return ob


def _has_quantifier(f):
    return has_quantifier(f)


def run_cli(cmd, smt2, timeout_ms):
    fd, path = tempfile.mkstemp(suffix='.smt2')
    try:
        with os.fdopen(fd, 'w') as fh:
            fh.write(smt2)
        try:
            p = subprocess.run(cmd + [path], capture_output=True, text=True,
                               timeout=timeout_ms / 1000 + 5)
        except subprocess.TimeoutExpired:
            return 'timeout'
        out = (p.stdout or '').strip().splitlines()
        return out[0].strip() if out else 'error'
    finally:
        try:
            os.unlink(path)
        except OSError:
            pass


def cross_check(ob, timeout_ms=20000):
    """Second-back-end confirmation of a discharged obligation (thorough tier)."""
    s = z3.Solver()
    s.add(ob.formula())
    smt2 = s.to_smt2()
    res = run_cli(['/usr/bin/cvc5', '--lang=smt2', f'--tlimit={timeout_ms}'], smt2, timeout_ms)
    if res in ('unsat', 'sat'):
        return 'cvc5-1.0.3', res
    res = run_cli(['/usr/bin/z3', f'-T:{max(1, timeout_ms // 1000)}', '-smt2'], smt2, timeout_ms)
    return 'z3-4.8.12', res

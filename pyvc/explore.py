"""Path exploration by decision replay, obligations, and the SMT back ends."""
import time
import subprocess
import tempfile
import os
import z3


class Infeasible(Exception):
    """Current path condition is unsatisfiable / path deliberately ended."""


class PathEnd(Exception):
    """Path ends here without outcome (e.g. after proving a loop invariant step)."""


class Obligation:
    def __init__(self, name, pc, goal, kind='post', exact=True, meta=None):
        self.name = name
        self.pc = list(pc)
        self.goal = goal
        self.kind = kind
        self.exact = exact
        self.meta = meta or {}
        self.status = None      # 'discharged' | 'refuted' | 'undecided'
        self.backend = None
        self.time_s = 0.0
        self.model = None
        self.reason = ''

    def formula(self):
        return z3.And(*self.pc, z3.Not(self.goal)) if self.pc else z3.Not(self.goal)


class PathCtx:
    def __init__(self, prefix, base_pc, timeout_ms):
        self.prefix = list(prefix)
        self.decisions = []
        self.alts = []
        self.pc = list(base_pc)
        self.solver = z3.Solver()
        self.solver.set('timeout', timeout_ms)
        for c in base_pc:
            if not has_quantifier(c):
                self.solver.add(c)
        self.obligations = []
        self.notes = []
        self.n_quant = sum(1 for c in base_pc if has_quantifier(c))

    def feasible_full(self, cond):
        """Second opinion including the quantified facts (unknown counts as feasible)."""
        s = z3.Solver()
        s.set('timeout', 250)
        s.add(*self.pc)
        return s.check(cond) != z3.unsat

    def add(self, cond):
        self.pc.append(cond)
        if has_quantifier(cond):
            self.n_quant += 1
        # quantified facts stay out of the feasibility solver (they make it answer `unknown`,
        # which would keep infeasible branches alive); they are part of every obligation's pc
        if not has_quantifier(cond):
            self.solver.add(cond)

    def feasible(self, cond):
        r = self.solver.check(cond)
        return r != z3.unsat


def has_quantifier(t):
    seen = set()
    stack = [t]
    while stack:
        x = stack.pop()
        if z3.is_quantifier(x):
            return True
        i = x.get_id()
        if i in seen:
            continue
        seen.add(i)
        if z3.is_app(x):
            stack.extend(x.children())
    return False


class PathResult:
    def __init__(self, pc, kind, value, obligations, state=None, notes=None):
        self.pc = pc
        self.kind = kind          # 'return' | 'raise'
        self.value = value
        self.obligations = obligations
        self.state = state
        self.notes = notes or []


class Explorer:
    def __init__(self, timeout_ms=3000, max_paths=4000):
        self.timeout_ms = timeout_ms
        self.max_paths = max_paths
        self.stack = []
        self.paths_explored = 0
        self.infeasible_pruned = 0

    @property
    def ctx(self):
        return self.stack[-1]

    # -- decisions ------------------------------------------------------------------
    def choose(self, cond):
        """Branch on z3 Bool `cond`; returns the Python bool taken on this path."""
        s = z3.simplify(cond)
        if z3.is_true(s):
            return True
        if z3.is_false(s):
            return False
        ctx = self.ctx
        i = len(ctx.decisions)
        if i < len(ctx.prefix):
            d = ctx.prefix[i]
            ctx.decisions.append(d)
            ctx.alts.append(False)
            ctx.add(s if d else z3.Not(s))
            return d
        ft = ctx.feasible(s)
        ff = ctx.feasible(z3.Not(s))
        if ft and ff and ctx.n_quant and getattr(self, 'quant_prune', True):
            ft = ctx.feasible_full(s)
            ff = ctx.feasible_full(z3.Not(s)) if ft else True
        # forced branches are recorded too (alt=False) so that replays stay index-aligned
        # even if a solver timeout answers differently on a later replay
        if ft and not ff:
            ctx.decisions.append(True)
            ctx.alts.append(False)
            ctx.add(s)
            self.infeasible_pruned += 1
            return True
        if ff and not ft:
            ctx.decisions.append(False)
            ctx.alts.append(False)
            ctx.add(z3.Not(s))
            self.infeasible_pruned += 1
            return False
        if not ft and not ff:
            raise Infeasible()
        ctx.decisions.append(True)
        ctx.alts.append(True)
        ctx.add(s)
        return True

    def assume(self, cond):
        ctx = self.ctx
        s = z3.simplify(cond)
        if z3.is_true(s):
            return
        ctx.add(s)
        if z3.is_false(s) or not ctx.feasible(z3.BoolVal(True)):
            raise Infeasible()

    def prove(self, name, goal, kind='post', exact=True, meta=None):
        ctx = self.ctx
        ob = Obligation(name, ctx.pc, goal, kind, exact, meta)
        ctx.obligations.append(ob)
        return ob

    def note(self, text):
        self.ctx.notes.append(text)

    # -- exploration ----------------------------------------------------------------
    def explore(self, thunk, base_pc=(), capture=None):
        """Run `thunk` along every feasible decision sequence.

        thunk() -> value, or raises PyRaise-like exception objects caught by the caller's
        wrapper (the wrapper must return ('return', v) / ('raise', e)).
        """
        results = []
        work = [[]]
        while work:
            prefix = work.pop()
            if self.paths_explored >= self.max_paths:
                raise RuntimeError('path budget exhausted')
            ctx = PathCtx(prefix, base_pc, self.timeout_ms)
            self.stack.append(ctx)
            out = None
            try:
                try:
                    out = thunk()
                except (Infeasible, PathEnd):
                    out = None
            finally:
                self.stack.pop()
            self.paths_explored += 1
            if out is not None:
                kind, value, state = out
                results.append(PathResult(list(ctx.pc), kind, value, ctx.obligations, state, ctx.notes))
            elif ctx.obligations:
                results.append(PathResult(list(ctx.pc), 'end', None, ctx.obligations, None, ctx.notes))
            for i in range(len(prefix), len(ctx.decisions)):
                if ctx.alts[i]:
                    work.append(ctx.decisions[:i] + [not ctx.decisions[i]])
        return results

    def explore_nested(self, thunk, assume=()):
        """Explore a sub-computation under the current path condition (plus `assume`, e.g. the
        index range of a generic element); obligations raised inside are forwarded to the
        enclosing path."""
        outer = self.ctx
        res = self.explore(thunk, base_pc=list(outer.pc) + list(assume))
        for r in res:
            for ob in r.obligations:
                outer.obligations.append(ob)
        return res


# ------------------------------------------------------------------------------------
def solve(ob, timeout_ms=10000, fallback=True):
    """Discharge one obligation.  unsat -> discharged; sat -> refuted (model kept);
    unknown -> try the CLI back ends, else undecided."""
    t0 = time.time()
    s = z3.Solver()
    s.set('timeout', timeout_ms)
    f = ob.formula()
    s.add(f)
    r = s.check()
    ob.backend = 'z3-5.1(py)'
    if r == z3.unsat:
        ob.status = 'discharged'
    elif r == z3.sat:
        ob.status = 'refuted'
        ob.model = s.model()
    else:
        ob.status = 'undecided'
        ob.reason = s.reason_unknown()
        if fallback:
            smt2 = s.to_smt2()
            for name, cmd in (('cvc5-1.0.3', ['/usr/bin/cvc5', '--lang=smt2', f'--tlimit={timeout_ms}']),
                              ('z3-4.8.12', ['/usr/bin/z3', f'-T:{max(1, timeout_ms // 1000)}', '-smt2'])):
                res = run_cli(cmd, smt2, timeout_ms)
                if res == 'unsat':
                    ob.status = 'discharged'
                    ob.backend = name
                    break
    ob.time_s = time.time() - t0
    return ob


def run_cli(cmd, smt2, timeout_ms):
    fd, path = tempfile.mkstemp(suffix='.smt2')
    try:
        with os.fdopen(fd, 'w') as fh:
            fh.write(smt2)
        try:
            p = subprocess.run(cmd + [path], capture_output=True, text=True,
                               timeout=timeout_ms / 1000 + 5)
        except subprocess.TimeoutExpired:
            return 'timeout'
        out = (p.stdout or '').strip().splitlines()
        return out[0].strip() if out else 'error'
    finally:
        try:
            os.unlink(path)
        except OSError:
            pass


def cross_check(ob, timeout_ms=20000):
    """Second-back-end confirmation of a discharged obligation (thorough tier)."""
    s = z3.Solver()
    s.add(ob.formula())
    smt2 = s.to_smt2()
    res = run_cli(['/usr/bin/cvc5', '--lang=smt2', f'--tlimit={timeout_ms}'], smt2, timeout_ms)
    if res in ('unsat', 'sat'):
        return 'cvc5-1.0.3', res
    res = run_cli(['/usr/bin/z3', f'-T:{max(1, timeout_ms // 1000)}', '-smt2'], smt2, timeout_ms)
    return 'z3-4.8.12', res

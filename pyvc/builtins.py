"""Builtins, containers, comprehensions and constructors for the pyvc interpreter."""
import ast
import collections.abc
import z3

from .model import (PyVal, Kind, K, Fl, Cx, OP, CONV, binop, unop, conv, is_subclass, str_of,
                    repr_of, int_like, int_of, py_truth, hash_f, apply1, apply2, call_m,
                    getattr_m, floordiv)
from .values import *  # noqa
from .values import fresh_int, fresh_name

tofl = z3.Function('tofl', PyVal, Fl)
tocx = z3.Function('tocx', PyVal, Cx)
toint = z3.Function('toint', PyVal, z3.IntSort())
todt = z3.Function('todt', PyVal, z3.IntSort())
nonfinite = z3.Function('nonfinite', PyVal, z3.BoolSort())     # nan or +-inf
isnan_f = z3.Function('isnan_f', PyVal, z3.BoolSort())
reduce_f = z3.Function('reduce_f', z3.IntSort(), z3.IntSort(), PyVal)   # reduction id, seq class

REDUCE = {'sum': 0, 'min': 1, 'max': 2, 'all': 3, 'any': 4, 'sorted': 5}


# ---------------------------------------------------------------------------- merging
def merge(I, results, base_len):
    """Merge the return values of nested-explore results into one value (If-chain)."""
    rets = []
    for r in results:
        if r.kind == 'raise':
            # the raising branch may be excluded by quantified facts of the path condition (which
            # the feasibility solver does not see): drop it only if that is *proved*
            from .explore import quick_valid, has_quantifier
            if any(has_quantifier(c) for c in r.pc) and quick_valid(r.pc, z3.BoolVal(False), 3000):
                continue
            raise Unsupported(f'exception {r.value!r} inside a merged (element) expression')
        if r.kind == 'return':
            rets.append((z3.And(*r.pc[base_len:]) if len(r.pc) > base_len else z3.BoolVal(True), r.value))
    if not rets:
        raise Infeasible_()
    return merge_vals(rets)


def Infeasible_():
    from .explore import Infeasible
    return Infeasible()


def merge_vals(rets):
    if len(rets) == 1:
        return rets[0][1]
    vals = [v for _, v in rets]
    if all(isinstance(v, VNone) for v in vals):
        return NONE
    if all(isinstance(v, VBool) for v in vals):
        t = vals[-1].t
        for c, v in reversed(rets[:-1]):
            t = z3.If(c, v.t, t)
        return VBool(t)
    if all(isinstance(v, VInt) for v in vals):
        t = vals[-1].t
        for c, v in reversed(rets[:-1]):
            t = z3.If(c, v.t, t)
        return VInt(t)
    if all(isinstance(v, VKind) for v in vals):
        t = vals[-1].t
        for c, v in reversed(rets[:-1]):
            t = z3.If(c, v.t, t)
        return VKind(t)
    if all(isinstance(v, VStr) for v in vals):
        t = vals[-1].t
        for c, v in reversed(rets[:-1]):
            t = z3.If(c, v.t, t)
        return VStr(t)
    if all(isinstance(v, VDType) for v in vals):
        k = merge_vals([(c, VKind(v.kind)) for c, v in rets])
        n = merge_vals([(c, VBool(v.nullable)) for c, v in rets])
        return VDType(k.t, n.t)
    if all(isinstance(v, VTuple) for v in vals) and len({len(v.items) for v in vals}) == 1:
        return VTuple([merge_vals([(c, v.items[j]) for c, v in rets]) for j in range(len(vals[0].items))])
    if all(isinstance(v, (VNone, VBool, VInt, VStr, VAny)) for v in vals):
        t = to_pyval(vals[-1])
        for c, v in reversed(rets[:-1]):
            t = z3.If(c, to_pyval(v), t)
        return VAny(t)
    if all(v is vals[0] for v in vals):
        return vals[0]
    sents = [v for v in vals if isinstance(v, VObj) and v.tag == 'sentinel'] + \
            [v.sentinel for v in vals if isinstance(v, VTagged)]
    if sents and all(v is sents[0] for v in sents) and \
            all(isinstance(v, (VNone, VBool, VInt, VStr, VAny, VTagged)) or v is sents[0] for v in vals):
        tag = z3.BoolVal(False)
        t = PyVal.PNone
        for c, v in reversed(rets):
            if v is sents[0]:
                tag = z3.If(c, z3.BoolVal(True), tag)
            elif isinstance(v, VTagged):
                tag = z3.If(c, v.tag, tag)
                t = z3.If(c, v.val.t, t)
            else:
                tag = z3.If(c, z3.BoolVal(False), tag)
                t = z3.If(c, to_pyval(v), t)
        return VTagged(tag, sents[0], VAny(t))
    raise Unsupported(f'cannot merge {[type(v).__name__ for v in vals]}')


def eval_merged(I, thunk, assume=(), placeholder=None):
    """Evaluate thunk() on every path under the current pc and merge the results."""
    base_len = len(I.ex.ctx.pc) + len(assume)
    from .interp import PyRaise

    def wrapped():
        try:
            return ('return', thunk(), None)
        except PyRaise as pr:
            return ('raise', pr.exc, None)
    res = I.ex.explore_nested(wrapped, assume)
    if not res and assume and not I.ex.ctx.feasible(z3.And(*assume)):
        # The element domain is empty on this path (e.g. the source sequence has length 0 here): the
        # path itself is NOT infeasible - the element is simply never observed.  An arbitrary value
        # stands for it (every consumer guards element access by the index range).  Dropping the path
        # instead would leave the empty case of the enclosing function unverified (R7_C18_a).
        return placeholder() if placeholder is not None else VAny(z3.Const(fresh_name('noelem'), PyVal))
    return merge(I, res, base_len)


# ---------------------------------------------------------------------------- strings
def str_term(I, v, repr_=False):
    if isinstance(v, VStr):
        return repr_of(PyVal.PS(v.t)) if repr_ else v.t
    if isinstance(v, VInt):
        return z3.If(v.t >= 0, z3.IntToStr(v.t), z3.Concat(z3.StringVal('-'), z3.IntToStr(-v.t)))
    if isinstance(v, (VNone, VBool, VAny)):
        t = to_pyval(v)
        return repr_of(t) if repr_ else str_of(t)
    if isinstance(v, VKind):
        from .model import kind_name
        return z3.Concat(z3.StringVal("<class '"), kind_name(v.t), z3.StringVal("'>"))
    return z3.String(fresh_name('strof'))


# ---------------------------------------------------------------------------- sequences
def to_seq(I, v):
    """Iteration view of v: VSeq, or VTuple/VList for concrete containers."""
    if isinstance(v, (VSeq, VTuple, VList)):
        return v
    if isinstance(v, VObj) and v.tag in ('bucket', 'symlist'):
        return v.as_seq()
    if isinstance(v, VSet):
        return VList(v.items)
    if isinstance(v, VDict):
        return VList([I.lift(k) for k in v.d])
    if isinstance(v, VObj):
        it = getattr(v.pycls, '__iter__', None)
        if it is not None:
            import serif.vector
            if it is serif.vector.Vector.__iter__:
                u = I.getattr(v, '_underlying')
                return to_seq(I, u)
        raise Unsupported(f'iteration over {v!r}')
    raise Unsupported(f'iteration over {v!r}')


def seq_len(I, v):
    if isinstance(v, VObj) and v.tag in ('bucket', 'symlist'):
        return VInt(v.as_seq().length)
    if isinstance(v, VObj) and v.tag == 'symdict':
        return VInt(v.count)
    if isinstance(v, (VTuple, VList, VSet)):
        return VInt(len(v.items))
    if isinstance(v, VDict):
        return VInt(len(v.d))
    if isinstance(v, VSeq):
        if v.kind == 'gen':
            I.raise_(TypeError)
        return VInt(v.length)
    if isinstance(v, VStr):
        return VInt(z3.Length(v.t))
    if isinstance(v, VAny):
        lf = z3.Function('len_f', PyVal, z3.IntSort())
        I.ex.ctx.add(lf(v.t) >= 0)
        return VInt(z3.If(PyVal.is_PS(v.t), z3.Length(PyVal.s(v.t)), lf(v.t)))
    if isinstance(v, VObj):
        ln = None
        for k in v.pycls.__mro__:
            if '__len__' in k.__dict__:
                ln = k.__dict__['__len__']
                break
        if ln is not None:
            return I.call(I.lift(ln), [v], {})
    raise Unsupported(f'len({v!r})')


def seq_at(I, s, i):
    """Element of iteration view s at z3 Int index i (0 <= i < len assumed)."""
    if isinstance(s, VSeq):
        if s.pred is not None:
            raise Unsupported('positional access into a filtered sequence')
        return s.elem(i)
    items = s.items
    if not items:
        raise Unsupported('index into empty literal')
    ci = z3.simplify(i)
    if z3.is_int_value(ci):
        return items[ci.as_long()]
    return merge_vals([(i == k, items[k]) for k in range(len(items))])


def seq_concat(I, a, b):
    a, b = as_vseq(I, a), as_vseq(I, b)
    if a.pred is not None or b.pred is not None:
        raise Unsupported('concatenation of filtered sequences')
    la = a.src_len

    def elem(i):
        return merge_vals([(i < la, a.elem(i)), (z3.BoolVal(True), b.elem(i - la))])
    return VSeq(la + b.src_len, elem, None, a.kind)


def as_vseq(I, v):
    v = to_seq(I, v)
    if isinstance(v, VSeq):
        return v
    return lit_to_seq_general(v)


def lit_to_seq_general(v):
    items = list(v.items)

    def elem(i):
        if not items:
            return NONE
        return merge_vals([(i == k, items[k]) for k in range(len(items))])
    return VSeq(z3.IntVal(len(items)), elem, None, 'tuple' if isinstance(v, VTuple) else 'list')


def unpack(I, v, n):
    if isinstance(v, (VTuple, VList)):
        if len(v.items) != n:
            I.raise_(ValueError)
        return v.items
    if isinstance(v, VSeq) and v.pred is None:
        if not I.ex.choose(v.length == n):
            I.raise_(ValueError)
        return [v.elem(z3.IntVal(k)) for k in range(n)]
    raise Unsupported(f'unpack {v!r}')


def norm_index(I, idx, n, exc=IndexError):
    """Python index normalisation with bounds check; returns z3 Int."""
    i = idx.t if isinstance(idx, VInt) else (z3.If(idx.t, 1, 0) if isinstance(idx, VBool) else None)
    if i is None:
        if isinstance(idx, VAny):
            if not I.ex.choose(int_like(idx.t)):
                I.raise_(TypeError)
            i = int_of(idx.t)
        else:
            raise Unsupported(f'index {idx!r}')
    j = z3.If(i < 0, i + n, i)
    if not I.ex.choose(z3.And(j >= 0, j < n)):
        I.raise_(exc)
    return j


def slice_indices(I, sl, n):
    """(start, stop, step) z3 Ints per slice.indices(n); raises ValueError on step 0.
    Components may be None, ints, or symbolic None-or-int values (no path split for those)."""
    def comp(v):
        """-> (is_none Bool, int term)"""
        if isinstance(v, VNone):
            return z3.BoolVal(True), z3.IntVal(0)
        if isinstance(v, VInt):
            return z3.BoolVal(False), v.t
        if isinstance(v, VBool):
            return z3.BoolVal(False), z3.If(v.t, 1, 0)
        if isinstance(v, VAny):
            return PyVal.is_PNone(v.t), int_of(v.t)
        raise Unsupported('slice component')
    sn, sv = comp(sl.step)
    step = z3.If(sn, z3.IntVal(1), sv)
    if I.ex.choose(step == 0):
        I.raise_(ValueError)
    pos = step > 0
    lower = z3.If(pos, z3.IntVal(0), z3.IntVal(-1))
    upper = z3.If(pos, n, n - 1)

    def adj(v, default):
        isn, x = comp(v)
        clamped = z3.If(x < 0, z3.If(x + n < lower, lower, x + n), z3.If(x > upper, upper, x))
        return z3.If(isn, default, clamped)
    s = adj(sl.start, z3.If(pos, lower, upper))
    e = adj(sl.stop, z3.If(pos, upper, lower))
    return s, e, step


def range_len(start, stop, step):
    return z3.If(z3.And(step > 0, start < stop), floordiv(stop - start + step - 1, step),
                 z3.If(z3.And(step < 0, stop < start), floordiv(start - stop - step - 1, -step),
                       z3.IntVal(0)))


def getitem(I, v, k):
    if isinstance(v, VObj) and v.tag in ('bucket', 'symlist'):
        return getitem(I, v.as_seq(), k)
    if isinstance(v, VObj) and v.tag in ('symkeylist', 'symmap'):
        from . import symcoll
        return symcoll.sym_getitem(I, v, k)
    if isinstance(v, VObj) and v.tag == 'keyval':
        from . import symcoll
        ci = concrete_int(k)
        if ci is None:
            raise Unsupported('key component access')
        return symcoll.key_component(v, ci, getattr(v, 'arity', None))
    if isinstance(v, VDict):
        kk = k.concrete() if isinstance(k, VStr) else concrete_int(k)
        if kk is None:
            raise Unsupported('dict subscript with symbolic key')
        if kk not in v.d:
            I.raise_(KeyError)
        return v.d[kk]
    if isinstance(v, (VTuple, VList)) and not isinstance(k, VSlice):
        ci = concrete_int(k) if isinstance(k, VInt) else None
        if ci is not None:
            if not (-len(v.items) <= ci < len(v.items)):
                I.raise_(IndexError)
            return v.items[ci]
        j = norm_index(I, k, z3.IntVal(len(v.items)))
        return seq_at(I, v, j)
    if isinstance(v, (VTuple, VList)) and isinstance(k, VSlice):
        cs = [NONE if isinstance(x, VNone) else concrete_int(x) for x in (k.start, k.stop, k.step)]
        if all(c is not None for c in cs):
            sl = slice(*[None if c is NONE else c for c in cs])
            return type(v)(v.items[sl])
        v = lit_to_seq_general(v)
    if isinstance(v, VSeq):
        if v.pred is not None:
            raise Unsupported('subscript of filtered sequence')
        if isinstance(k, VSlice):
            s, e, st = slice_indices(I, k, v.length)
            ln = range_len(s, e, st)
            return VSeq(ln, lambda i, s=s, st=st, v=v: v.elem(s + i * st), None, v.kind)
        j = norm_index(I, k, v.length)
        return v.elem(j)
    if isinstance(v, VObj):
        gi = None
        for kls in v.pycls.__mro__:
            if '__getitem__' in kls.__dict__:
                gi = kls.__dict__['__getitem__']
                break
        if gi is not None:
            return I.call(I.lift(gi), [v, k], {})
    if isinstance(v, VAny) and isinstance(k, (VInt, VStr, VAny, VBool, VNone)):
        gf = z3.Function('getitem_f', PyVal, PyVal, PyVal)
        return VAny(gf(v.t, to_pyval(k)))
    if isinstance(v, VStr) and isinstance(k, VInt):
        j = norm_index(I, k, z3.Length(v.t))
        return VStr(z3.SubString(v.t, j, 1))
    if isinstance(v, VStr) and isinstance(k, VSlice):
        s, e, st = slice_indices(I, k, z3.Length(v.t))
        cst = z3.simplify(st)
        if z3.is_int_value(cst) and cst.as_long() == 1:
            return VStr(z3.SubString(v.t, s, z3.If(e > s, e - s, 0)))
    raise Unsupported(f'subscript {v!r}[{k!r}]')


def setitem(I, obj, k, v):
    if isinstance(obj, VDict):
        kk = k.concrete() if isinstance(k, VStr) else concrete_int(k)
        if kk is None:
            raise Unsupported('dict store with symbolic key')
        obj.d[kk] = v
        return
    if isinstance(obj, VList):
        ci = concrete_int(k) if isinstance(k, VInt) else None
        if ci is not None and -len(obj.items) <= ci < len(obj.items):
            obj.items[ci] = v
            return
    if isinstance(obj, VObj) and obj.tag == 'symdict':
        from . import symcoll
        return symcoll.store_item(I, obj, k, v)
    if isinstance(obj, VObj) and obj.tag in ('symkeylist', 'symmap'):
        from . import symcoll
        return symcoll.sym_setitem(I, obj, k, v)
    if isinstance(obj, VObj):
        si = None
        for kls in obj.pycls.__mro__:
            if '__setitem__' in kls.__dict__:
                si = kls.__dict__['__setitem__']
                break
        if si is not None:
            I.call(I.lift(si), [obj, k, v], {})
            return
    raise Unsupported(f'item store {obj!r}[{k!r}]')


def delitem(I, obj, k):
    if isinstance(obj, VDict):
        kk = k.concrete() if isinstance(k, VStr) else concrete_int(k)
        if kk is not None and kk in obj.d:
            del obj.d[kk]
            return
    raise Unsupported('del item')


def symlist_store(I, obj, k, v):
    raise Unsupported('symbolic list store')


def symset_contains(I, container, item):
    raise Unsupported('symbolic set')


# ---------------------------------------------------------------------------- comprehensions
def comprehension(I, node, env, kind):
    if len(node.generators) != 1:
        raise Unsupported('comprehension with several generators')
    gen = node.generators[0]
    src = to_seq(I, I.eval(gen.iter, env))
    from .interp import Env
    if isinstance(src, (VTuple, VList)):
        out = []
        for item in src.items:
            e2 = Env(env.globs, env, env.qual)
            I.assign(gen.target, item, e2)
            if all(I.choose_truthy(I.eval(c, e2)) for c in gen.ifs):
                out.append(I.eval(node.elt, e2))
        if kind == 'gen':
            r = VList(out)
            r.gen = True
            return lit_gen(r)
        return VList(out) if kind == 'list' else make_set(I, out)
    snap = env.snapshot()
    cache_e, cache_p = {}, {}
    if kind == 'set':
        if gen.ifs or src.pred is not None:
            raise Unsupported('filtered set comprehension over a symbolic sequence')
        probe = fresh_int('sp')
        e2 = Env(snap.globs, snap, snap.qual)
        I.assign(gen.target, src.elem(probe), e2)
        v = eval_merged(I, lambda: I.eval(node.elt, e2))
        if isinstance(v, VKind) and I.concrete_kind(v) is not None:
            o = VObj(object, tag='kindset')
            o.fields = {'kind': v, 'nonempty': src.length > 0}
            return o
        raise Unsupported('set comprehension over a symbolic sequence')

    def bind(i):
        e2 = Env(snap.globs, snap, snap.qual)
        I.assign(gen.target, src.elem(i), e2)
        return e2

    def elem(i):
        key = i.get_id()
        if key not in cache_e:
            rng = [z3.And(i >= 0, i < src.src_len)]      # elements exist only inside the source range
            cache_e[key] = (i, eval_merged(I, lambda: I.eval(node.elt, bind(i)), assume=rng))
        return cache_e[key][1]

    pred = None
    if gen.ifs or src.pred is not None:
        def pred(i):
            key = i.get_id()
            if key not in cache_p:
                conds = [src.pred(i)] if src.pred is not None else []
                if gen.ifs:
                    def th():
                        e2 = bind(i)
                        for c in gen.ifs:
                            if not I.choose_truthy(I.eval(c, e2)):
                                return VBool(False)
                        return VBool(True)
                    conds.append(eval_merged(I, th, assume=[z3.And(i >= 0, i < src.src_len)],
                                             placeholder=lambda: VBool(z3.Bool(fresh_name('nopred')))).t)
                cache_p[key] = (i, z3.And(*conds) if len(conds) > 1 else conds[0])
            return cache_p[key][1]
    return VSeq(src.src_len, elem, pred, kind)


def make_set(I, items):
    """Concrete-size set with symbolic members: duplicates are removed by deciding equality."""
    out = []
    for it in items:
        dup = False
        for o in out:
            if I.ex.choose(I.py_eq(it, o)):
                dup = True
                break
        if not dup:
            out.append(it)
    return VSet(out)


def lit_gen(lst):
    items = lst.items
    if all(isinstance(x, (VNone, VBool, VInt, VStr, VAny)) for x in items):
        s = lit_to_seq(VList(items))
        return VSeq(s.src_len, s.elem, None, 'gen')
    g = VList(items)
    g.gen = True        # a generator over non-scalar items (kept concrete)
    return g


# ---------------------------------------------------------------------------- reductions
def seq_class(I, s):
    """Extensional-equality class id of a sequence (for uninterpreted reductions)."""
    s = as_vseq(I, s)
    if s.cls_id is not None:
        return s.cls_id
    ctx = I.ex.ctx
    # classes live with the outermost exploration of the current path: a sequence met inside a
    # nested (merged) evaluation must be recognised again later; identity is always *proved*
    # under the current path condition, so sharing the table is sound
    root = I.ex.stack[0]
    known = getattr(root, 'seq_classes', None)
    if known is None:
        known = root.seq_classes = []
    from .explore import quick_valid
    gi = z3.Int('ge!class')      # the whole query is one generic-element goal: a fixed name lets repeats hit the memo
    found = None
    for other, cid in known:
        goal = seq_eq(s, other, fi=gi)
        if quick_valid(ctx.pc, goal):
            if found is None:
                found = cid
            else:
                # two classes that were distinct when they were registered coincide under the
                # current path condition (e.g. after a case split): their reductions agree here
                for rid in REDUCE.values():
                    ctx.add(reduce_f(z3.IntVal(rid), z3.IntVal(found)) == reduce_f(z3.IntVal(rid), z3.IntVal(cid)))
    if found is not None:
        s.cls_id = found
        return found
    cid = len(known) + 1
    known.append((s, cid))
    s.cls_id = cid
    return cid


count_f = z3.Function('count_f', z3.IntSort(), z3.IntSort())


def filtered_length(I, s):
    """Length of a filtered sequence: count_f(class of its predicate); sequences whose
    predicates are provably equivalent (generic element) share the term."""
    ctx = I.ex.ctx
    root = I.ex.stack[0]          # shared with nested evaluations of the same path (see seq_class)
    known = getattr(root, 'pred_classes', None)
    if known is None:
        known = root.pred_classes = []
    i = z3.Int('pc!class')       # one generic index per query (see seq_class)
    from .explore import quick_valid
    found = None
    for other, cid in known:
        goal = z3.And(s.src_len == other.src_len,
                      z3.Implies(z3.And(i >= 0, i < s.src_len), s.pred(i) == other.pred(i)))
        if quick_valid(ctx.pc, goal):
            if found is None:
                found = cid
            else:
                # classes registered as distinct coincide under the current path condition
                ctx.add(count_f(z3.IntVal(found)) == count_f(z3.IntVal(cid)))
    if found is not None:
        return count_f(z3.IntVal(found))
    cid = len(known) + 1
    known.append((s, cid))
    t = count_f(z3.IntVal(cid))
    # facts about the new term belong to every enclosing context of this path
    for c2 in I.ex.stack:
        if c2 is not ctx:
            c2.add(z3.And(t >= 0, t <= s.src_len))
    ctx.add(z3.And(t >= 0, t <= s.src_len))
    # one instance of "count > 0 => some kept element": enough for emptiness tests
    w = fresh_int('w')
    ctx.add(z3.Implies(t > 0, z3.And(w >= 0, w < s.src_len, s.pred(w))))
    return t


def reduction(I, name, s):
    return VAny(reduce_f(z3.IntVal(REDUCE[name]), z3.IntVal(seq_class(I, s))))


# ---------------------------------------------------------------------------- calls
def call_op(I, name, args):
    if name in ('neg', 'pos', 'abs', 'invert', 'not_'):
        return I.unary(name, args[0])
    if name in ('eq', 'ne', 'lt', 'le', 'gt', 'ge'):
        a, b = args
        sc = (VNone, VBool, VInt, VStr, VAny)
        if isinstance(a, sc) and isinstance(b, sc) and (isinstance(a, VAny) or isinstance(b, VAny)):
            return VAny(binop(OP[name], to_pyval(a), to_pyval(b)))
        return I.cmp(name, a, b)
    return I.binary(name, args[0], args[1])


def call_sym(I, f, args, kwargs):
    ps = [to_pyval(a) for a in args]
    if len(ps) == 1:
        return VAny(apply1(f.ident, ps[0]))
    if len(ps) == 2:
        return VAny(apply2(f.ident, ps[0], ps[1]))
    raise Unsupported('symbolic callable arity')


def isinstance_(I, x, kcls):
    """z3 Bool for isinstance(x, kcls)."""
    if isinstance(kcls, VTuple):
        return z3.Or([isinstance_(I, x, k) for k in kcls.items] or [z3.BoolVal(False)])
    if isinstance(kcls, VKind):
        if isinstance(x, (VNone, VBool, VInt, VStr, VAny)):
            return is_subclass(kind_of_val(x), kcls.t, I.extended)
        ck = I.concrete_kind(kcls)
        if ck == 'object':
            return z3.BoolVal(True)
        if isinstance(x, VTuple):
            return z3.BoolVal(ck == 'tuple')
        if isinstance(x, VList):
            return z3.BoolVal(ck == 'list')
        if isinstance(x, VDict):
            return z3.BoolVal(ck == 'dict')
        if isinstance(x, VSet):
            return z3.BoolVal(ck == 'set')
        if isinstance(x, VSeq):
            return z3.BoolVal(ck == x.kind)
        if isinstance(x, (VObj, VDType, VSlice, VFunc, VClass, VKind, VExc, VEllipsis, VOpaque)):
            return z3.BoolVal(False)
        raise Unsupported(f'isinstance({x!r}, {kcls!r})')
    if isinstance(kcls, VClass):
        c = kcls.pycls
        if isinstance(x, VObj):
            return z3.BoolVal(issubclass(x.pycls, c))
        if isinstance(x, VDType):
            return z3.BoolVal(issubclass(I.dtype_cls(), c))
        if isinstance(x, VSlice):
            return z3.BoolVal(c is slice)
        if isinstance(x, (VKind, VClass)):
            return z3.BoolVal(c is type)
        if isinstance(x, VExc):
            return z3.BoolVal(issubclass(x.pycls, c))
        if c is collections.abc.Iterable:
            if isinstance(x, (VTuple, VList, VSet, VDict, VSeq, VStr)):
                return z3.BoolVal(True)
            if isinstance(x, (VNone, VBool, VInt)):
                return z3.BoolVal(False)
            if isinstance(x, VAny):
                P = PyVal
                return z3.Or(P.is_PS(x.t), P.is_PBy(x.t), P.is_PL(x.t), P.is_PDi(x.t), P.is_PT(x.t))
        if c is collections.abc.Iterator:
            if isinstance(x, VList) and getattr(x, 'gen', False):
                return z3.BoolVal(True)
            if isinstance(x, VSeq):
                return z3.BoolVal(x.kind == 'gen')
            if isinstance(x, (VTuple, VList, VSet, VDict, VStr, VNone, VBool, VInt, VAny)):
                return z3.BoolVal(False)
        if isinstance(x, (VNone, VBool, VInt, VStr, VAny, VTuple, VList, VDict, VSet, VSeq, VFunc)):
            # scalars / plain containers are never instances of serif classes, slices, types
            if c.__module__.startswith('serif') or c in (slice, type):
                return z3.BoolVal(False)
        raise Unsupported(f'isinstance({x!r}, {c.__name__})')
    raise Unsupported(f'isinstance second argument {kcls!r}')


def issubclass_(I, k, sup):
    if isinstance(sup, VTuple):
        return z3.Or([issubclass_(I, k, s) for s in sup.items] or [z3.BoolVal(False)])
    if isinstance(k, VKind) and isinstance(sup, VKind):
        return is_subclass(k.t, sup.t, I.extended)
    if isinstance(k, VClass) and isinstance(sup, VClass):
        return z3.BoolVal(issubclass(k.pycls, sup.pycls))
    if isinstance(k, VKind) and isinstance(sup, VClass):
        return z3.BoolVal(False)
    raise Unsupported(f'issubclass({k!r},{sup!r})')


def call_kind(I, f, args, kwargs):
    if kwargs and not (isinstance(f, VKind) and I.concrete_kind(f) == 'dict'):
        raise Unsupported(f'keyword argument(s) {sorted(kwargs)} to a builtin type')
    """Builtin type called as a constructor / converter."""
    ck = I.concrete_kind(f)
    if ck is None:
        # a class held in a variable (e.g. `convert = target_kind`): decide which builtin it is
        for cand in ('int', 'float', 'complex', 'bool', 'str'):
            if I.ex.choose(f.t == K(cand)):
                return call_kind(I, VKind(cand), args, kwargs)
        raise Unsupported('call of symbolic class')
    a = args[0] if args else None
    if ck in ('tuple', 'list'):
        if a is None:
            return VTuple([]) if ck == 'tuple' else VList([])
        s = to_seq(I, a)
        if isinstance(s, VSeq):
            n = z3.simplify(s.src_len)
            if s.pred is None and z3.is_int_value(n) and n.as_long() <= 8:
                items = [s.elem(z3.IntVal(j)) for j in range(n.as_long())]      # concrete length: materialise
                return VTuple(items) if ck == 'tuple' else VList(items)
            return s.with_kind(ck)
        return VTuple(s.items) if ck == 'tuple' else VList(list(s.items))
    if ck == 'set':
        if a is None:
            return VSet([])
        s = to_seq(I, a)
        if isinstance(s, (VTuple, VList)):
            return make_set(I, s.items)
        raise Unsupported('set() of symbolic sequence')
    if ck == 'dict':
        if a is None:
            return VDict({k: v for k, v in kwargs.items()})
        raise Unsupported('dict(x)')
    if ck == 'bool':
        return VBool(truthy(a)) if a is not None else VBool(False)
    if ck == 'str':
        if a is None:
            return VStr('')
        return VStr(str_term(I, a))
    if ck == 'int':
        if isinstance(a, VInt):
            return a
        if isinstance(a, VBool):
            return VInt(z3.If(a.t, 1, 0))
        if isinstance(a, VStr):
            ok = z3.Function('accepts_int', z3.StringSort(), z3.BoolSort())
            val = z3.Function('int_of_str', z3.StringSort(), z3.IntSort())
            if not I.ex.choose(ok(a.t)):
                I.raise_(ValueError)
            return VInt(val(a.t))
        t = to_pyval(a)
        # int(float) is partial: nan raises ValueError, +-inf raises OverflowError
        if I.ex.choose(z3.And(PyVal.is_PF(t), nonfinite(t))):
            I.raise_(ValueError)
        return VInt(z3.If(int_like(t), int_of(t), toint(t)))
    if ck == 'float':
        if isinstance(a, VStr):
            ok = z3.Function('accepts_float', z3.StringSort(), z3.BoolSort())
            val = z3.Function('float_of_str', z3.StringSort(), Fl)
            if not I.ex.choose(ok(a.t)):
                I.raise_(ValueError)
            return VAny(PyVal.PF(val(a.t)))
        t = to_pyval(a)
        return VAny(z3.If(PyVal.is_PF(t), t, PyVal.PF(tofl(t))))
    if ck == 'complex':
        t = to_pyval(a)
        return VAny(z3.If(PyVal.is_PC(t), t, PyVal.PC(tocx(t))))
    if ck == 'object':
        return VObj(object)
    raise Unsupported(f'constructor {ck}')


def construct(I, cls, args, kwargs):
    c = cls.pycls
    if c is I.dtype_cls():
        kind = args[0] if args else kwargs['kind']
        nullable = args[1] if len(args) > 1 else kwargs.get('nullable', VBool(False))
        if not isinstance(kind, VKind):
            raise Unsupported(f'DataType kind {kind!r}')
        return VDType(kind.t, truthy(nullable) if not isinstance(nullable, VBool) else nullable.t)
    if c in (range, zip, enumerate, reversed):
        return BUILTINS[c.__name__](I, None, args, kwargs)
    if c is super:
        o = VObj(object, tag='super')
        o.fields = {'cls': args[0] if args else None, 'obj': args[1] if len(args) > 1 else None}
        return o
    if c is type and len(args) == 1:
        return b_type(I, None, args, kwargs)
    if c is slice:
        a = list(args) + [NONE] * (3 - len(args))
        if len(args) == 1:
            return VSlice(NONE, a[0], NONE)
        return VSlice(a[0], a[1], a[2])
    hook = I.registry.get('construct:' + c.__module__ + '.' + c.__qualname__)
    if hook is None and c.__name__ == 'cls':
        hook = None
    if hook is None and '__new__' not in c.__dict__:
        for k in c.__mro__:
            hook = I.registry.get('construct:' + k.__module__ + '.' + k.__qualname__)
            if hook is not None:
                break
    if hook is not None:
        return hook(I, cls, args, kwargs)
    if c.__module__.startswith('serif') and not issubclass(c, BaseException):
        # generic protocol for a modelled serif class without a constructor contract:
        # type.__call__ = __new__ (allocation) then __init__ on the new instance, both real bodies
        import serif.vector
        o = VObj(c, tag='row' if c.__name__ == 'Row' else None)
        init = None
        for k in c.__mro__:
            if '__init__' in k.__dict__:
                init = k.__dict__['__init__']
                break
        if init is not None and init is not object.__init__:
            I.call(I.lift(init), [o] + list(args), kwargs)
        return o
    raise Unsupported(f'construction of {c.__name__}')


KW_AWARE = {'zip', 'symmethod', 'hash', 'sorted', 'reader', 'print', 'min', 'max', 'sum', 'getattr'}


def call_builtin(I, f, args, kwargs):
    name = f.name
    h = BUILTINS.get(name)
    if h is not None:
        if kwargs and name not in KW_AWARE:
            # never silently ignore an argument: that would turn an unmodelled call into a wrong one
            raise Unsupported(f'keyword argument(s) {sorted(kwargs)} to builtin {name}')
        return h(I, f, args, kwargs)
    if name.startswith('method:'):
        return call_method(I, f.self_, name[7:], args, kwargs)
    if name == 'object.__new__':
        cls = args[0]
        o = VObj(cls.pycls, tag='vector' if issubclass(cls.pycls, __import__('serif.vector', fromlist=['Vector']).Vector) else None)
        return o
    if name == 'object.__init__':
        return NONE
    if name == '__setattr__' and len(args) == 3 and isinstance(args[0], VObj):
        fld = args[1].concrete()
        if fld is None:
            raise Unsupported('object.__setattr__ with symbolic field name')
        args[0].fields[fld] = args[2]
        return NONE
    if name == 'slice.indices':
        n = args[0]
        s, e, st = slice_indices(I, f.self_, n.t)
        return VTuple([VInt(s), VInt(e), VInt(st)])
    raise Unsupported(f'builtin {name}')


def call_method(I, obj, m, args, kwargs):
    if kwargs and isinstance(obj, (VList, VTuple, VSet, VDict, VStr, VSeq)):
        # keyword arguments of container / string methods are not modelled: never ignore them
        raise Unsupported(f'keyword argument(s) {sorted(kwargs)} to method {m}')
    if isinstance(obj, VList):
        if m == 'append':
            obj.items.append(args[0])
            return NONE
        if m == 'extend':
            s = to_seq(I, args[0])
            if isinstance(s, (VTuple, VList)):
                obj.items.extend(s.items)
                return NONE
        if m == 'insert':
            ci = concrete_int(args[0])
            if ci is not None:
                obj.items.insert(ci, args[1])
                return NONE
        if m == 'pop' and not args:
            if not obj.items:
                I.raise_(IndexError)
            return obj.items.pop()
        if m == 'index':
            for j, it in enumerate(obj.items):
                if I.ex.choose(I.py_eq(it, args[0])):
                    return VInt(j)
            I.raise_(ValueError)
    if isinstance(obj, VTuple) and m == 'index':
        for j, it in enumerate(obj.items):
            if I.ex.choose(I.py_eq(it, args[0])):
                return VInt(j)
        I.raise_(ValueError)
    if isinstance(obj, VSet):
        if m == 'add':
            obj.items.append(args[0])
            return NONE
        if m == 'pop':
            if not obj.items:
                I.raise_(KeyError)
            return obj.items.pop(0)
    if isinstance(obj, VDict):
        if m == 'get':
            kk = args[0].concrete() if isinstance(args[0], VStr) else concrete_int(args[0])
            if kk is not None:
                return obj.d.get(kk, args[1] if len(args) > 1 else NONE)
            if isinstance(args[0], VStr):
                rets = [(args[0].t == z3.StringVal(k), v) for k, v in obj.d.items() if isinstance(k, str)]
                rets.append((z3.BoolVal(True), args[1] if len(args) > 1 else NONE))
                for c, v in rets[:-1]:
                    if I.ex.choose(c):
                        return v
                return rets[-1][1]
        if m == 'items':
            return VList([VTuple([I.lift(k), v]) for k, v in obj.d.items()])
        if m == 'keys':
            return VList([I.lift(k) for k in obj.d])
        if m == 'values':
            return VList(list(obj.d.values()))
        if m == 'setdefault':
            kk = args[0].concrete() if isinstance(args[0], VStr) else concrete_int(args[0])
            if kk is not None:
                return obj.d.setdefault(kk, args[1])
    if isinstance(obj, VStr):
        return str_method(I, obj, m, args, kwargs)
    if isinstance(obj, (VAny, VInt, VBool)):
        mid = z3.Function('name_id', z3.StringSort(), z3.IntSort())(z3.StringVal(m))
        return VAny(call_m(to_pyval(obj), mid, args_id(args, kwargs)))
    if isinstance(obj, VObj) and obj.tag == 'recorder':
        from . import loops
        return loops.sym_method(I, obj, m, args, kwargs)
    if isinstance(obj, VObj) and obj.tag in ('symlist', 'symdict', 'symset', 'bucket'):
        from . import symcoll
        return symcoll.method(I, obj, m, args, kwargs)
    raise Unsupported(f'method {m} on {obj!r}')


_strfun = {}


def str_method(I, s, m, args, kwargs):
    if m in ('strip', 'lower', 'upper', 'lstrip', 'rstrip') and (not args or all(isinstance(a, VStr) for a in args)):
        key = (m, len(args))
        if key not in _strfun:
            _strfun[key] = z3.Function(f'str_{m}{len(args)}', *([z3.StringSort()] * (1 + len(args))), z3.StringSort())
        r = _strfun[key](s.t, *[a.t for a in args])
        if m in ('strip', 'lstrip', 'rstrip'):
            I.ex.ctx.add(z3.And(z3.Length(r) <= z3.Length(s.t), z3.Implies(z3.Length(s.t) == 0, r == s.t)))
        return VStr(r)
    if m in ('isdigit', 'isidentifier', 'isalpha', 'isalnum', 'isspace'):
        key = (m, 0)
        if key not in _strfun:
            _strfun[key] = z3.Function(f'str_{m}', z3.StringSort(), z3.BoolSort())
        return VBool(_strfun[key](s.t))
    if m == 'startswith' and len(args) == 1 and isinstance(args[0], VStr):
        return VBool(z3.PrefixOf(args[0].t, s.t))
    if m == 'endswith' and len(args) == 1 and isinstance(args[0], VStr):
        return VBool(z3.SuffixOf(args[0].t, s.t))
    if m == 'join':
        seq = to_seq(I, args[0])
        if isinstance(seq, (VTuple, VList)) and all(isinstance(x, VStr) for x in seq.items):
            if not seq.items:
                return VStr('')
            t = seq.items[0].t
            for x in seq.items[1:]:
                t = z3.Concat(t, s.t, x.t)
            return VStr(t)
        return VStr(z3.String(fresh_name('joined')))
    if m == 'replace' and len(args) == 2 and all(isinstance(a, VStr) for a in args):
        key = ('replace', 2)
        if key not in _strfun:
            _strfun[key] = z3.Function('str_replace_all', z3.StringSort(), z3.StringSort(), z3.StringSort(), z3.StringSort())
        return VStr(_strfun[key](s.t, args[0].t, args[1].t))
    if m in ('ljust', 'rjust') and len(args) == 1:
        key = (m, 1)
        if key not in _strfun:
            _strfun[key] = z3.Function(f'str_{m}', z3.StringSort(), z3.IntSort(), z3.StringSort())
        w = args[0]
        return VStr(_strfun[key](s.t, w.t if isinstance(w, VInt) else int_of(to_pyval(w))))
    raise Unsupported(f'str.{m}')


# ---- individual builtins ----------------------------------------------------------------
def b_isinstance(I, f, args, kw):
    return VBool(isinstance_(I, args[0], args[1]))


def b_issubclass(I, f, args, kw):
    return VBool(issubclass_(I, args[0], args[1]))


def b_type(I, f, args, kw):
    x = args[0]
    if isinstance(x, VObj):
        return VClass(x.pycls)
    if isinstance(x, VDType):
        return VClass(I.dtype_cls())
    if isinstance(x, VSlice):
        return VClass(slice)
    return VKind(kind_of_val(x))


def b_len(I, f, args, kw):
    return seq_len(I, args[0])


def b_range(I, f, args, kw):
    xs = [a.t if isinstance(a, VInt) else int_of(to_pyval(a)) for a in args]
    if len(xs) == 1:
        start, stop, step = z3.IntVal(0), xs[0], z3.IntVal(1)
    elif len(xs) == 2:
        start, stop, step = xs[0], xs[1], z3.IntVal(1)
    else:
        start, stop, step = xs
        if I.ex.choose(step == 0):
            I.raise_(ValueError)
    cs = [z3.simplify(x) for x in (start, stop, step)]
    if all(z3.is_int_value(c) for c in cs):
        return VList([VInt(v) for v in range(*[c.as_long() for c in cs])])
    ln = range_len(start, stop, step)
    return VSeq(ln, lambda i: VInt(start + i * step), None, 'range')


def b_zip(I, f, args, kw):
    strict = 'strict' in kw and z3.is_true(z3.simplify(truthy(kw['strict'])))
    seqs = [to_seq(I, a) for a in args]
    if all(isinstance(s, (VTuple, VList)) for s in seqs):
        ns = {len(s.items) for s in seqs}
        if strict and len(ns) > 1:
            I.raise_(ValueError)
        return VList([VTuple(list(t)) for t in zip(*[s.items for s in seqs])])
    vs = [as_vseq(I, s) for s in seqs]
    if any(s.pred is not None for s in vs):
        raise Unsupported('zip over filtered sequence')
    n = vs[0].length
    for s in vs[1:]:
        if strict:
            if not I.ex.choose(s.length == n):
                I.raise_(ValueError)
        else:
            n = z3.If(s.length < n, s.length, n)
    return VSeq(n, lambda i: VTuple([s.elem(i) for s in vs]), None, 'gen')


def b_enumerate(I, f, args, kw):
    s = to_seq(I, args[0])
    if isinstance(s, (VTuple, VList)):
        return VList([VTuple([VInt(j), x]) for j, x in enumerate(s.items)])
    return VSeq(s.src_len, lambda i: VTuple([VInt(i), s.elem(i)]),
                s.pred, 'gen') if s.pred is None else _unsup('enumerate of filtered sequence')


def _unsup(msg):
    raise Unsupported(msg)


def b_reduction(name):
    def h(I, f, args, kw):
        if set(kw) - ({'default'} if name in ('min', 'max') else set()):
            raise Unsupported(f'keyword argument(s) {sorted(kw)} to {name}')
        if name == 'sum' and len(args) == 2:
            if concrete_int(args[1]) != 0:
                raise Unsupported('sum with a start value')
            args = args[:1]
        if 'default' in kw:
            if len(args) != 1:
                raise Unsupported(f'{name} with default= and several arguments')
            vs0 = as_vseq(I, to_seq(I, args[0]))
            if I.ex.choose(vs0.length == 0):
                return kw['default']
            return reduction(I, name, to_seq(I, args[0]))
        s = to_seq(I, args[0]) if len(args) == 1 else VTuple(args)
        if isinstance(s, (VTuple, VList)) and all(isinstance(x, VInt) for x in s.items) and s.items:
            if name == 'sum':
                t = s.items[0].t
                for x in s.items[1:]:
                    t = t + x.t
                return VInt(t)
            if name in ('min', 'max'):
                t = s.items[0].t
                for x in s.items[1:]:
                    t = z3.If((x.t < t) if name == 'min' else (x.t > t), x.t, t)
                return VInt(t)
        if isinstance(s, (VTuple, VList)) and not s.items:
            if name == 'sum':
                return VInt(0)
            if name in ('min', 'max'):
                I.raise_(ValueError)
        if name in ('min', 'max'):
            vs = as_vseq(I, s)
            if I.ex.choose(vs.length == 0):
                I.raise_(ValueError)
        return reduction(I, name, s)
    return h


def b_any_all(name):
    def h(I, f, args, kw):
        s = to_seq(I, args[0])
        if isinstance(s, (VTuple, VList)):
            ts = [truthy(x) for x in s.items]
            if name == 'any':
                return VBool(z3.Or(ts) if ts else z3.BoolVal(False))
            return VBool(z3.And(ts) if ts else z3.BoolVal(True))
        # symbolic: t <=> forall j. kept(j) => truthy(elem(j)), given as two definitional axioms
        vs = as_vseq(I, s)
        n_conc = concrete_int(VInt(vs.src_len)) if not isinstance(vs.src_len, int) else vs.src_len
        if n_conc is not None and 0 <= n_conc <= 16:
            # a comprehension over a container of known length: plain conjunction / disjunction
            ts = []
            for jj in range(n_conc):
                tj = truthy(vs.elem(z3.IntVal(jj)))
                if vs.pred is not None:
                    pj = vs.pred(z3.IntVal(jj))
                    tj = z3.Implies(pj, tj) if name == 'all' else z3.And(pj, tj)
                ts.append(tj)
            if name == 'any':
                return VBool(z3.Or(ts) if ts else z3.BoolVal(False))
            return VBool(z3.And(ts) if ts else z3.BoolVal(True))
        t = z3.Bool(fresh_name(name))
        j = z3.Int(fresh_name('q'))
        w = fresh_int('sk')

        def body(ix):
            rng = z3.And(ix >= 0, ix < vs.src_len)
            if vs.pred is not None:
                rng = z3.And(rng, vs.pred(ix))
            return rng, truthy(vs.elem(ix))
        rj, bj = body(j)
        rw, bw = body(w)
        ctx = I.ex.ctx
        if name == 'all':
            ctx.add(z3.Implies(t, z3.ForAll([j], z3.Implies(rj, bj))))
            ctx.add(z3.Implies(z3.Not(t), z3.And(rw, z3.Not(bw))))
        else:
            ctx.add(z3.Implies(z3.Not(t), z3.ForAll([j], z3.Implies(rj, z3.Not(bj)))))
            ctx.add(z3.Implies(t, z3.And(rw, bw)))
        return VBool(t)
    return h


def b_getattr(I, f, args, kw):
    obj, name = args[0], args[1]
    cn = name.concrete() if isinstance(name, VStr) else None
    if cn is not None and not isinstance(obj, (VAny,)):
        try:
            return I.getattr(obj, cn)
        except Exception as e:
            from .interp import PyRaise
            if isinstance(e, PyRaise) and e.exc.pycls is AttributeError and len(args) > 2:
                return args[2]
            raise
    if isinstance(obj, (VAny, VInt, VStr, VBool)) and isinstance(name, VStr):
        mid = z3.Function('name_id', z3.StringSort(), z3.IntSort())(name.t)
        return VFunc('builtin', name='symmethod', obj=None, self_=obj, mid=mid)
    raise Unsupported(f'getattr({obj!r}, {name!r})')


def b_symmethod(I, f, args, kw):
    # element.method(*args, **kwargs): uninterpreted in (element, method name, argument bundle)
    aid = args_id(args, kw)
    return VAny(call_m(to_pyval(f.self_), f.mid, aid))


def args_id(args, kw):
    """Identity of an argument bundle: equal bundles get equal ids."""
    parts = []
    for a in list(args) + [kw.get(k) for k in sorted(kw)]:
        if isinstance(a, VOpaque):
            parts.append(('op', a.ident))
        else:
            parts.append(('v', repr(a)))
    key = repr(parts)
    return z3.IntVal(hash(key) % (1 << 30))


def b_hasattr(I, f, args, kw):
    obj, name = args
    cn = name.concrete()
    if isinstance(obj, VObj):
        return VBool(cn in obj.fields or hasattr(obj.pycls, cn))
    if isinstance(obj, (VNone, VBool, VInt, VStr)):
        return VBool(hasattr(KIND_PY(obj), cn))
    if isinstance(obj, VAny):
        hf = z3.Function('hasattr_f', PyVal, z3.StringSort(), z3.BoolSort())
        t = obj.t
        if cn == '__len__':
            # exact for the builtin scalars: str / bytes / containers are sized, numbers are not
            sized = z3.Or(PyVal.is_PS(t), PyVal.is_PBy(t), PyVal.is_PL(t), PyVal.is_PDi(t), PyVal.is_PT(t))
            unsized = z3.Or(PyVal.is_PNone(t), PyVal.is_PB(t), PyVal.is_PI(t), PyVal.is_PF(t), PyVal.is_PC(t),
                            PyVal.is_PD(t), PyVal.is_PDT(t), PyVal.is_PTd(t))
            return VBool(z3.If(sized, True, z3.If(unsized, False, hf(t, name.t))))
        if cn is not None:
            # exact for values of the exact builtin scalar classes (a PI / PS value may be an
            # instance of a subclass - IntEnum, str subclass - so those stay uninterpreted)
            import datetime as _dt
            term = hf(t, name.t)
            for rec, cls in ((PyVal.is_PNone, type(None)), (PyVal.is_PB, bool), (PyVal.is_PF, float), (PyVal.is_PC, complex),
                             (PyVal.is_PBy, bytes)):
                term = z3.If(rec(t), z3.BoolVal(hasattr(cls, cn)), term)
            return VBool(term)
        return VBool(hf(t, name.t))
    if isinstance(obj, (VList, VSeq)) and cn is not None:
        return VBool(hasattr(list, cn) if not (isinstance(obj, VSeq) and obj.kind in ('tuple', 'gen', 'range')) else hasattr(tuple if obj.kind == 'tuple' else range if obj.kind == 'range' else type(x for x in ()), cn))
    if isinstance(obj, VTuple) and cn is not None:
        return VBool(hasattr(tuple, cn))
    if isinstance(obj, VDict) and cn is not None:
        return VBool(hasattr(dict, cn))
    raise Unsupported('hasattr')


def KIND_PY(v):
    return {VNone: type(None), VBool: bool, VInt: int, VStr: str}[type(v)]


def b_id(I, f, args, kw):
    x = args[0]
    if isinstance(x, VObj):
        return VInt(z3.IntVal(10_000_000 + x.oid))
    idf = getattr(x, 'ident', None)
    if idf is not None and not isinstance(idf, str):
        return VInt(idf)
    # identity of a non-object value: some address that is not the address of a modelled object
    t = z3.Int(fresh_name('id'))
    I.ex.ctx.add(t < 0)
    return VInt(t)


def b_hash(I, f, args, kw):
    x = args[0]
    if isinstance(x, (VNone, VBool, VInt, VStr, VAny)):
        t = to_pyval(x)
        hashable = z3.Function('hashable', PyVal, z3.BoolSort())
        if not I.ex.choose(z3.Or(z3.Not(z3.Or(PyVal.is_PL(t), PyVal.is_PDi(t))), z3.BoolVal(False))):
            I.raise_(TypeError)
        return VInt(hash_f(t))
    if isinstance(x, VTuple):
        # a tuple is hashable iff every component is; the value is an uninterpreted combination
        hs = [b_hash(I, f, [it], kw) for it in x.items]       # raises TypeError on the first unhashable component
        comb = z3.Function('tuple_hash', z3.IntSort(), z3.IntSort(), z3.IntSort())
        acc = z3.IntVal(len(hs))
        for h in hs:
            acc = comb(acc, h.t)
        return VInt(acc)
    raise Unsupported('hash of non-scalar')


def b_csv_reader(I, f, args, kw):
    """csv.reader(file, delimiter=...): the trusted lexical layer.  Model: an arbitrary number of
    records, each an arbitrary-length list of str cells; the first record has the width the
    contract variant declares (a table's column count is concrete in this model)."""
    k = getattr(I, 'csv_first_row_width', None)
    if k is None:
        raise Unsupported('csv.reader without a declared record model')
    I.assumption(f'csv.reader: trusted lexical layer - yields the records of the file as lists of str cells '
                 f'(arbitrary record count, per-record cell counts and cell texts; first record has {k} cells in this variant)')
    n = fresh_int('csv.nrows')
    rowlen = z3.Function(fresh_name('csv.rowlen'), z3.IntSort(), z3.IntSort())
    cell = z3.Function(fresh_name('csv.cell'), z3.IntSort(), z3.IntSort(), z3.StringSort())
    ctx = I.ex.ctx
    ctx.add(n >= 0)
    qi = z3.Int(fresh_name('qi'))
    ctx.add(z3.ForAll([qi], rowlen(qi) >= 0, patterns=[rowlen(qi)]))
    ctx.add(rowlen(z3.IntVal(0)) == k)

    def row(i):
        ci = concrete_int(VInt(i)) if not isinstance(i, int) else i
        if ci == 0:
            return VList([VStr(cell(z3.IntVal(0), z3.IntVal(j))) for j in range(k)])
        return VSeq(rowlen(i), lambda j, i=i: VStr(cell(i, j)), None, 'list')
    seq = VSeq(n, row, None, 'gen')
    seq.csv_model = (n, rowlen, cell)
    return seq


def b_callable(I, f, args, kw):
    x = args[0]
    if isinstance(x, (VFunc, VClass, VKind)):
        return VBool(True)
    if isinstance(x, (VNone, VBool, VInt, VStr, VTuple, VList, VDict, VDType)):
        return VBool(False)
    raise Unsupported('callable')


def b_iter(I, f, args, kw):
    s = to_seq(I, args[0])
    if isinstance(s, VSeq):
        return s.with_kind('gen')
    return lit_gen(VList(s.items))


def b_next(I, f, args, kw):
    s = args[0]
    if isinstance(s, VSeq) and s.pred is None:
        if I.ex.choose(s.length == 0):
            if len(args) > 1:
                return args[1]
            I.raise_(StopIteration)
        return s.elem(z3.IntVal(0))
    raise Unsupported('next')


def b_repr(I, f, args, kw):
    return VStr(str_term(I, args[0], repr_=True))


def b_sorted(I, f, args, kw):
    if len(args) != 1 or set(kw) - {'key', 'reverse'}:
        raise Unsupported('sorted arguments')
    s = to_seq(I, args[0])
    if not isinstance(s, VSeq):
        raise Unsupported('sorted of a concrete container (use the trusted stable-sort contract)')
    return list_sort(I, s, kw.get('key'), kw.get('reverse'))


SORT_ASSUMPTION = ('list.sort: trusted stable-sort contract (the result is a permutation of the list, no later element '
                   'compares less than an earlier one under the key order (reverse: the other way round), and elements '
                   'whose keys do not compare less either way keep their relative order, for reverse=True too); '
                   'key comparisons are assumed defined')


def tuple_lt(I, a, b):
    """a < b as Python compares sort keys: scalars by <, tuples lexicographically (first position
    where the elements are neither identical nor ==, then <)."""
    if isinstance(a, VTuple) and isinstance(b, VTuple) and len(a.items) == len(b.items):
        lt = z3.BoolVal(False)
        eq_prefix = z3.BoolVal(True)
        for x, y in zip(a.items, b.items):
            sc = (VNone, VBool, VInt, VStr, VAny)
            if not (isinstance(x, sc) and isinstance(y, sc)):
                raise Unsupported('sort key component')
            same = to_pyval(x) == to_pyval(y)
            eq = z3.Or(same, I.py_eq(x, y))
            lt = z3.Or(lt, z3.And(eq_prefix, z3.Not(eq), truthy(I.cmp('lt', x, y))))
            eq_prefix = z3.And(eq_prefix, eq)
        return lt
    sc = (VNone, VBool, VInt, VStr, VAny)
    if isinstance(a, sc) and isinstance(b, sc):
        return truthy(I.cmp('lt', a, b))
    raise Unsupported('sort key shape')


def list_sort(I, seq, keyf, rev):
    """`lst.sort(key=keyf, reverse=rev)` on a list held as a sequence term: a new sequence term
    constrained by the (trusted) stable-sort contract; the caller rebinds the name."""
    from . import symcoll
    vs = as_vseq(I, seq)
    if vs.pred is not None:
        raise Unsupported('sort of a filtered sequence')
    n = vs.src_len
    sig = z3.Function(fresh_name('sortperm'), z3.IntSort(), z3.IntSort())
    inv = z3.Function(fresh_name('sortinv'), z3.IntSort(), z3.IntSort())
    revb = truthy(rev) if rev is not None else z3.BoolVal(False)
    ctx = I.ex.ctx
    I.assumption(SORT_ASSUMPTION)
    p, q = z3.Int(fresh_name('sp')), z3.Int(fresh_name('sq'))
    ctx.add(z3.ForAll([p], z3.Implies(z3.And(p >= 0, p < n), z3.And(sig(p) >= 0, sig(p) < n, inv(sig(p)) == p)), patterns=[sig(p)]))
    ctx.add(z3.ForAll([q], z3.Implies(z3.And(q >= 0, q < n), z3.And(inv(q) >= 0, inv(q) < n, sig(inv(q)) == q)), patterns=[inv(q)]))

    def new_elem(pt):
        return vs.elem(sig(pt))
    new = VSeq(vs.src_len, new_elem, None, 'list')
    new.sort_perm = sig          # position in the sorted list -> position in the list before this sort

    def K(pt):
        e = new_elem(pt)
        if keyf is None or isinstance(keyf, VNone):
            return e
        return eval_merged(I, lambda: I.call(keyf, [e], {}), assume=[z3.And(pt >= 0, pt < n)])
    kp, kq = K(p), K(q)
    lt_pq, lt_qp = tuple_lt(I, kp, kq), tuple_lt(I, kq, kp)
    rng = z3.And(p >= 0, p < q, q < n)
    pats = symcoll.choose_patterns([p, q], z3.And(lt_pq, lt_qp, sig(p) < sig(q))) or [z3.MultiPattern(sig(p), sig(q))]
    # sorted: an earlier element is never "after" a later one in the requested direction
    ctx.add(z3.ForAll([p, q], z3.Implies(rng, z3.If(revb, z3.Not(lt_pq), z3.Not(lt_qp))), patterns=[z3.MultiPattern(sig(p), sig(q))]))
    # stable: elements that tie keep their relative order (also under reverse=True)
    ctx.add(z3.ForAll([p, q], z3.Implies(z3.And(rng, z3.Not(lt_pq), z3.Not(lt_qp)), sig(p) < sig(q)), patterns=[z3.MultiPattern(sig(p), sig(q))]))
    return new


def b_reversed(I, f, args, kw):
    s = to_seq(I, args[0])
    if isinstance(s, (VTuple, VList)):
        return VList(list(reversed(s.items)))
    n = s.length
    return VSeq(n, lambda i: s.elem(n - 1 - i), None, 'gen')


def b_abs(I, f, args, kw):
    return I.unary('abs', args[0])


def b_print(I, f, args, kw):
    return NONE


def b_combine(I, f, args, kw):
    t = to_pyval(args[0])
    return VAny(PyVal.PDT(todt(t)))


def b_isfinite(I, f, args, kw):
    x = args[0]
    if isinstance(x, (VInt, VBool)):
        return VBool(True)
    t = to_pyval(x)
    if not I.ex.choose(z3.Or(PyVal.is_PF(t), int_like(t))):
        I.raise_(TypeError)
    return VBool(z3.Not(z3.And(PyVal.is_PF(t), nonfinite(t))))


def b_isnan(I, f, args, kw):
    x = args[0]
    if isinstance(x, (VInt, VBool)):
        return VBool(False)
    t = to_pyval(x)
    if not I.ex.choose(z3.Or(PyVal.is_PF(t), int_like(t))):
        I.raise_(TypeError)
    return VBool(z3.And(PyVal.is_PF(t), isnan_f(t)))


def b_fromordinal(I, f, args, kw):
    x = args[0]
    t = x.t if isinstance(x, VInt) else toint(to_pyval(x))
    return VAny(PyVal.PD(t))


def b_opaque(tag):
    def h(I, f, args, kw):
        return VOpaque(tag)
    return h


BUILTINS = {
    'isinstance': b_isinstance, 'issubclass': b_issubclass, 'type': b_type, 'len': b_len,
    'range': b_range, 'zip': b_zip, 'enumerate': b_enumerate,
    'sum': b_reduction('sum'), 'min': b_reduction('min'), 'max': b_reduction('max'),
    'any': b_any_all('any'), 'all': b_any_all('all'),
    'getattr': b_getattr, 'symmethod': b_symmethod, 'hasattr': b_hasattr, 'id': b_id,
    'hash': b_hash, 'callable': b_callable, 'iter': b_iter, 'next': b_next, 'repr': b_repr,
    'reader': b_csv_reader, 'sorted': b_sorted, 'reversed': b_reversed, 'abs': b_abs, 'print': b_print,
    'combine': b_combine, 'isfinite': b_isfinite, 'fromordinal': b_fromordinal, 'isnan': b_isnan, 'time': b_opaque('time'),
}

"""usage: python3 set_expl.py Cxx <file with the new explanation text>  (rewrites vconfig.PROPS[Cxx]['explanation'] safely)"""
import ast, sys, re
pid, path = sys.argv[1], sys.argv[2]
text = ' '.join(open(path).read().split())
src = open('/verif/vconfig.py').read()
tree = ast.parse(src)
target = None
for node in ast.walk(tree):
    if isinstance(node, ast.Dict):
        for k, v in zip(node.keys, node.values):
            if isinstance(k, ast.Constant) and k.value == pid and isinstance(v, ast.Dict):
                for k2, v2 in zip(v.keys, v.values):
                    if isinstance(k2, ast.Constant) and k2.value == 'explanation':
                        target = v2
assert target is not None, 'property not found'
lines = src.splitlines(keepends=True)
start = sum(len(l) for l in lines[:target.lineno - 1]) + target.col_offset
end = sum(len(l) for l in lines[:target.end_lineno - 1]) + target.end_col_offset
new = src[:start] + repr(text) + src[end:]
ast.parse(new)
open('/verif/vconfig.py', 'w').write(new)
print('ok', pid, len(text))

"""One-off helper: (re)generate known_findings.json from the curated list below.
The check never writes this file at run time."""
import json, subprocess
log = subprocess.run(['git', '-C', '/repo', 'log', '--format=%h %s'], capture_output=True, text=True).stdout.splitlines()
def sha(prefix):
    for l in log:
        if l.split(' ', 1)[1].startswith(prefix):
            return l.split()[0]
    raise KeyError(prefix)
FIXED = [
 ('C04', 'fix: infer_dtype no longer', 'Vector([None, 1]) inferred object? while [1, None] inferred int? (C04:typing.infer_dtype:loop[infer_dtype_inv], C04:infer_dtype:set-join:leading-none)'),
 ('C06', 'fix: validate_scalar accepts any value for object', 'validate_scalar rejected every value for object columns; fillna(x) on an object vector raised (C08:typing.validate_scalar:raises[TypeError]:if)'),
 ('C07', 'fix: Vector.copy keeps an empty', 'v[2:2] / v[5:9] returned the whole vector (C07:vector.Vector.copy:post, C07:Vector.getitem:empty-slice)'),
 ('C07', 'fix: multi-column selection', "t['a','missing'] dropped the missing column; t['A','b'] dropped 'A' (C07:Table.getitem.names:missing-name-accepted, :case-variant-name-dropped)"),
 ('C05', 'fix: unary operators propagate', '-Vector([1,None]) raised; -Vector([True]) labelled bool (C05:vector.Vector._unary_operation:post, C03:Vector.__neg__:truthful, C06:Vector.__neg__:none-element-raises)'),
 ('C03', 'fix: reflected addition infers', '2.5 + Vector([1,2]) labelled int (C05:vector.Vector.__radd__:post, C03:Vector.__radd__.scalar:truthful)'),
 ('C03', 'fix: << concatenation promotes', 'Vector([1,2]) << [2.5] labelled int; << None kept non-nullable (C03:Vector.__lshift__:*:truthful)'),
 ('C03', 'fix: to_object keeps nullability', 'Vector([1,None]).to_object() non-nullable holding None (C03:Vector.to_object:truthful)'),
 ('C06', 'fix: max() and min() skip None', 'Vector([1,None,3]).max() raised TypeError (C06:vector.Vector.max:post, C06:Vector.max:none-not-skipped, C12:Vector.max:whole-column:raises:none-present)'),
 ('C06', 'fix: dropna on an empty untyped', 'Vector([]).dropna() raised AttributeError (C06:vector.Vector.dropna:unexpected-exception[AttributeError])'),
 ('C05', 'fix: date vector + timedelta', "dates + timedelta raised AttributeError: super().add (C05:_Date.__add__.scalar:raised-AttributeError)"),
 ('C05', 'fix: date vector + empty untyped vector', 'dates[[False]] + Vector([]) dereferenced a None dtype (C05:_Date.__add__.vector:raised-AttributeError-empty)'),
 ('C06', 'fix: date vector comparisons', "date-vector comparisons: None not False, datetime operands raised (C06:_Date.compare.*:none-position-not-false, C07:_Date.compare.datetime-scalar:raised-TypeError)"),
 ('C11', 'fix: left join enforces', "L.join(R) with repeated left keys raised under the default expect, 'one_to_many' accepted them (C11:table.Table.join:post, C11:join:left-dup-default-expect)"),
 ('C14', 'fix: Vector.sort_by keeps None', 'Vector([3,None,1]).sort_by(reverse=True) put None first (C14:Vector.sort_by:none-placement:reverse)'),
 ('C08', 'fix: assignment examines every new value', "v[0]=None stayed non-nullable; v[0:2]=[1.5,'x'] accepted 'x'; Vector([True])[0]=5 rejected (C08:Vector.setitem.decision:*)"),
 ('C01', 'fix: attribute assignment stores a snapshot', 't.a = v; v[0] = 100 changed t and renamed v (C01:table.Table.__setattr__:fresh-column, :frame@_name)'),
 ('C15', 'fix: column replacement re-registers', 'Table.__setattr__ swapped storage without unregister/register: stale registry entry (C15:table.Table.__setattr__:bracket)'),
 ('C16', 'fix: column replacement drops', 'fingerprint cached before t.col = v was returned afterwards (C16:table.Table.__setattr__:memo-dropped)'),
 ('C02', 'fix: Table() rejects columns', 'Table([Vector([1,2]),Vector([1])]) stored ragged, shape (2,2) (C02:Table.ctor:ragged-accepted)'),
 ('C15', 'fix: Vector(...) of vectors initialises', 'Table returned by Vector.__new__ initialised twice: stale alias registration, spurious AliasError on fresh vectors (C15:vector.Vector.__new__:no-reinit)'),
 ('C16', 'fix: Table.fingerprint() follows', 'Table.fingerprint() unchanged after t.a[0] = 99 (C16:table.Table.fingerprint:owner-coherent)'),
 ('C17', 'fix: accessor map is refreshed', "after c = t['a']; c.name = 'z': t[0,'z']=5 raised, t[0].z raised (C17:table.*:map-fresh)"),
 ('C19', 'fix: read_csv of a header-only', "read_csv(StringIO('a,b\\n')) raised TypeError (C19:read_csv:header-only-raises)"),
 ('C20', 'fix: repr of float vectors', 'repr(Vector([1.0, nan])) raised ValueError (C20:display._format_column:unexpected-exception[ValueError])'),
 ('C20', 'fix: repr preview with a head', 'set_repr_rows(1): ellipsis then every row (C20:display._format_column:ensures)'),
 ('C20', 'fix: repr no longer confuses', "an element equal to '...' printed as the ellipsis; vector of ragged vectors raised in == (C20:Vector.repr:element-shown-as-ellipsis)"),
 ('C20', 'fix: repr of an empty vector', "repr(Vector([])) was '# empty (repr not yet implemented)' (C20:Vector.repr:empty-vector-footer)"),
 ('C17', 'fix: accessor names that merely look', "Table({'cols':[1]}).cols_ raised AttributeError although dir() advertises it (C17:getattr:advertised-unresolved:col-prefix)"),
 ('C17', 'fix: dir(table) keeps', 'dir(t) after a view rename made the stale map permanent (C17:getattr-after-dir:*:after-view-rename)'),
 ('C03', 'fix: cast(date) converts', 'Vector([datetime]).cast(date) labelled date holding datetimes (C03:Vector.cast:date:wrong-kind)'),
 ('C04', 'fix: promotion places subclass', '[True, IntEnum.A] inferred bool, [IntEnum.A, True] int (C03:infer:wrong-kind)'),
 ('C20', 'fix: repr with column or vector names', 'repr(Table({0:[1]})) / repr(Vector([1], name=5)) raised AttributeError (C20:*:raises:name:non-str)'),
 ('C18', 'fix: scalar-op-table arithmetic', '2 - t dropped column names, 2 + t returned a transposed unnamed result (C18:Table.scalar-op-table:*)'),
 ('C08', 'fix: empty vectors never refuse', 'v[0:0] = [] raised AliasError while another empty vector was alive (C08:Vector.setitem:spurious-AliasError-empty)'),
 ('C03', 'fix: validate_scalar accepts instances of subclasses', 'Vector([IntEnum.A]) refused to have its own element written back (C03:*:write-back-rejected)'),
 ('C02', 'fix: row views of tables whose', "iterating Table({'a': [], 'b': []}) raised AttributeError (C02:Table.iter:raises-on-zero-row)"),
 ('C01', 'fix: >> rejects a column', 'v >> [7, 8] (unequal length) returned a vector holding v itself: later writes through v showed through it (C01:leak:Vector.rshift~nested-vector, C03:Vector.rshift-*:truthful)'),
 ('C15', 'fix: concatenating nothing no longer shares', 'v << [] / [] << v / v << Vector([]) returned a result holding the operand\'s own tuple: the next write to either raised AliasError (C15:vector.Vector.__lshift__:fresh-storage)'),
 ('C17', 'fix: repr dot row of wide tables', 'dot row of a >10-column table showed the plain accessor for a duplicate whose first occurrence was elided (C17:repr-dot-row:mismatch:wide:first-occurrence-elided)'),
]
KNOWN = [
 {'property': 'C16', 'status': 'known', 'key': 'C16:fingerprint:mod-p-residue',
  'what': "fingerprint cannot tell apart element hashes that differ by a multiple of 2**61-1 (e.g. 1 and 1-(2**61-1), which Python's hash() does distinguish): inherent to a 61-bit rolling digest, not repairable without changing the fingerprint function; identified by that input class only (lemma fingerprint-inject states the exact condition)"},
]
out = {'comment': 'fixed entries suppress nothing; known entries are matched on the failure key (obligation name or stand-in key), never on the property id',
       'findings': KNOWN + [{'property': p, 'status': 'fixed', 'commit': sha(pre), 'what': w,
                             'line': f'fixed: property={p} {sha(pre)} {w}'} for p, pre, w in FIXED]}
json.dump(out, open('/verif/known_findings.json', 'w'), indent=1)
print(len(FIXED), 'fixed,', len(KNOWN), 'known')

"""Development gate: every catalogue mutant must be rejected by a named obligation, and the
unmodified scratch copy must pass.  Scratch copies live under mktemp and are removed."""
import os, sys, shutil, subprocess, tempfile, json
from concurrent.futures import ThreadPoolExecutor
HERE = os.path.dirname(os.path.abspath(__file__))
sys.path.insert(0, HERE)
from mutants.catalogue import M

RUNNER = r'''
import sys, json, os
sys.path.insert(0, %r); sys.path.insert(0, os.environ['SERIF_SRC'])
from vconfig import SIDECARS
import importlib
for m in SIDECARS: importlib.import_module(m)
from pyvc import contract as C
flt = sys.argv[1]
out = []
for c in C.all_contracts() + C.LEMMAS:
    if flt not in (c.qual + '#' + str(getattr(c, 'variant', ''))): continue
    rep = C.verify_contract(c)
    bad = [(o.name, o.status) for o in rep.obligations if o.status != 'discharged']
    out.append({'qual': c.qual, 'n': len(rep.obligations), 'bad': bad[:3], 'error': rep.error})
print('OUT ' + json.dumps(out))
''' % HERE


def run_one(m):
    name, fname, old, new, flt, prop = m
    d = tempfile.mkdtemp(prefix='serif_mut_')
    try:
        shutil.copytree(os.environ.get('SERIF_SRC', '/repo/src'), os.path.join(d, 'src'))
        p = os.path.join(d, 'src', 'serif', fname)
        s = open(p).read()
        if name != '__clean__':
            if s.count(old) != 1:
                return name, 'PATCH-DOES-NOT-APPLY', None
            open(p, 'w').write(s.replace(old, new))
        env = dict(os.environ, SERIF_SRC=os.path.join(d, 'src'))
        r = subprocess.run(['python3-vt', '-c', RUNNER, flt], env=env, capture_output=True, text=True, cwd=HERE)
        line = [l for l in r.stdout.splitlines() if l.startswith('OUT ')]
        if not line:
            return name, 'RUNNER-FAILED', r.stderr[-500:]
        out = json.loads(line[0][4:])
        detected = any(o['bad'] or o['error'] for o in out)
        refuted = any(any(st == 'refuted' for _, st in o['bad']) for o in out)
        return name, ('refuted' if refuted else 'undecided' if detected else 'MISSED'), out
    finally:
        shutil.rmtree(d, ignore_errors=True)


if __name__ == '__main__':
    only = sys.argv[1:]
    ms = [m for m in M if not only or any(o in m[0] for o in only)]
    with ThreadPoolExecutor(8) as ex:
        res = list(ex.map(run_one, ms))
    missed = 0
    for name, st, out in res:
        print(f'{name:40s} {st}', '' if st in ('refuted',) else (json.dumps(out)[:300] if out else ''))
        missed += st in ('MISSED', 'PATCH-DOES-NOT-APPLY', 'RUNNER-FAILED')
    print('missed:', missed, 'of', len(res))
    sys.exit(1 if missed else 0)

"""C02 bounded stand-in: tables stay rectangular; row views agree with column views.

A case is a root table (<= 3x3, built by one constructor form, including attempts to build a
ragged table) followed by <= 2 (quick) / <= 3 (thorough) steps.  Every step is one python statement
over the live tables (t0 and results r1, r2, r3).  NR / NC in a statement are the row / column
counts of the step's target read from its columns just before the step (so that right- and
wrong-sized operands can be built for any reachable table).

After every step, for every live table:
  I1  every column has the same length and that length is len(t)
  I2  t.shape == (rows, columns)
  I3  list(t[i]) and the i-th row of iteration equal [column[i] for column in columns]
and for the structural operations named in the statement the result cells are compared with cells
computed from the pre-state on plain lists (>> keeps old cells and appends, << appends to every
column, slices / masks apply to every column, T transposes and T.T gives back the cells, cell / row /
column / attribute assignment change exactly the addressed cells).  A step that raises is a
rejection (never a failure); the invariants must still hold afterwards.

Late alphabet (quick tier: only as the LAST step of a history; thorough: anywhere): `<<` rows whose cells
are falsy / empty values ('' b'' None 0 0.0 False [] (), alone and mixed with truthy cells: the row must
land in EVERY column) and attribute / indexed-attribute assignment of UNSIZED iterables (generator, map,
zip, iter(list)) of the right and of the wrong length.  For every attribute assignment whose value has
the wrong length the step must raise and leave cells and names as they were; an unsized value of the
right length must be accepted like the list form.
"""
from harness import *  # noqa

ROOTS = {
    't33': "Table({'a': [1, 2, 3], 'b': [4, 5, 6], 'c': [7, 8, 9]})",
    't32': "Table({'a': [1, 2, 3], 'b': [4, 5, 6]})",
    't23': "Table({'a': [1, 2], 'b': [4, 5], 'c': [7, 8]})",
    't22-list': "Table([Vector([1, 2], name='a'), Vector([4, 5], name='b')])",
    't22-rshift': "Vector([1, 2], name='a') >> Vector([4, 5], name='b')",
    't22-dupnames': "Table([Vector([1, 2], name='a'), Vector([4, 5], name='a')])",
    't22-mixed': "Table({'a': [1, 2], 'b': ['x', 'y']})",
    't31': "Table({'a': [1, 2, 3]})",
    't13': "Table({'a': [1], 'b': [4], 'c': [7]})",
    't11': "Table({'a': [1]})",
    't02': "Table({'a': [], 'b': []})",
    't02-sliced': "Table({'a': [1, 2], 'b': [4, 5]})[[False, False]]",
    't00': "Table([])",
    # attempts to build a ragged table: must be rejected or come out rectangular
    'ragged-list-short-second': "Table([Vector([1, 2], name='a'), Vector([1], name='b')])",
    'ragged-list-short-first': "Table([Vector([1], name='a'), Vector([1, 2], name='b')])",
    'ragged-list-empty-second': "Table([Vector([1, 2], name='a'), Vector([], name='b')])",
    'ragged-dict': "Table({'a': [1, 2], 'b': [1]})",
    'ragged-dict-3': "Table({'a': [1, 2, 3], 'b': [1, 2, 3], 'c': [1, 2]})",
    'ragged-tuple': "Table((Vector([1, 2, 3]), Vector([1, 2])))",
}
ROOT_OP = {k: ('Table.ctor-dict' if 'dict' in k else 'Table.ctor-list') for k in ROOTS if k.startswith('ragged')}
QUICK_L2_ROOTS = ['t33', 't22-rshift', 't22-dupnames', 't02', 'ragged-list-short-second']
THOROUGH_L3_ROOTS = ['t32', 't22-rshift', 'ragged-list-short-second']


# --------------------------------------------------------------------------------------------
# expected cells on plain lists.  m = list of columns (each a list); return None = no expectation
# --------------------------------------------------------------------------------------------
def _nr(m):
    return len(m[0]) if m else 0


def _tr(m):
    if not m or not m[0]:
        return None
    return [[m[c][r] for c in range(len(m))] for r in range(len(m[0]))]


def _set(m, r, c, v):
    if not (0 <= c < len(m) and -len(m[c]) <= r < len(m[c])):
        return None
    m = [list(col) for col in m]
    m[c][r] = v
    return m


def _col_by_name(names, n):
    return names.index(n) if n in names else None


def _setcol(m, names, n, vals):
    c = _col_by_name(names, n)
    if c is None or len(vals) != _nr(m):
        return None
    m = [list(col) for col in m]
    m[c] = list(vals)
    return m


def _mask(NR):
    return [i % 2 == 0 for i in range(NR)]


# (name, template, result?, core, expected(m, names, NR, NC) -> cells | None)
#   result ops: expectation about the RESULT; write ops: expectation about the TARGET afterwards
D = [
    ('Table.rshift-list', '{x} >> [9] * NR', 1, lambda m, nm, NR, NC: m + [[9] * NR] if NC else None),
    ('Table.rshift-list-long', '{x} >> [9] * (NR + 1)', 1, None),
    ('Table.rshift-list-short', '{x} >> [9] * (NR - 1)', 0, None),
    ('Table.rshift-vector', "{x} >> Vector([9] * NR, name='n')", 1, lambda m, nm, NR, NC: m + [[9] * NR] if NC else None),
    ('Table.rshift-vector-long', "{x} >> Vector([9] * (NR + 1), name='n')", 0, None),
    ('Table.rshift-dict', "{x} >> {{'n': [9] * NR}}", 1, lambda m, nm, NR, NC: m + [[9] * NR] if NC else None),
    ('Table.rshift-dict-dupname', "{x} >> {{'a': [9] * NR}}", 0, lambda m, nm, NR, NC: m + [[9] * NR] if NC else None),
    ('Table.rshift-dict-long', "{x} >> {{'n': [9] * (NR + 1)}}", 1, None),
    ('Table.rshift-dict-two', "{x} >> {{'n': [9] * NR, 'k': [8] * NR}}", 0, lambda m, nm, NR, NC: m + [[9] * NR, [8] * NR] if NC else None),
    ('Table.rshift-dict-two-ragged', "{x} >> {{'n': [9] * NR, 'k': [8] * (NR + 1)}}", 0, None),
    ('Table.rshift-table', '{x} >> {x}', 0, lambda m, nm, NR, NC: m + m if NC else None),
    ('Table.rshift-table-long', "{x} >> Table({{'k': [9] * (NR + 1), 'j': [9] * (NR + 1)}})", 0, None),
    ('Table.lshift-row', '{x} << [8] * NC', 1, lambda m, nm, NR, NC: [c + [8] for c in m] if NC else None),
    ('Table.lshift-row-long', '{x} << [8] * (NC + 1)', 1, None),
    ('Table.lshift-row-short', '{x} << [8] * (NC - 1)', 0, None),
    ('Table.lshift-table', '{x} << {x}', 0, lambda m, nm, NR, NC: [c + c for c in m] if NC else None),
    ('Table.lshift-table-wide', '{x} << ({x} >> [9] * NR)', 0, None),
    ('Table.getitem-slice', '{x}[0:2]', 1, lambda m, nm, NR, NC: [c[0:2] for c in m] if NC else None),
    ('Table.getitem-slice-tail', '{x}[1:]', 0, lambda m, nm, NR, NC: [c[1:] for c in m] if NC else None),
    ('Table.getitem-slice-empty', '{x}[1:1]', 1, lambda m, nm, NR, NC: [[] for c in m] if NC else None),
    ('Table.getitem-slice-step', '{x}[::2]', 0, lambda m, nm, NR, NC: [c[::2] for c in m] if NC else None),
    ('Table.getitem-slice-reverse', '{x}[::-1]', 0, lambda m, nm, NR, NC: [c[::-1] for c in m] if NC else None),
    ('Table.getitem-mask', '{x}[[i % 2 == 0 for i in range(NR)]]', 1,
     lambda m, nm, NR, NC: [[v for v, k in zip(c, _mask(NR)) if k] for c in m] if NC else None),
    ('Table.getitem-mask-none', '{x}[[False] * NR]', 0, lambda m, nm, NR, NC: [[] for c in m] if NC else None),
    ('Table.getitem-mask-long', '{x}[[True] * (NR + 1)]', 0, None),
    ('Table.getitem-select', "{x}['b', 'a']", 1,
     lambda m, nm, NR, NC: [m[nm.index('b')], m[nm.index('a')]] if nm.count('a') == 1 and nm.count('b') == 1 else None),
    ('Table.getitem-region', '{x}[0:2, 0:2]', 0, lambda m, nm, NR, NC: [c[0:2] for c in m[0:2]] if NC >= 2 and NR >= 2 else None),
    ('Table.getitem-indexvec', '{x}[Vector([0, 0])]', 0, lambda m, nm, NR, NC: [[c[0], c[0]] for c in m] if NR and NC else None),
    ('Table.inner_join-self', "{x}.inner_join({x}, 'a', 'a')", 1, None),
    ('Table.join-literal', "{x}.join(Table({{'a': [1, 5], 'k': [0, 0]}}), 'a', 'a')", 0, None),
    ('Table.full_join-literal', "{x}.full_join(Table({{'a': [1, 1, 5], 'k': [0, 0, 0]}}), 'a', 'a')", 0, None),
    ('Table.sort_by', "{x}.sort_by('a', reverse=True)", 1, None),
    ('Table.T', '{x}.T', 1, lambda m, nm, NR, NC: _tr(m)),
    ('Table.copy', '{x}.copy()', 0, lambda m, nm, NR, NC: m if NC else None),
    ('Table.add-scalar', '{x} + 1', 0, None),
    ('Table.aggregate', "{x}.aggregate(over='a', sum_over='a')", 0, None),
    ('Table.window', "{x}.window(over='a', sum_over='a')", 0, None),
]
W = [
    ('Table.setitem-cell', '{x}[0, 0] = 5', 1, lambda m, nm, NR, NC: _set(m, 0, 0, 5)),
    ('Table.setitem-cell-last', '{x}[NR - 1, NC - 1] = 5', 0, lambda m, nm, NR, NC: _set(m, NR - 1, NC - 1, 5) if NR else None),
    ('Table.setitem-cell-oob', '{x}[NR, 0] = 5', 0, None),
    ('Table.setitem-row', '{x}[0, :] = [5] * NC', 1,
     lambda m, nm, NR, NC: [[5] + c[1:] for c in m] if NR and NC else None),
    ('Table.setitem-row-long', '{x}[0, :] = [5] * (NC + 1)', 0, None),
    ('Table.setitem-column', "{x}[:, 'a'] = [5] * NR", 1,
     lambda m, nm, NR, NC: _setcol(m, nm, 'a', [5] * NR) if nm.count('a') == 1 else None),
    ('Table.setitem-column-long', "{x}[:, 'a'] = [5] * (NR + 1)", 1, None),
    ('Table.setitem-column-index', '{x}[:, 0] = [5] * NR', 0, None),
    ('Table.setitem-region', "{x}[0:2, 0:2] = Table({{'p': [0, 0], 'q': [1, 1]}})", 0, None),
    ('Table.setitem-region-tall', "{x}[0:2, 0:2] = Table({{'p': [0, 0, 0], 'q': [1, 1, 1]}})", 0, None),
    ('Table.setattr-list', '{x}.a = [5] * NR', 1,
     lambda m, nm, NR, NC: _setcol(m, nm, 'a', [5] * NR) if nm.count('a') == 1 else None),
    ('Table.setattr-list-long', '{x}.a = [5] * (NR + 1)', 1, None),
    ('Table.setattr-list-short', '{x}.a = [5] * (NR - 1)', 0, None),
    ('Table.setattr-vector', '{x}.a = Vector([5] * NR)', 0,
     lambda m, nm, NR, NC: _setcol(m, nm, 'a', [5] * NR) if nm.count('a') == 1 else None),
    ('Table.setattr-vector-long', '{x}.a = Vector([5] * (NR + 1))', 1, None),
    ('Table.setattr-vector-empty', '{x}.a = Vector([])', 0, None),
    ('Table.setattr-indexed', '{x}.a__0 = [5] * NR', 0, None),
    ('Table.setattr-indexed-long', '{x}.a__0 = [5] * (NR + 1)', 1, None),
    ('Table.setattr-table', "{x}.a = Table({{'p': [0] * NR, 'q': [1] * NR}})", 0, None),
    ('Table.rename_column-dup', "{x}.rename_column('a', 'b')", 1, lambda m, nm, NR, NC: m if 'a' in nm else None),
    ('Table.view-setitem', '{x}.a[0] = 5', 0, None),
]


def _lsh(cell):
    return lambda m, nm, NR, NC: [c + [cell] for c in m] if NC else None


def _lsh_first(first, rest):
    return lambda m, nm, NR, NC: [c + [first if i == 0 else rest] for i, c in enumerate(m)] if NC else None


def _lsh_last(rest, last):
    return lambda m, nm, NR, NC: [c + [last if i == NC - 1 else rest] for i, c in enumerate(m)] if NC else None


D_LATE = [
    ('Table.lshift-row-falsy-str', "{x} << [''] * NC", 0, _lsh('')),
    ('Table.lshift-row-falsy-bytes', "{x} << [b''] * NC", 0, _lsh(b'')),
    ('Table.lshift-row-falsy-none', '{x} << [None] * NC', 0, _lsh(None)),
    ('Table.lshift-row-falsy-zero', '{x} << [0] * NC', 0, _lsh(0)),
    ('Table.lshift-row-falsy-zero-float', '{x} << [0.0] * NC', 0, _lsh(0.0)),
    ('Table.lshift-row-falsy-false', '{x} << [False] * NC', 0, _lsh(False)),
    ('Table.lshift-row-falsy-first', "{x} << [''] + [8] * (NC - 1)", 0, _lsh_first('', 8)),
    ('Table.lshift-row-falsy-rest', '{x} << [8] + [0] * (NC - 1)', 0, _lsh_first(8, 0)),
    ('Table.lshift-row-falsy-last-none', '{x} << [8] * (NC - 1) + [None]', 0, _lsh_last(8, None)),
    ('Table.lshift-row-tuple', "{x} << tuple([''] * NC)", 0, _lsh('')),
    ('Table.lshift-row-generator', '{x} << (0 for _ in range(NC))', 0, None),           # unsized row: cells not decided here
    # an empty list / tuple as a cell: the statement does not say whether it is a cell or an empty chunk of rows;
    # whatever comes out must be rectangular (invariants only)
    ('Table.lshift-row-empty-list-cells', '{x} << [[]] * NC', 0, None),
    ('Table.lshift-row-empty-list-cell-last', '{x} << [8] * (NC - 1) + [[]]', 0, None),
    ('Table.lshift-row-empty-tuple-cell-first', '{x} << [()] + [8] * (NC - 1)', 0, None),
]


def _seta(vals):
    return lambda m, nm, NR, NC: _setcol(m, nm, 'a', vals(NR)) if nm.count('a') == 1 else None


def _seta0(vals):
    def f(m, nm, NR, NC):
        if not nm or nm[0] != 'a' or len(vals(NR)) != NR:
            return None
        m = [list(col) for col in m]
        m[0] = list(vals(NR))
        return m
    return f


def _n(k, v=5):
    return lambda NR: [v] * max(NR + k, 0)


W_LATE = [
    ('Table.setattr-generator', '{x}.a = (5 for _ in range(NR))', 0, _seta(_n(0))),
    ('Table.setattr-generator-long', '{x}.a = (5 for _ in range(NR + 1))', 0, _seta(_n(1))),
    ('Table.setattr-generator-short', '{x}.a = (5 for _ in range(NR - 1))', 0, _seta(_n(-1))),
    ('Table.setattr-map', '{x}.a = map(int, [5] * NR)', 0, _seta(_n(0))),
    ('Table.setattr-map-long', '{x}.a = map(int, [5] * (NR + 1))', 0, _seta(_n(1))),
    ('Table.setattr-zip', '{x}.a = zip([5] * NR)', 0, _seta(_n(0, (5,)))),
    ('Table.setattr-zip-long', '{x}.a = zip([5] * (NR + 1))', 0, _seta(_n(1, (5,)))),
    ('Table.setattr-iter', '{x}.a = iter([5] * NR)', 0, _seta(_n(0))),
    ('Table.setattr-iter-long', '{x}.a = iter([5] * (NR + 1))', 0, _seta(_n(1))),
    ('Table.setattr-iter-short', '{x}.a = iter([5] * (NR - 1))', 0, _seta(_n(-1))),
    ('Table.setattr-iter-empty', '{x}.a = iter([])', 0, _seta(lambda NR: [])),
    ('Table.setattr-indexed-generator', '{x}.a__0 = (5 for _ in range(NR))', 0, _seta0(_n(0))),
    ('Table.setattr-indexed-generator-long', '{x}.a__0 = (5 for _ in range(NR + 1))', 0, _seta0(_n(1))),
    ('Table.setattr-indexed-generator-short', '{x}.a__0 = (5 for _ in range(NR - 1))', 0, _seta0(_n(-1))),
    ('Table.setattr-indexed-iter', '{x}.a__0 = iter([5] * NR)', 0, _seta0(_n(0))),
    ('Table.setattr-indexed-iter-long', '{x}.a__0 = iter([5] * (NR + 1))', 0, _seta0(_n(1))),
    ('Table.setattr-indexed-map-long', '{x}.a__0 = map(int, [5] * (NR + 1))', 0, _seta0(_n(1))),
    ('Table.setattr-indexed-zip-long', '{x}.a__0 = zip([5] * (NR + 1))', 0, _seta0(_n(1))),
]
# length of the value handed to an attribute assignment (as a function of NR); != NR means: must be rejected
SETATTR_LEN = {
    'Table.setattr-list': lambda NR: NR, 'Table.setattr-list-long': lambda NR: NR + 1,
    'Table.setattr-list-short': lambda NR: max(NR - 1, 0), 'Table.setattr-vector': lambda NR: NR,
    'Table.setattr-vector-long': lambda NR: NR + 1, 'Table.setattr-vector-empty': lambda NR: 0,
    'Table.setattr-indexed': lambda NR: NR, 'Table.setattr-indexed-long': lambda NR: NR + 1,
    'Table.setattr-iter-empty': lambda NR: 0,
}
for _op, _t, _c, _e in W_LATE:
    if _op not in SETATTR_LEN:
        SETATTR_LEN[_op] = (lambda k: (lambda NR: max(NR + k, 0)))(1 if _op.endswith('-long') else -1 if _op.endswith('-short') else 0)
UNSIZED = {o[0] for o in W_LATE}
# variants of one call site / one input class share a key
KEY_OP = {o[0]: ('Table.setattr-indexed-unsized' if 'indexed' in o[0] else 'Table.setattr-unsized') for o in W_LATE}
KEY_OP.update({o[0]: 'Table.lshift-row-falsy' for o in D_LATE if '-falsy-' in o[0]})
KEY_OP.update({o[0]: 'Table.lshift-row-empty-cell' for o in D_LATE if '-empty-' in o[0]})


def _steps(names, k, core, late=False):
    R = f'r{k}'
    out = []
    for x in names:
        for op, tmpl, c, exp in D:
            if c or not core:
                out.append({'op': op, 'src': f'{R} = ' + tmpl.format(x=x), 'tgt': x, 'res': R})
        for op, tmpl, c, exp in W:
            if c or not core:
                out.append({'op': op, 'src': tmpl.format(x=x), 'tgt': x})
        if late == 'full' or (late == 'l2' and x == names[-1]):
            for op, tmpl, c, exp in D_LATE:
                if late == 'full' or op in LATE_L2:
                    out.append({'op': op, 'src': f'{R} = ' + tmpl.format(x=x), 'tgt': x, 'res': R})
            for op, tmpl, c, exp in W_LATE:
                if late == 'full' or op in LATE_L2:
                    out.append({'op': op, 'src': tmpl.format(x=x), 'tgt': x})
    return out


# quick tier, histories of length 2: one representative per input class, applied to the newest table only
LATE_L2 = {'Table.lshift-row-falsy-str', 'Table.lshift-row-falsy-none', 'Table.lshift-row-falsy-rest',
           'Table.lshift-row-empty-list-cell-last', 'Table.setattr-generator', 'Table.setattr-generator-long',
           'Table.setattr-iter-long', 'Table.setattr-zip', 'Table.setattr-indexed-generator-long', 'Table.setattr-indexed-iter'}


EXPECT = {op: exp for op, tmpl, c, exp in D + W + D_LATE + W_LATE}


def _histories(n, core, late='last'):
    """late: 'last' = the late alphabet only in the last position (histories of length >= 2: the LATE_L2 subset on
    the newest table), 'all' = the whole late alphabet everywhere, None = never."""
    def rec(names, k, prefix):
        mode = 'full' if late == 'all' else (('full' if n == 1 else 'l2') if late == 'last' and k == n else False)
        for st in _steps(names, k, core, mode):
            if k == n:
                yield prefix + [st]
            else:
                yield from rec(names + [st['res']] if 'res' in st else names, k + 1, prefix + [st])
    yield from rec(['t0'], 1, [])


def cases(tier, seed):
    for r in ROOTS:
        yield {'root': r, 'hist': []}
    plan = [(1, False, list(ROOTS), 'last'), (2, False, QUICK_L2_ROOTS, 'last')] if tier == 'quick' else \
           [(1, False, list(ROOTS), 'last'), (2, False, list(ROOTS), 'all'), (3, True, THOROUGH_L3_ROOTS, 'last')]
    for n, core, roots, late in plan:
        for h in _histories(n, core, late):
            for r in roots:
                yield {'root': r, 'hist': h}


# --------------------------------------------------------------------------------------------
def _truthful(o):
    """harness.truthful, robust against values whose repr raises while the message is rendered."""
    try:
        return truthful(o)
    except Exception as e:
        return f'dtype does not describe the contents (rendering the offending value raised {type(e).__name__})'


_CODE = {}


def _compiled(src):
    c = _CODE.get(src)
    if c is None:
        c = _CODE[src] = compile(src, '<history>', 'exec')
    return c


_G = dict(NS)


def cells(t):
    """Column reads of a table as plain lists (None when the columns are not plain vectors)."""
    cols = t.cols()
    if not all(isinstance(c, Vector) and not isinstance(c, Table) for c in cols):
        return None
    return [list(c) for c in cols]


def _eq_cells(a, b):
    return len(a) == len(b) and all(same(x, y) for x, y in zip(a, b))


def check_table(t, op, hist, fails):
    """Invariants I1-I3 on one table.  Returns False when the table is ragged (then it is tainted)."""
    m = cells(t)
    if m is None:
        return False          # nested table: outside the <= 3x3 scalar-cell scope
    lens = [len(c) for c in m]
    try:
        n = len(t)
    except Exception as e:
        fails.append(Fail(f'C02:{op}:len-raises', f'{hist}: len(t) raised {type(e).__name__}: {e}'))
        return False
    if len(set(lens)) > 1:
        fails.append(Fail(f'C02:{op}:ragged-stored', f'{hist}: column lengths {lens}', 'one common length', lens))
        return False
    if lens and lens[0] != n:
        fails.append(Fail(f'C02:{op}:len-mismatch', f'{hist}: len(t) = {n} but columns have length {lens[0]}', lens[0], n))
        return False
    try:
        shp = t.shape
    except Exception as e:
        shp = f'raised {type(e).__name__}: {e}'
    if shp != (n, len(m)):
        fails.append(Fail(f'C02:{op}:shape', f'{hist}: shape = {shp}, columns say ({n}, {len(m)})', (n, len(m)), shp))
    want_rows = [[c[i] for c in m] for i in range(n)]
    try:
        it_rows = [list(r) for r in t]
    except Exception as e:
        key = 'C02:Table.iter:raises-on-zero-row' if n == 0 else f'C02:{op}:row-iter-raises'
        if not any(f['key'] == key for f in fails):
            fails.append(Fail(key, f'{hist}: iterating the table raised {type(e).__name__}: {e}', want_rows, None))
        it_rows = None
    if it_rows is not None and not same(it_rows, want_rows):
        fails.append(Fail(f'C02:{op}:row-iter-mismatch', f'{hist}: rows by iteration differ from column reads', want_rows, it_rows))
    for i in range(n):
        try:
            row = list(t[i])
        except Exception as e:
            fails.append(Fail(f'C02:{op}:row-index-raises', f'{hist}: t[{i}] raised {type(e).__name__}: {e}', want_rows[i], None))
            break
        if not same(row, want_rows[i]):
            fails.append(Fail(f'C02:{op}:row-index-mismatch', f'{hist}: list(t[{i}]) differs from column reads', want_rows[i], row))
            break
    return True


def evaluate(case):
    fails = []
    env = {}
    root = case['root']
    try:
        exec(_compiled('t0 = ' + ROOTS[root]), _G, env)
    except Exception:
        return fails          # rejected input: nothing to check
    t0 = env['t0']
    if not isinstance(t0, Table):
        return fails          # did not produce a table at all
    tainted = set()
    op0 = ROOT_OP.get(root, 'root:' + root)
    if not check_table(t0, op0, 't0 = ' + ROOTS[root], fails):
        tainted.add('t0')
    m = _truthful(t0)
    if m and root.startswith('t'):
        fails.append(Fail(f'C03:root:{root}:truthful', m))
    done = ['t0 = ' + ROOTS[root]]
    for st in case['hist']:
        tgt, op = st['tgt'], st['op']
        kop = KEY_OP.get(op, op)
        if tgt not in env:
            break
        x = env[tgt]
        pre = cells(x)
        names = None
        try:
            names = list(x.column_names())
        except Exception:
            pass
        ok_pre = pre is not None and tgt not in tainted and names is not None
        NR = len(pre[0]) if pre else 0
        NC = len(pre) if pre is not None else 0
        env['NR'], env['NC'] = NR, NC
        exc = None
        try:
            exec(_compiled(st['src']), _G, env)
        except Exception as e:
            exc = e
        done.append(st['src'].replace('NR', str(NR)).replace('NC', str(NC)))
        hist = '; '.join(done)
        res = st.get('res')
        if res is not None and (res not in env or not isinstance(env[res], Table)):
            env.pop(res, None)
            res = None
        if res is not None and tgt in tainted:
            tainted.add(res)       # derived from an already ragged table: reported once, at its origin
        # invariants on every live, untainted table
        for n, o in env.items():
            if isinstance(o, Table) and n not in tainted:
                if not check_table(o, kop, hist, fails):
                    tainted.add(n)
        if op in SETATTR_LEN and ok_pre and tgt not in tainted:
            L = SETATTR_LEN[op](NR)
            if L != NR:
                # a column of the wrong length: rejected rather than stored, and nothing changes
                post = cells(x)
                try:
                    names2 = list(x.column_names())
                except Exception:
                    names2 = None
                if exc is None:
                    fails.append(Fail(f'C02:{kop}:wrong-length-accepted',
                                      f'{hist}: a value of length {L} was accepted as a column of a table with {NR} rows', 'rejected', post))
                elif post is None or not _eq_cells(post, pre) or names2 != names:
                    fails.append(Fail(f'C02:{kop}:rejected-but-changed',
                                      f'{hist}: raised {type(exc).__name__} but the table changed', (names, pre), (names2, post)))
            elif exc is not None and op in UNSIZED and NC and \
                    ((names[0] == 'a') if 'indexed' in op else (names.count('a') == 1)):
                fails.append(Fail(f'C02:{kop}:right-length-refused',
                                  f'{hist}: an unsized iterable of exactly {NR} values was refused with {type(exc).__name__}: {exc} '
                                  f'(the list form of the same assignment is accepted)', 'accepted', type(exc).__name__))
        if exc is not None or not ok_pre:
            continue
        exp = EXPECT[op]
        if exp is None:
            continue
        try:
            want = exp(pre, names, NR, NC)
        except Exception:
            want = None
        if want is None:
            continue
        subject = res if 'res' in st else tgt
        if subject is None and kop == 'Table.lshift-row-falsy':
            # a well-formed row of NC scalar cells: it must land in every column (a cell being falsy is no reason to
            # skip a column, which leaves unequal columns, i.e. something that is not a table)
            fails.append(Fail(f'C02:{kop}:result-not-a-table', f'{hist}: appending a row of {NC} scalar cells did not give a table',
                              want, 'not a Table'))
        if subject is None or subject in tainted:
            continue
        got = cells(env[subject])
        if got is not None and op.startswith('Table.getitem-slice') and NR and want and not any(want) and _eq_cells(got, pre):
            fails.append(Fail('C02:Table.getitem-slice:empty-selection-returns-all',
                              f'{hist}: the slice selects no row but {subject} has every row', want, got))
        elif got is None or not _eq_cells(got, want):
            fails.append(Fail(f'C02:{kop}:cells', f'{hist}: cells of {subject} differ from the plain-list computation', want, got))
        elif op == 'Table.T':
            try:
                back = cells(env[subject].T)
            except Exception as e:
                back = f'raised {type(e).__name__}'
            if back is None or isinstance(back, str) or not _eq_cells(back, pre):
                fails.append(Fail('C02:Table.T:double-transpose', f'{hist}: {subject}.T does not give back the cells', pre, back))
        if 'res' in st:
            mm = _truthful(env[subject])
            if mm and not _truthful(x):
                fails.append(Fail(f'C03:{kop}:truthful', f'{hist}: {mm}'))
    return fails


def nontrivial(case):
    if not case['hist']:
        return ('root', case['root'])
    return (case['root'],) + tuple(st['op'] for st in case['hist'])


if __name__ == '__main__':
    main('C02', cases, evaluate,
         rule='every root table (13 rectangular roots from 0x0 to 3x3 incl. zero-row, zero-column, repeated names, mixed '
              'dtypes, three constructor forms; 6 attempts to construct a ragged table) x every history over 37 deriving '
              'operations (>> list/vector/dict/table with right and wrong lengths, << row/table right and wrong widths, '
              'slices incl. empty/stepped/reversed, masks incl. all-false and wrong length, select, region, index vector, '
              'joins, sort, T, copy, math, aggregate, window) and 21 in-place updates (cell, row, column, region, attribute '
              'and indexed-attribute assignment with right/wrong lengths, rename to a repeated name, live column write) '
              'applied to any live table; late alphabet (1-step: all roots; 2-step quick: 10 representatives on the newest table as last '
              'step; thorough: everywhere): 14 `<<` rows with falsy / empty cells (\'\' b\'\' None 0 0.0 False [] (), alone and mixed, '
              'tuple and generator rows) and 18 attribute / indexed-attribute assignments of unsized iterables (generator, map, zip, '
              'iter) of right and wrong length; every wrong-length attribute assignment (sized or unsized) must raise and leave the '
              'table unchanged, an unsized right-length value must be accepted; invariants I1-I3 on every live table after every step + plain-list cell '
              'expectations for the structural operations. distinct = distinct (root, op-name sequence)',
         bound=lambda tier: ({'max_steps': 2, 'roots_len1': len(ROOTS), 'roots_len2': len(QUICK_L2_ROOTS), 'max_shape': '3x3 roots'}
                             if tier == 'quick' else
                             {'max_steps': 3, 'roots_len1': len(ROOTS), 'roots_len2': len(ROOTS),
                              'roots_len3': len(THOROUGH_L3_ROOTS), 'len3_alphabet': 'core subset (23 ops)'}),
         nontrivial=nontrivial)

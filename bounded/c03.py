"""C03 bounded stand-in: the schema a vector reports never lies about its elements.

Scope
-----
All vectors of length <= 3 (quick: <= 2 for the operand-heavy groups bin-scalar / bin-seq / concat / cmp / rshift, <= 3
for the rest; quick also drops, at length 3 only, mask / index-list assignment and Vector-typed masks, and gives the constant
sequences of bin-seq as plain lists only) over the 12-value pool
{None, True, 0, 1, 2.5, 1j, 'a', b'a', date, datetime, Color.RED (IntEnum), Opaque()} and, for every one of them,
every public operation that returns or mutates a vector:
  ctor      Vector(list) / Vector(tuple) / Vector(iterator)
  unary     -v, +v, abs(v), ~v
  bin-scalar v op s and s op v for the 7 arithmetic operators and every pool scalar
  bin-seq   v op seq and seq op v, seq a plain list or a Vector: [s]*n for every pool value, and v's own values reversed
  cmp       ==, !=, <, <=, >, >=, &, |, ^ with every pool scalar
  concat    v << s, v << [s], v << [s, t], v << Vector([s]), s << v, [s] << v
  rshift    v >> Vector / list (columns of the resulting table)
  cast      to int, float, complex, bool, str, bytes, date, datetime, list, tuple
  na        fillna(x) for every pool value, dropna, isna, to_object
  struct    sort_by (reverse x na_last), unique, pluck, T, copy, slices, boolean masks, index lists
  setitem   v[i] = x, v[:] = x, v[mask] = x for every position and every pool value (incl. None), so every
            promotion / rejection path
plus the columns of sort / join / inner_join / full_join / aggregate / window / read_csv results on all two-column
tables over a 9-column-content pool.
  multi     ONE assignment of 2 or 3 values needing several different promotions, every ordered pair (and triple; quick: triples
            on the bool and int? bases only) over {True, 7, 2.5, 1+2j, None} - so [1+2j, 2.5] into int and [2.5, 7] into bool
            in both orders - into bool / int / int? / float / bool? vectors of length 3, through slices (forward, strided,
            reversed), list / Vector masks, index lists / tuples / negative indices / index Vectors, with the values as list,
            Vector (and tuple: thorough); and through a table: t[rows, 'v'], t[rows, 1], t[rows, 1:2] = Table, t[rows, :] = [cols],
            t[rows, ('k', 'v')] = Table
  aggdtype  aggregate and window result columns (sum / mean / min / max / count / stdev alone, all six together, the same
            column requested twice) for 6 key columns x 14 value columns (bool, bool?, int?, float?, all-None, leading
            None, complex?; int and float controls): truthful, write-back, and the reported dtype equals ordinary inference
            on the produced values (one kind -> that kind; numeric mix -> highest rung; nothing but None -> object?;
            nullable iff a None was produced)

Oracle: harness.truthful(result) (every non-None element belongs to the reported kind, None only when nullable) and
the equivalent write-back form: r[i] = r[i] is accepted for every i and leaves r.schema() unchanged.
Operations that raise are outside the quantifier (skipped).  A source or operand vector that already lies (reported by its
own 'ctor' case) is not fed to the other groups, so every reported key names the operation that introduced the lie.  Keys: C03:<call site>:truthful:<class> with class in
{none-in-non-nullable, wrong-kind, int-subclass, no-dtype}; C03:<call site>:write-back-rejected / -changes-dtype;
C03:Table.<aggregate|window>:<fn>:dtype-not-inferred:<kind|nullable-flag>.
"""
import io
import itertools
import operator
from datetime import date, datetime

from harness import *  # noqa
from serif import read_csv

POOL = [None, True, 0, 1, 2.5, 1j, 'a', b'a', date(2020, 1, 1), datetime(2020, 1, 1, 0, 0), Color.RED, Opaque(0)]
ARITH = [('add', operator.add), ('sub', operator.sub), ('mul', operator.mul), ('truediv', operator.truediv),
         ('floordiv', operator.floordiv), ('mod', operator.mod), ('pow', operator.pow)]
CMPS = [('eq', operator.eq), ('ne', operator.ne), ('lt', operator.lt), ('le', operator.le), ('gt', operator.gt),
        ('ge', operator.ge), ('and', operator.and_), ('or', operator.or_), ('xor', operator.xor)]
CAST_TYPES = [int, float, complex, bool, str, bytes, date, datetime, list, tuple]
GROUPS_HEAVY = ['bin-scalar', 'bin-seq', 'concat', 'cmp', 'rshift']
GROUPS_LIGHT = ['ctor', 'unary', 'cast', 'na', 'struct', 'setitem']


def classify(v):
    """Failure class of an untruthful vector (first offending element), or None."""
    try:
        vals = list(v._underlying)
    except Exception:
        return None
    dt = v.schema()
    if dt is None:
        return 'no-dtype' if len(vals) and not all(isinstance(x, Vector) for x in vals) else None
    for x in vals:
        if x is None:
            if not dt.nullable:
                return 'none-in-non-nullable'
        elif not belongs(type(x), dt.kind):
            if isinstance(x, int) and type(x) not in (int, bool) and belongs(int, dt.kind):
                return 'int-subclass'
            return 'wrong-kind'
    return None


def audit(site, r, what, fails, seen):
    """truthful + write-back on a result (vector, or every column of a table)."""
    if isinstance(r, Table):
        for j, c in enumerate(r.cols()):
            if isinstance(c, Vector) and not isinstance(c, Table):
                audit(site, c, f'{what} [column {j}]', fails, seen)
        return
    if not isinstance(r, Vector):
        return
    try:
        if any(isinstance(x, Vector) for x in r._underlying):
            return
    except Exception:
        return
    msg = truthful(r)
    if msg:
        key = f'C03:{site}:truthful:{classify(r) or "other"}'
        if key not in seen:
            seen.add(key)
            fails.append(Fail(key, f'{what}: {msg}', 'truthful schema', repr(r.schema())))
        return
    # write-back form
    dt0 = r.schema()
    for i in range(len(r)):
        try:
            x = r._underlying[i]
            r[i] = x
        except AliasError:
            return                          # refusal for aliasing reasons is C15's business
        except Exception as e:
            key = f'C03:{site}:write-back-rejected'
            if key not in seen:
                seen.add(key)
                fails.append(Fail(key, f'{what}: r[{i}] = r[{i}] ({x!r}) on {dt0!r} raised {type(e).__name__}: {e}', 'accepted',
                                  type(e).__name__))
            return
        if r.schema() != dt0:
            key = f'C03:{site}:write-back-changes-dtype'
            if key not in seen:
                seen.add(key)
                fails.append(Fail(key, f'{what}: r[{i}] = r[{i}] ({x!r}) changed the dtype {dt0!r} -> {r.schema()!r}', dt0, r.schema()))
            return


def attempt(site, thunk, what, fails, seen):
    try:
        r = thunk()
    except Exception:
        return None
    audit(site, r, what, fails, seen)
    return r


def seq_kind(seq):
    return 'vector' if isinstance(seq, Vector) else 'list'


# ---------------------------------------------------------------------------------------------
def run_group(vals, group, lite=False):
    fails, seen = [], set()
    src = f'Vector({lit(vals)})'

    def mk():
        return Vector(list(vals))

    try:
        v0 = mk()
    except Exception:
        return []
    if isinstance(v0, Table) or not isinstance(v0, Vector):
        return []
    n = len(vals)
    if group != 'ctor' and truthful(v0):
        return []          # the source already lies (reported by its 'ctor' case): an operation that merely keeps the lie is not a new finding

    if group == 'ctor':
        audit('infer', mk(), src, fails, seen)
        if not fails:
            # the other construction paths share the inference; only a disagreement with the list path is a finding of theirs
            attempt('infer:tuple', lambda: Vector(tuple(vals)), f'Vector({lit(tuple(vals))})', fails, seen)
            attempt('infer:iterator', lambda: Vector(iter(list(vals))), f'Vector(iter({lit(vals)}))', fails, seen)

    elif group == 'unary':
        for nm, fn in (('neg', operator.neg), ('pos', operator.pos), ('abs', operator.abs), ('invert', operator.invert)):
            attempt(f'Vector.__{nm}__', lambda fn=fn: fn(mk()), f'{nm}({src})', fails, seen)

    elif group == 'bin-scalar':
        for nm, fn in ARITH:
            for s in POOL:
                attempt(f'Vector.__{nm}__:scalar', lambda: fn(mk(), s), f'{src} {nm} {lit(s)}', fails, seen)
                attempt(f'Vector.__r{nm}__:scalar', lambda: fn(s, mk()), f'{lit(s)} {nm} {src}', fails, seen)

    elif group == 'bin-seq':
        seqs = [[s] * n for s in POOL] + [list(reversed(vals))]
        for nm, fn in ARITH:
            for base in seqs:
                for as_vec in ((False,) if (lite and base is not seqs[-1]) else (False, True)):
                    def operand():
                        return Vector(list(base)) if as_vec else list(base)
                    try:
                        o = operand()
                    except Exception:
                        continue
                    if isinstance(o, Table) or truthful(o):
                        continue
                    k = seq_kind(o)
                    attempt(f'Vector.__{nm}__:{k}', lambda: fn(mk(), operand()), f'{src} {nm} {k} {lit(base)}', fails, seen)
                    attempt(f'Vector.__r{nm}__:{k}', lambda: fn(operand(), mk()), f'{k} {lit(base)} {nm} {src}', fails, seen)

    elif group == 'cmp':
        for nm, fn in CMPS:
            for s in POOL:
                attempt(f'Vector.__{nm}__:scalar', lambda: fn(mk(), s), f'{src} {nm} {lit(s)}', fails, seen)
            attempt(f'Vector.__{nm}__:vector', lambda: fn(mk(), Vector(list(reversed(vals)))), f'{src} {nm} reversed self', fails, seen)
        attempt('Vector.isinstance', lambda: mk().isinstance(int), f'{src}.isinstance(int)', fails, seen)

    elif group == 'concat':
        for s in POOL:
            attempt('Vector.__lshift__:scalar', lambda: mk() << s, f'{src} << {lit(s)}', fails, seen)
            attempt('Vector.__lshift__:list', lambda: mk() << [s], f'{src} << {lit([s])}', fails, seen)
            if not truthful(Vector([s])):
                attempt('Vector.__lshift__:vector', lambda: mk() << Vector([s]), f'{src} << Vector({lit([s])})', fails, seen)
            attempt('Vector.__rlshift__:scalar', lambda: s << mk(), f'{lit(s)} << {src}', fails, seen)
            attempt('Vector.__rlshift__:list', lambda: [s] << mk(), f'{lit([s])} << {src}', fails, seen)
            for t_ in POOL:
                attempt('Vector.__lshift__:list', lambda: mk() << [s, t_], f'{src} << {lit([s, t_])}', fails, seen)
        attempt('Vector.__lshift__:vector', lambda: mk() << mk(), f'{src} << itself', fails, seen)
        attempt('Vector.__lshift__:list', lambda: mk() << [], f'{src} << []', fails, seen)

    elif group == 'rshift':
        for s in POOL:
            if not truthful(Vector([s] * n)):
                attempt('Vector.__rshift__:vector', lambda: mk() >> Vector([s] * n), f'{src} >> Vector({lit([s] * n)})', fails, seen)
            attempt('Vector.__rshift__:list', lambda: mk() >> ([s] * n), f'{src} >> {lit([s] * n)}', fails, seen)
            attempt('Vector.__rrshift__:list', lambda: ([s] * n) >> mk(), f'{lit([s] * n)} >> {src}', fails, seen)

    elif group == 'cast':
        for ty in CAST_TYPES:
            attempt(f'Vector.cast:{ty.__name__}', lambda: mk().cast(ty), f'{src}.cast({ty.__name__})', fails, seen)
        attempt('Vector.cast:callable', lambda: mk().cast(lambda x: x), f'{src}.cast(identity)', fails, seen)

    elif group == 'na':
        for s in POOL:
            attempt('Vector.fillna', lambda: mk().fillna(s), f'{src}.fillna({lit(s)})', fails, seen)
        attempt('Vector.dropna', lambda: mk().dropna(), f'{src}.dropna()', fails, seen)
        attempt('Vector.isna', lambda: mk().isna(), f'{src}.isna()', fails, seen)
        attempt('Vector.to_object', lambda: mk().to_object(), f'{src}.to_object()', fails, seen)

    elif group == 'struct':
        for rev in (False, True):
            for nl in (True, False):
                attempt('Vector.sort_by', lambda: mk().sort_by(reverse=rev, na_last=nl), f'{src}.sort_by(reverse={rev}, na_last={nl})',
                        fails, seen)
        attempt('Vector.unique', lambda: mk().unique(), f'{src}.unique()', fails, seen)
        attempt('Vector.copy', lambda: mk().copy(), f'{src}.copy()', fails, seen)
        attempt('Vector.T', lambda: mk().T, f'{src}.T', fails, seen)
        attempt('Vector.pluck', lambda: mk().pluck(0), f'{src}.pluck(0)', fails, seen)
        attempt('Vector.pluck', lambda: mk().pluck(0, default=0), f'{src}.pluck(0, default=0)', fails, seen)
        for sl in (slice(0, 1), slice(1, None), slice(None, None, -1), slice(0, 0), slice(None, None, 2)):
            attempt('Vector.getitem:slice', lambda: mk()[sl], f'{src}[{lit(sl)}]', fails, seen)
        for mask in itertools.product([True, False], repeat=n):
            if n:
                attempt('Vector.getitem:mask', lambda: mk()[list(mask)], f'{src}[{list(mask)}]', fails, seen)
                if not lite:
                    attempt('Vector.getitem:mask', lambda: mk()[Vector(list(mask))], f'{src}[Vector({list(mask)})]', fails, seen)
        if n:
            attempt('Vector.getitem:index-list', lambda: mk()[list(range(n - 1, -1, -1))], f'{src}[reversed indices]', fails, seen)
            attempt('Vector.getitem:index-list', lambda: mk()[[0] * 2], f'{src}[[0, 0]]', fails, seen)

    elif group == 'setitem':
        for x in POOL:
            for i in range(n):
                v = mk()
                try:
                    v[i] = x
                except Exception:
                    continue
                audit('Vector.setitem:int-key', v, f'v = {src}; v[{i}] = {lit(x)}', fails, seen)
            if n:
                v = mk()
                try:
                    v[:] = x
                    audit('Vector.setitem:slice', v, f'v = {src}; v[:] = {lit(x)}', fails, seen)
                except Exception:
                    pass
                if lite:
                    continue                 # quick tier, length 3: int-key and slice assignment only (mask / index list: length <= 2)
                v = mk()
                try:
                    v[[j == n - 1 for j in range(n)]] = x
                    audit('Vector.setitem:mask', v, f'v = {src}; v[last-only mask] = {lit(x)}', fails, seen)
                except Exception:
                    pass
                v = mk()
                try:
                    v[[0]] = [x]
                    audit('Vector.setitem:index-list', v, f'v = {src}; v[[0]] = {lit([x])}', fails, seen)
                except Exception:
                    pass
    return fails


# ---------------------------------------------------------------------------------------------
# tables
# ---------------------------------------------------------------------------------------------
COLS = [[1, 2, 2], [1, None, 2], [None, 1, 1], [1.5, 2, None], [True, False, True], ['a', 'b', 'a'], [None, None, None],
        [date(2020, 1, 1), None, date(2020, 1, 2)], [1, 'a', None]]
FUNCS = ['sum', 'mean', 'min', 'max', 'count', 'stdev']


def run_table(case):
    fails, seen = [], set()
    kc, vc = COLS[case['k']], COLS[case['v']]
    what = f"Table({{'k': {lit(kc)}, 'v': {lit(vc)}}})"

    def mk():
        return Table({'k': list(kc), 'v': list(vc)})

    try:
        t0 = mk()
    except Exception:
        return []
    op = case['top']
    if op == 'ctor':
        audit('Table.ctor', mk(), what, fails, seen)
        attempt('Table.getitem:slice', lambda: mk()[0:2], f'{what}[0:2]', fails, seen)
        attempt('Table.getitem:mask', lambda: mk()[[True, False, True]], f'{what}[mask]', fails, seen)
        attempt('Table.T', lambda: mk().T, f'{what}.T', fails, seen)
        for nm, fn in ARITH[:4]:
            attempt(f'Table.__{nm}__:scalar', lambda: fn(mk(), 2), f'{what} {nm} 2', fails, seen)
            attempt(f'Table.__{nm}__:table', lambda: fn(mk(), mk()), f'{what} {nm} itself', fails, seen)
        for x in (None, 2.5, 'z'):
            t = mk()
            try:
                t[0, 'v'] = x
                audit('Table.setitem:cell', t, f't = {what}; t[0, "v"] = {lit(x)}', fails, seen)
            except Exception:
                pass
    elif op == 'sort':
        for by in ('k', 'v'):
            for rev in (False, True):
                for nl in (True, False):
                    attempt('Table.sort_by', lambda: mk().sort_by(by, reverse=rev, na_last=nl), f'{what}.sort_by({by!r}, reverse={rev}, '
                            f'na_last={nl})', fails, seen)
    elif op in ('aggregate', 'window'):
        for f in FUNCS:
            attempt(f'Table.{op}:{f}', lambda: getattr(mk(), op)(over='k', **{f + '_over': 'v'}), f'{what}.{op}(over="k", {f}_over="v")',
                    fails, seen)
        attempt(f'Table.{op}:apply', lambda: getattr(mk(), op)(over='k', apply={'first': ('v', lambda xs: xs[0])}),
                f'{what}.{op}(over="k", apply=first)', fails, seen)
    elif op in ('join', 'inner_join', 'full_join'):
        for k2 in range(len(COLS)):
            other = f"Table({{'k2': {lit(COLS[k2])}, 'w': {lit(vc)}}})"
            attempt(f'Table.{op}', lambda: getattr(mk(), op)(Table({'k2': list(COLS[k2]), 'w': list(vc)}), 'k', 'k2', expect='many_to_many'),
                    f'{what}.{op}({other}, "k", "k2")', fails, seen)
        attempt(f'Table.{op}', lambda: getattr(mk(), op)(Table({'k2': [9, 8, 7], 'w': list(vc)}), 'k', 'k2', expect='many_to_many'),
                f'{what}.{op}(no matching keys)', fails, seen)
    return fails


CSV_TEXTS = ['a,b\n1,x\n,y\n', 'a,b\n,\n1,2.5\n', 'a\n1\n2.5\n', 'a,b\n1\n2,3\n', 'a\nx\n1\n', 'a,b\n , \n', 'a\n1\n\n', 'a,a\n1,\n,1\n']


def run_csv(case):
    fails, seen = [], set()
    text = CSV_TEXTS[case['i']]
    for hh in (True, False):
        attempt('read_csv', lambda: read_csv(io.StringIO(text), has_header=hh), f'read_csv({text!r}, has_header={hh})', fails, seen)
    return fails


# ---------------------------------------------------------------------------------------------
# multi-value assignments: one write whose values need several different promotions, in every order
# ---------------------------------------------------------------------------------------------
MULTI_BASES = {'bool': [True, False, True], 'int': [1, 2, 3], 'int?': [1, None, 3], 'float': [1.5, 2.5, 3.5],
               'bool?': [True, None, False]}
MULTI_VALUES = [True, 7, 2.5, 1 + 2j, None]          # one value per rung of the ladder, and None


def run_multi(case):
    """Every way of writing len(vals) values at once into a 3-element vector / table column."""
    fails, seen = [], set()
    base = MULTI_BASES[case['base']]
    vals = ev(case['vals'])
    k = len(vals)
    src = f'Vector({lit(base)})'

    lite = bool(case.get('lite'))

    def forms(xs):
        out = [('list', lambda: list(xs))] + ([] if lite else [('tuple', lambda: tuple(xs))])     # quick: tuples left to thorough
        try:
            probe = Vector(list(xs))
            if not isinstance(probe, Table) and not truthful(probe):
                out.append(('vector', lambda: Vector(list(xs))))
        except Exception:
            pass
        return out

    if k == 2:
        keys = [('slice', 'v[0:2]', lambda: slice(0, 2)), ('slice', 'v[1:3]', lambda: slice(1, 3)),
                ('slice', 'v[::2]', lambda: slice(None, None, 2)), ('slice', 'v[::-2]', lambda: slice(None, None, -2)),
                ('mask', 'v[[True, True, False]]', lambda: [True, True, False]),
                ('mask', 'v[[True, False, True]]', lambda: [True, False, True]),
                ('mask', 'v[Vector([False, True, True])]', lambda: Vector([False, True, True])),
                ('index-list', 'v[[0, 1]]', lambda: [0, 1]), ('index-list', 'v[[2, 0]]', lambda: [2, 0]),
                ('index-list', 'v[(1, 2)]', lambda: (1, 2)), ('index-list', 'v[[-1, -3]]', lambda: [-1, -3]),
                ('index-vector', 'v[Vector([1, 0])]', lambda: Vector([1, 0]))]
    else:
        keys = [('slice', 'v[:]', lambda: slice(None)), ('slice', 'v[::-1]', lambda: slice(None, None, -1)),
                ('mask', 'v[[True, True, True]]', lambda: [True, True, True]),
                ('index-list', 'v[[0, 1, 2]]', lambda: [0, 1, 2]), ('index-list', 'v[[2, 0, 1]]', lambda: [2, 0, 1]),
                ('index-vector', 'v[Vector([1, 2, 0])]', lambda: Vector([1, 2, 0]))]
    for site, ktxt, mkkey in keys:
        for fname, mkval in forms(vals):
            v = Vector(list(base))
            try:
                v[mkkey()] = mkval()
            except Exception:
                continue                       # a refused write is outside the quantifier
            audit(f'Vector.setitem:{site}:multi-value', v, f'v = {src}; {ktxt} = {fname} {lit(vals)}', fails, seen)

    # the same writes through a table: region assignment delegates to the columns
    def mkt():
        return Table({'k': [10, 20, 30], 'v': list(base)})
    rows = [('0:2', slice(0, 2)), ('1:3', slice(1, 3))] if k == 2 else [(':', slice(None)), ('::-1', slice(None, None, -1))]
    what = f"t = Table({{'k': [10, 20, 30], 'v': {lit(base)}}})"
    for rtxt, rs in rows:
        for fname, mkval in forms(vals):
            for ctxt, cs in (("'v'", 'v'), ('1', 1)):
                t = mkt()
                try:
                    t[rs, cs] = mkval()
                except Exception:
                    continue
                audit('Table.setitem:column-region:multi-value', t, f'{what}; t[{rtxt}, {ctxt}] = {fname} {lit(vals)}', fails, seen)
        t = mkt()
        try:
            t[rs, 1:2] = Table({'w': list(vals)})
            audit('Table.setitem:table-region:multi-value', t, f"{what}; t[{rtxt}, 1:2] = Table({{'w': {lit(vals)}}})", fails, seen)
        except Exception:
            pass
        # both columns in one statement, the key column receiving the same values in reverse order
        for fname, wrap in ((('list', list),) if lite else (('list', list), ('tuple', tuple))):
            t = mkt()
            try:
                t[rs, :] = wrap([wrap(reversed(vals)), wrap(vals)])
                audit('Table.setitem:columns-region:multi-value', t, f'{what}; t[{rtxt}, :] = {fname} of columns [{lit(list(reversed(vals)))}, '
                      f'{lit(vals)}]', fails, seen)
            except Exception:
                pass
        t = mkt()
        try:
            t[rs, ('k', 'v')] = Table({'a': list(reversed(vals)), 'b': list(vals)})
            audit('Table.setitem:table-region:multi-value', t, f'{what}; t[{rtxt}, ("k", "v")] = two-column Table', fails, seen)
        except Exception:
            pass
    return fails


# ---------------------------------------------------------------------------------------------
# aggregate / window result columns: truthful AND labelled as ordinary inference labels the produced values
# ---------------------------------------------------------------------------------------------
AGG_KEYS = [[1, 1, 2], [1, 2, 2], [1, 1, 1], [1, 2, 3], [None, 1, None], ['a', 'b', 'a']]
AGG_VALUES = [[True, False, True], [True, True, False], [True, None, False], [None, True, True],          # bool, bool?
              [1, None, 2], [None, 1, 1], [None, None, 3],                                                  # int?
              [1.5, None, 2.0], [None, 0.5, 0.5], [None, None, 1.5],                                        # float?
              [None, None, None],                                                                           # all None
              [1, 2, 2], [1.5, 2.5, 2.5], [1 + 2j, None, 2j]]                                               # controls: int, float, complex?


def infer_oracle(values):
    """(kind, nullable) by the ordinary inference rule, or None where this block has no opinion."""
    kinds = {type(x) for x in values if x is not None}
    nullable = any(x is None for x in values)
    if not kinds:
        return (object, True)
    if len(kinds) == 1:
        return (next(iter(kinds)), nullable)
    if kinds <= set(NUM_LADDER):
        return (max(kinds, key=NUM_LADDER.index), nullable)
    return None


def run_aggdtype(case):
    fails, seen = [], set()
    kc, vc = AGG_KEYS[case['k']], AGG_VALUES[case['v']]
    op = case['top']
    what = f"Table({{'k': {lit(kc)}, 'v': {lit(vc)}}})"

    def mk():
        return Table({'k': list(kc), 'v': list(vc)})

    calls = [(f, {f + '_over': 'v'}, f'{f}_over="v"') for f in FUNCS]
    calls.append(('all', {f + '_over': 'v' for f in FUNCS}, 'all six functions over "v"'))
    calls.append(('twice', {'sum_over': ['v', 'v'], 'min_over': ['v', 'k']}, 'sum_over=["v", "v"], min_over=["v", "k"]'))
    for f, kw, ktxt in calls:
        try:
            r = getattr(mk(), op)(over='k', **kw)
        except Exception:
            continue
        if not isinstance(r, Table):
            continue
        desc = f'{what}.{op}(over="k", {ktxt})'
        site = f'Table.{op}:{f}'
        audit(site, r, desc, fails, seen)
        for j, c in enumerate(r.cols()):
            try:
                produced = list(c._underlying)
            except Exception:
                continue
            want = infer_oracle(produced)
            dt = c.schema()
            if want is None or truthful(c):
                continue
            got = None if dt is None else (dt.kind, dt.nullable)
            if got != want:
                cls = 'nullable-flag' if got is not None and got[0] is want[0] else 'kind'
                key = f'C03:{site}:dtype-not-inferred:{cls}'
                if key not in seen:
                    seen.add(key)
                    fails.append(Fail(key, f'{desc}: column {j} ({c._name!r}) holds {produced!r} labelled {dt!r}; ordinary inference on these '
                                      f'values gives <{want[0].__name__}{"?" if want[1] else ""}>', want, got))
    return fails


# ---------------------------------------------------------------------------------------------
def cases(tier, seed):
    q = tier == 'quick'
    for ln in range(0, 4):
        for combo in itertools.product(POOL, repeat=ln):
            v = lit(list(combo))
            for g in GROUPS_LIGHT:
                if q and ln == 3 and g in ('setitem', 'struct'):
                    yield {'op': 'vec', 'values': v, 'group': g, 'lite': True}
                else:
                    yield {'op': 'vec', 'values': v, 'group': g}
            if ln <= (2 if q else 3):
                for g in GROUPS_HEAVY:
                    if q and g == 'bin-seq':
                        yield {'op': 'vec', 'values': v, 'group': g, 'lite': True}    # constant sequences as plain lists only
                    else:
                        yield {'op': 'vec', 'values': v, 'group': g}
    for k in range(len(COLS)):
        for v in range(len(COLS)):
            for top in ('ctor', 'sort', 'aggregate', 'window', 'join', 'inner_join', 'full_join'):
                yield {'op': 'tab', 'k': k, 'v': v, 'top': top}
    for i in range(len(CSV_TEXTS)):
        yield {'op': 'csv', 'i': i}
    for base in MULTI_BASES:
        for k in (2, 3):
            if q and k == 3 and base not in ('bool', 'int?'):
                continue                     # quick: value triples on the lowest rung and on a nullable base only
            for combo in itertools.product(MULTI_VALUES, repeat=k):
                yield dict({'op': 'multi', 'base': base, 'vals': lit(list(combo))}, **({'lite': True} if q else {}))
    for k in range(len(AGG_KEYS)):
        for v in range(len(AGG_VALUES)):
            for top in ('aggregate', 'window'):
                yield {'op': 'aggdtype', 'k': k, 'v': v, 'top': top}


def evaluate(case):
    if case['op'] == 'vec':
        return run_group(ev(case['values']), case['group'], bool(case.get('lite')))
    if case['op'] == 'tab':
        return run_table(case)
    if case['op'] == 'multi':
        return run_multi(case)
    if case['op'] == 'aggdtype':
        return run_aggdtype(case)
    return run_csv(case)


def nontrivial(case):
    if case['op'] == 'vec':
        vals = ev(case['values'])
        if not vals:
            return None
        return (case['group'], tuple(sorted({type(x).__name__ for x in vals})), len(vals))
    if case['op'] == 'tab':
        return ('tab', case['k'], case['v'], case['top'])
    if case['op'] == 'multi':
        vals = ev(case['vals'])
        return ('multi', case['base'], tuple(type(x).__name__ for x in vals))
    if case['op'] == 'aggdtype':
        return ('aggdtype', case['k'], case['v'], case['top'])
    return ('csv', case['i'])


if __name__ == '__main__':
    main('C03', cases, evaluate,
         rule='every vector over a 12-value pool up to the stated length x every public vector operation (unary, binary and reflected '
              'operators with scalar / list / vector operands, comparisons, << and >>, casts, fillna / dropna / isna / to_object, '
              'sort_by, unique, pluck, T, copy, slices, masks, index lists, in-place assignment of every pool value at every position '
              'and by slice / mask / index list); columns of sort / join / aggregate / window / read_csv results on all two-column tables '
              'over 9 column contents; single multi-value assignments mixing several promotions in every order through slice / mask / '
              'index list / index vector / table region; aggregate and window result dtypes against ordinary inference on the produced '
              'values over 6 key x 14 value columns.  Each result: harness.truthful + write-back r[i] = r[i] accepted and dtype unchanged. '
              'distinct = (operation group, set of element types, length)',
         bound=lambda tier: {'pool': len(POOL), 'max_len_light_groups': 3, 'max_len_heavy_groups': 2 if tier == 'quick' else 3,
                             'heavy_groups': GROUPS_HEAVY, 'table_column_pool': len(COLS), 'multi_value_pool': len(MULTI_VALUES),
                             'multi_bases': list(MULTI_BASES), 'multi_triples_on': ['bool', 'int?'] if tier == 'quick' else list(MULTI_BASES),
                             'agg_key_columns': len(AGG_KEYS), 'agg_value_columns': len(AGG_VALUES)},
         nontrivial=nontrivial)

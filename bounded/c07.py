"""C07 bounded stand-in: masks and indexing follow Python sequence semantics and compose.

Scope (exhaustive inside it):
  * vectors of length n <= 5 (int named, str unnamed, nullable float named): every slice with
    start, stop in {None, -7..7} and step in {None, -3..3}\\{0} against list slicing (values, dtype
    kind, name); every integer index -n-1..n (IndexError exactly where the list raises); every
    boolean mask of length n as a Vector and as a list; every mask of length n-1 and n+1 (must raise);
  * comparison operators (== != < <= > >=) and logical operators (& | ^ ~ on bool vectors) on
    vectors of length <= 3 in vector / scalar / list / reflected forms: result is a non-nullable
    bool vector equal to Python's comparison elementwise;
  * tables up to 3x3: every row slice of a reduced cube and every row mask (Vector / list, right
    and wrong length) applied to every column alike; every tuple of up to 3 names over the existing
    names plus a missing one and a case variant (missing must raise, repeated names allowed);
    t[rows][cols] == t[cols][rows] in cells and column_names();
  * the same on tables whose column names differ only in case ('Val', 'val') or only in sanitisation
    ('my col', 'my_col'), either column first: every name tuple must return exactly the named columns;
  * selection by name after a rename through a live column view (c = t['a']; c.name = 'z'; also
    t.a.name, t.cols()[i].name, two renames of one view, two columns swapping names, a new name that
    differs from a neighbour only in case), the selection being the FIRST access after the rename:
    every name tuple (length <= 2; 3 in the thorough tier) over new + old + missing names - an old name
    must raise, a new name must resolve to its column - and t[rows][cols] == t[cols][rows] == oracle.
  * integer indices that are instances of int SUBCLASSES (True / False, IntEnum members incl. the harness Color.RED, a user
    class MyInt(int)): v[i] for every i in -n-2..n+1 in every wrapper; index lists v[[Color.RED, 0]] and non-nullable int
    Vector keys of length 1..2 (3 in the thorough tier) over plain and wrapped indices (at least one wrapped, not all bool):
    the list accepts every such index (operator.index), so the vector must return the same elements, name and kind kept,
    and raise exactly where the list raises.
Oracle: Python list indexing / list comprehensions.
"""
import itertools
import operator
from datetime import date, datetime

from harness import *  # noqa

_EV = {}


def cev(src):
    if src not in _EV:
        _EV[src] = ev(src)
    x = _EV[src]
    if isinstance(x, list):
        return list(x)
    if isinstance(x, dict):
        return {k: list(v) for k, v in x.items()}
    return x


D, D2, D3 = date(2020, 1, 31), date(2021, 3, 1), date(2019, 12, 31)
VARIANTS = {
    'int': ([0, 1, 2, 3, 4], 'v', int),
    'str': (['a', 'b', 'c', 'd', 'e'], None, str),
    'nfloat': ([None, 1.5, None, 2.5, 3.5], 'f x', float),
    'date': ([D, D2, D3, D, D2], 'when', date),
}
STARTS = [None] + list(range(-7, 8))
STEPS = [None, -3, -2, -1, 1, 2, 3]

CMPOPS = {'==': operator.eq, '!=': operator.ne, '<': operator.lt, '<=': operator.le, '>': operator.gt, '>=': operator.ge}
LOGOPS = {'&': operator.and_, '|': operator.or_, '^': operator.xor}
FORMNAME = {'vv': 'vector', 'vs': 'scalar', 'vl': 'list', 'sv': 'scalar', 'lv': 'list'}
CMP_FAMILIES = {
    'int': [0, 1, 2],
    'float': [0.5, 1.0],
    'num': [1, 1.0, True],
    'str': ['a', 'b'],
    'bool': [True, False],
    'date': [D, D2],
    'nint': [1, None],
    'mixed': [1, 'a'],
}
CMP_PAIRS = [('int', 'int'), ('int', 'float'), ('float', 'int'), ('num', 'num'), ('str', 'str'), ('bool', 'bool'), ('date', 'date'),
             ('nint', 'int'), ('int', 'nint'), ('nint', 'nint'), ('mixed', 'mixed'), ('int', 'str'), ('str', 'int'), ('bool', 'int')]
FOREIGN_DATE = {'isostr': ['2020-01-31', '2021-03-01'], 'datetime': [datetime(2020, 1, 31, 0, 0), datetime(2021, 3, 1, 12, 30)]}

TCOLS = {'a': [1, 2, 3], 'b': ['x', 'y', 'z'], 'c': [None, 2.5, 0.5]}
ROW_STARTS = [None, -4, -3, -2, -1, 0, 1, 2, 3, 4]
ROW_STEPS = [None, -2, -1, 1, 2]


def mkvec(variant, n):
    vals, name, kind = VARIANTS[variant]
    vals = vals[:n]
    if not vals or all(x is None for x in vals):
        return Vector(list(vals), dtype=DataType(kind, nullable=bool(vals)), name=name), vals, name, kind
    return Vector(list(vals), name=name), vals, name, kind


def vsrc(variant, n):
    vals, name, kind = VARIANTS[variant]
    vals = vals[:n]
    extra = f', name={name!r}' if name else ''
    if not vals or all(x is None for x in vals):
        return f'Vector({lit(vals)}, dtype=DataType({kind.__name__}, nullable={bool(vals)}){extra})'
    return f'Vector({lit(vals)}{extra})'


def tables(maxr=3):
    names = list(TCOLS)
    for r in [2, 3, 1, 0][:maxr + 1]:
        for c in (2, 3, 1):
            yield {nm: TCOLS[nm][:r] for nm in names[:c]}


# ---- strengthen: case-twin names and renames through live views -----------------------------------
TWIN_TABLES = [
    {'Val': [1, 2, 3], 'val': [4, 5, 6]}, {'val': [4, 5, 6], 'Val': [1, 2, 3]},
    {'Val': [1, 2, 3], 'k': ['x', 'y', 'z'], 'val': [None, 2.5, 0.5]}, {'k': ['x', 'y', 'z'], 'val': [None, 2.5, 0.5], 'Val': [1, 2, 3]},
    {'my col': [1, 2, 3], 'my_col': ['x', 'y', 'z']}, {'my_col': ['x', 'y', 'z'], 'my col': [1, 2, 3]},
]
RN_ROWKEYS = [['slice', [1, None, None]], ['slice', [None, None, -1]], ['slice', [0, 0, None]], ['slice', [5, 9, None]],
              ['slice', [None, -1, 2]], ['vmask', 'alt'], ['lmask', 'all'], ['vmask', 'none']]


def rn_rowkey(rk, r):
    if rk[0] == 'slice':
        return rk
    m = {'alt': [i % 2 == 0 for i in range(r)], 'all': [True] * r, 'none': [False] * r}[rk[1]]
    return [rk[0], m]


def rename_plans(names):
    """Lists of [column index, new name, how]; views are taken first, then the names are set in order."""
    plans = []
    for i, nm in enumerate(names):
        for how in ('view', 'attr', 'cols'):
            plans.append([[i, 'z', how]])
        plans.append([[i, 'x y', 'view']])
        plans.append([[i, 'z', 'view'], [i, 'y', 'view']])            # renamed twice through the same view
        for other in names:
            if other != nm:
                plans.append([[i, other.upper(), 'view']])            # now differs from a neighbour only in case
    for i in range(len(names)):
        for j in range(i + 1, len(names)):
            plans.append([[i, names[j], 'view'], [j, names[i], 'view']])   # two columns swap names
            plans.append([[j, names[i], 'cols'], [i, names[j], 'cols']])
    return plans


def names_after(names, plan):
    cur = list(names)
    gone = []
    for i, new, how in plan:
        gone.append(cur[i])
        cur[i] = new
    return cur, [g for g in dict.fromkeys(gone) if g not in cur]


def cases_strengthen(tier):
    # ---- names that differ only in case / only in sanitisation
    for full in TWIN_TABLES:
        for r in (3, 2, 1, 0):
            t = {k: v[:r] for k, v in full.items()}
            names = list(t)
            universe = names + ['missing']
            tuples = []
            for ln in (1, 2, 3):
                tuples += [list(c) for c in itertools.product(universe, repeat=ln)]
            for names_key in tuples:
                yield {'k': 'tcols', 't': lit(t), 'names': names_key, 'twin': 1}
            for nm in universe:
                yield {'k': 'tcol1', 't': lit(t), 'name': nm, 'twin': 1}
            good = [c for c in tuples if all(x in names for x in c) and len(c) <= 2]
            for rk0 in RN_ROWKEYS:
                rk = rn_rowkey(rk0, r)
                if rk[0] == 'lmask' and not r:
                    continue
                for c in good:
                    yield {'k': 'commute', 't': lit(t), 'rk': rk, 'names': c, 'twin': 1}
                for nm in names:
                    yield {'k': 'commute1', 't': lit(t), 'rk': rk, 'name': nm, 'twin': 1}
    # ---- selection by name right after a rename through a live view
    for t in tables():
        names = list(t)
        r = len(t[names[0]])
        if tier == 'quick' and r in (1, 2) and len(names) != 2:
            continue
        for plan in rename_plans(names):
            after, gone = names_after(names, plan)
            universe = list(dict.fromkeys(after + gone + ['missing']))
            tuples = []
            for ln in ((1, 2) if tier == 'quick' else (1, 2, 3)):
                tuples += [list(c) for c in itertools.product(universe, repeat=ln)]
            for names_key in tuples:
                yield {'k': 'rn', 'chk': 'names', 't': lit(t), 'plan': plan, 'names': names_key}
            for nm in universe:
                yield {'k': 'rn', 'chk': 'name1', 't': lit(t), 'plan': plan, 'names': [nm]}
            good = [c for c in tuples if all(after.count(x) == 1 for x in c) and len(c) <= 2]
            for rk0 in RN_ROWKEYS:
                rk = rn_rowkey(rk0, r)
                if rk[0] == 'lmask' and not r:
                    continue
                for c in good:
                    yield {'k': 'rn', 'chk': 'commute', 't': lit(t), 'plan': plan, 'names': c, 'rk': rk}



# ---- strengthen 2: indices that are instances of int subclasses ------------------------------------
class MyInt(int):
    """A user subclass of int (no overrides): list indexing accepts it."""
    def __repr__(self):
        return f'MyInt({int(self)})'


Pos = IntEnum('Pos', {('M%d' % -i if i < 0 else 'P%d' % i): i for i in range(-8, 9)})
WRAPPERS = ('bool', 'enum', 'color', 'myint')


def wrap_ok(w, i):
    return {'int': True, 'bool': i in (0, 1), 'enum': -8 <= i <= 8, 'color': i == 1, 'myint': True}[w]


def mkidx(w, i):
    if w == 'int':
        return int(i)
    if w == 'bool':
        return bool(i)
    if w == 'enum':
        return Pos(i)
    if w == 'color':
        return Color.RED
    return MyInt(i)


def idx_src(w, i):
    return {'int': repr(i), 'bool': repr(bool(i)), 'enum': f'Pos({i})', 'color': 'Color.RED', 'myint': f'MyInt({i})'}[w]


def cases_subint(tier):
    variants = ['int', 'str', 'nfloat']
    for var in variants:
        for n in range(6):
            for i in range(-n - 2, n + 2):
                for w in WRAPPERS:
                    if wrap_ok(w, i):
                        yield {'k': 'subint', 'var': var, 'n': n, 'idx': [w, i]}
    for var in (['int', 'nfloat'] if tier == 'quick' else variants):
        for n in range(1, 5 if tier == 'quick' else 6):
            uni = [[w, i] for i in range(-n - 1, n + 1) for w in ('int',) + WRAPPERS if wrap_ok(w, i)]
            lens = (1, 2) if tier == 'quick' or n > 3 else (1, 2, 3)
            for ln in lens:
                for combo in itertools.product(uni, repeat=ln):
                    ws = {w for w, _ in combo}
                    if ws == {'int'} and ln > 1 and tier == 'quick':
                        continue                        # plain index lists: singles and the thorough tier only (control)
                    if ws == {'bool'}:
                        continue                        # an all-bool list / vector is a mask, not an index list
                    for form in ('list', 'vector'):
                        if form == 'list' and 'bool' in ws:
                            continue                    # a list mixing bools and ints: mask or indices is not decided
                        yield {'k': 'subidx', 'var': var, 'n': n, 'form': form, 'idx': [list(c) for c in combo]}


def eval_subint(case):
    var, n = case['var'], case['n']
    w, i = case['idx']
    v, vals, name, kind = mkvec(var, n)
    key = mkidx(w, i)
    src = f'{vsrc(var, n)}[{idx_src(w, i)}]'
    site = 'Vector.getitem.int'
    try:
        want = vals[key]
        raises = False
    except IndexError:
        raises = True
    try:
        got = v[key]
    except IndexError as e:
        if raises:
            return []
        return [Fail(f'C07:{site}:int-subclass-spurious-IndexError', f'{src} raised {e!r}; the list gives {want!r}', want, repr(e))]
    except Exception as e:
        if raises:
            return []                                  # out of range: the list raises too
        return [Fail(f'C07:{site}:int-subclass-rejected', f'{src} raised {type(e).__name__}: {e}; list indexing accepts a {type(key).__name__} index and gives {want!r}',
                     want, repr(e))]
    if raises:
        return [Fail(f'C07:{site}:int-subclass-out-of-range-accepted', f'{src} = {got!r}; the list raises IndexError', 'IndexError', got)]
    if isinstance(got, Vector) or not same(got, want):
        return [Fail(f'C07:{site}:int-subclass-wrong-element', f'{src} = {got!r}; the list gives {want!r}', want, got)]
    if not same(list(v), vals):
        return [Fail(f'C07:{site}:source-changed', src, vals, list(v))]
    return []


def eval_subidx(case):
    var, n, form = case['var'], case['n'], case['form']
    idx = case['idx']
    v, vals, name, kind = mkvec(var, n)
    keys = [mkidx(w, i) for w, i in idx]
    plain = all(w == 'int' for w, _ in idx)
    inner = ', '.join(idx_src(w, i) for w, i in idx)
    src = f'{vsrc(var, n)}[[{inner}]]' if form == 'list' else f'{vsrc(var, n)}[Vector([{inner}])]'
    site = 'Vector.getitem.index-list' if form == 'list' else 'Vector.getitem.index-vector'
    tag = '' if plain else 'int-subclass-'
    try:
        want = [vals[k] for k in keys]
        raises = False
    except IndexError:
        raises = True
    if form == 'vector':
        try:
            key = Vector(list(keys))
            sch = key.schema()
        except Exception:
            return []                                  # construction of the key is not C07's business
        if sch is None or sch.kind is not int or sch.nullable:
            return []
    else:
        key = list(keys)
    try:
        r = v[key]
    except Exception as e:
        if raises:
            return []
        if form == 'list' and not plain and 'TypeError' in type(e).__name__:
            # a Python list cannot be indexed by a list at all; the statement fixes v[i], slices and
            # masks, so refusing an index *list* that holds int-subclass instances is not a violation
            # (accepting it with wrong elements would be).  [false alarm corrected, DESIGN A.4]
            return []
        return [Fail(f'C07:{site}:{tag}rejected', f'{src} raised {type(e).__name__}: {e}; every index is an int instance the list accepts, elements {want!r}',
                     want, repr(e))]
    if raises:
        return [Fail(f'C07:{site}:{tag}out-of-range-accepted', f'{src} = {list(r) if isinstance(r, Vector) else r!r}; the list raises IndexError',
                     'IndexError', list(r) if isinstance(r, Vector) else r)]
    if not isinstance(r, Vector) or isinstance(r, Table):
        return [Fail(f'C07:{site}:not-a-vector', src, want, r)]
    got = list(r)
    fails = []
    if not same(got, want):
        fails.append(Fail(f'C07:{site}:{tag}wrong-values', f'{src} = {got!r}; the list elements are {want!r}', want, got))
    fails += keeps(r, v, name, site, src)
    if not same(list(v), vals):
        fails.append(Fail(f'C07:{site}:source-changed', src, vals, list(v)))
    return fails


def cases(tier, seed):
    yield from cases_base(tier, seed)
    yield from cases_strengthen(tier)
    yield from cases_subint(tier)


def cases_base(tier, seed):
    variants = ['int', 'str', 'nfloat'] + (['date'] if tier != 'quick' else [])
    # ---- vector slices / ints / masks
    for var in variants:
        for n in range(6):
            for start in STARTS:
                for stop in STARTS:
                    for step in STEPS:
                        yield {'k': 'slice', 'var': var, 'n': n, 'key': [start, stop, step]}
            for i in range(-n - 2, n + 2):
                yield {'k': 'int', 'var': var, 'n': n, 'i': i}
            for form in ('vector', 'list'):
                for m in itertools.product([False, True], repeat=n):
                    if form == 'list' and not m:
                        continue                # [] is not recognisably a boolean mask
                    yield {'k': 'mask', 'var': var, 'n': n, 'form': form, 'mask': list(m)}
                for ln in (n - 1, n + 1, n + 2):
                    if ln < 0:
                        continue
                    for m in itertools.product([False, True], repeat=ln):
                        if form == 'list' and not m:
                            continue            # [] is not recognisably a boolean mask
                        yield {'k': 'badmask', 'var': var, 'n': n, 'form': form, 'mask': list(m)}
    # ---- comparisons
    for fa, fb in CMP_PAIRS:
        for n in range(0, 4):
            for a in itertools.product(CMP_FAMILIES[fa], repeat=n):
                for op in CMPOPS:
                    for b in itertools.product(CMP_FAMILIES[fb], repeat=n):
                        for form in ('vv', 'vl', 'lv'):
                            yield {'k': 'cmp', 'op': op, 'form': form, 'a': lit(list(a)), 'b': lit(list(b)), 'fam': [fa, fb]}
                    for s in CMP_FAMILIES[fb]:
                        if s is None:
                            continue
                        yield {'k': 'cmp', 'op': op, 'form': 'vs', 'a': lit(list(a)), 'b': lit(s), 'fam': [fa, fb]}
                        yield {'k': 'cmp', 'op': op, 'form': 'sv', 'a': lit(list(a)), 'b': lit(s), 'fam': [fa, fb]}
    # date vectors against ISO strings / datetimes: Python defines == and != (shape only is checked)
    for tag, vals in FOREIGN_DATE.items():
        for n in range(1, 3):
            for a in itertools.product([D, D2], repeat=n):
                for op in ('==', '!='):
                    for b in itertools.product(vals, repeat=n):
                        for form in ('vv', 'vl', 'lv'):
                            yield {'k': 'cmp', 'op': op, 'form': form, 'a': lit(list(a)), 'b': lit(list(b)), 'fam': ['date', tag]}
                    for s in vals:
                        yield {'k': 'cmp', 'op': op, 'form': 'vs', 'a': lit(list(a)), 'b': lit(s), 'fam': ['date', tag]}
                        yield {'k': 'cmp', 'op': op, 'form': 'sv', 'a': lit(list(a)), 'b': lit(s), 'fam': ['date', tag]}
    # ---- logical operators on bool vectors
    for n in range(0, 4):
        for a in itertools.product([True, False], repeat=n):
            yield {'k': 'not', 'a': lit(list(a))}
            for op in LOGOPS:
                for b in itertools.product([True, False], repeat=n):
                    for form in ('vv', 'vl', 'lv'):
                        yield {'k': 'logic', 'op': op, 'form': form, 'a': lit(list(a)), 'b': lit(list(b))}
                for s in (True, False):
                    yield {'k': 'logic', 'op': op, 'form': 'vs', 'a': lit(list(a)), 'b': lit(s)}
                    yield {'k': 'logic', 'op': op, 'form': 'sv', 'a': lit(list(a)), 'b': lit(s)}
    # ---- tables
    for t in tables():
        names = list(t)
        r = len(t[names[0]])
        rowkeys = []
        for start in ROW_STARTS:
            for stop in ROW_STARTS:
                for step in ROW_STEPS:
                    rowkeys.append(['slice', [start, stop, step]])
        for m in itertools.product([False, True], repeat=r):
            rowkeys.append(['vmask', list(m)])
            if r:
                rowkeys.append(['lmask', list(m)])
        for rk in rowkeys:
            yield {'k': 'trow', 't': lit(t), 'rk': rk}
        for ln in (r - 1, r + 1):
            if ln < 0:
                continue
            for m in itertools.product([False, True], repeat=ln):
                yield {'k': 'tbadmask', 't': lit(t), 'rk': ['vmask', list(m)]}
                if m:
                    yield {'k': 'tbadmask', 't': lit(t), 'rk': ['lmask', list(m)]}
        # column-name tuples
        universe = names + ['missing', 'A']
        tuples = []
        for ln in (1, 2, 3):
            tuples += [list(c) for c in itertools.product(universe, repeat=ln)]
        for names_key in tuples:
            yield {'k': 'tcols', 't': lit(t), 'names': names_key}
        for nm in universe:
            yield {'k': 'tcol1', 't': lit(t), 'name': nm}
        # commute
        good = [c for c in tuples if all(x in names for x in c) and len(c) <= 2]
        reduced = [rk for rk in rowkeys if rk[0] != 'slice' or (rk[1][2] in (None, -1, 2) and rk[1][0] in (None, -2, 0, 1, 3) and rk[1][1] in (None, -1, 0, 2, 4))]
        for rk in reduced:
            for c in good:
                yield {'k': 'commute', 't': lit(t), 'rk': rk, 'names': c}
            for nm in names:
                yield {'k': 'commute1', 't': lit(t), 'rk': rk, 'name': nm}
        for i in range(-r, r):
            yield {'k': 'trowint', 't': lit(t), 'i': i}


# --------------------------------------------------------------------------------------------

def kind_of(v):
    s = v.schema()
    return None if s is None else s.kind


def eval_slice(case):
    var, n = case['var'], case['n']
    key = slice(*case['key'])
    v, vals, name, kind = mkvec(var, n)
    want = vals[key]
    src = f'{vsrc(var, n)}[{"" if key.start is None else key.start}:{"" if key.stop is None else key.stop}:{"" if key.step is None else key.step}]'
    try:
        r = v[key]
    except Exception as e:
        return [Fail(f'C07:Vector.getitem.slice:raised-{type(e).__name__}', f'{src} raised {e!r}', want, repr(e))]
    if not isinstance(r, Vector):
        return [Fail('C07:Vector.getitem.slice:not-a-vector', src, want, r)]
    got = list(r)
    fails = []
    if not same(got, want):
        if not want and got:
            fails.append(Fail('C07:Vector.getitem:empty-slice', f'{src} = {got!r}; list slicing gives []', want, got))
        else:
            fails.append(Fail('C07:Vector.getitem.slice:wrong-values', f'{src} = {got!r}; list slicing gives {want!r}', want, got))
    fails += keeps(r, v, name, 'Vector.getitem.slice', src)
    return fails


def keeps(r, v, name, site, src):
    fails = []
    if r.name != name:
        fails.append(Fail(f'C07:{site}:name-not-kept', f'{src}.name = {r.name!r}', name, r.name))
    if kind_of(r) is not kind_of(v):
        fails.append(Fail(f'C07:{site}:kind-not-kept', f'{src}.schema() = {r.schema()!r}, source {v.schema()!r}', repr(v.schema()), repr(r.schema())))
    m = truthful(r)
    if m:
        fails.append(Fail(f'C03:{site}:truthful', f'{src}: {m}', None, repr(r.schema())))
    if not same(list(v), list(v._underlying)) or len(v) != len(list(v)):
        fails.append(Fail(f'C07:{site}:source-changed', src, None, None))
    return fails


def eval_int(case):
    var, n, i = case['var'], case['n'], case['i']
    v, vals, name, kind = mkvec(var, n)
    src = f'{vsrc(var, n)}[{i}]'
    try:
        want = vals[i]
        raises = False
    except IndexError:
        raises = True
    try:
        got = v[i]
    except IndexError as e:
        if raises:
            return []
        return [Fail('C07:Vector.getitem.int:spurious-IndexError', f'{src} raised {e!r}', want, repr(e))]
    except Exception as e:
        return [Fail(f'C07:Vector.getitem.int:raised-{type(e).__name__}', f'{src} raised {e!r}', 'IndexError' if raises else want, repr(e))]
    if raises:
        return [Fail('C07:Vector.getitem.int:out-of-range-accepted', f'{src} = {got!r}; the list raises IndexError', 'IndexError', got)]
    if not same(got, want):
        return [Fail('C07:Vector.getitem.int:wrong-element', f'{src} = {got!r}', want, got)]
    return []


def mkmask(form, mask):
    if form in ('vector', 'vmask'):
        return Vector(list(mask), dtype=DataType(bool)) if not mask else Vector(list(mask))
    return list(mask)


def eval_mask(case):
    var, n, form, mask = case['var'], case['n'], case['form'], case['mask']
    v, vals, name, kind = mkvec(var, n)
    want = [x for x, m in zip(vals, mask) if m]
    msrc = f'Vector({mask})' if form == 'vector' else f'{mask}'
    src = f'{vsrc(var, n)}[{msrc}]'
    site = f'Vector.getitem.{form}-mask'
    try:
        r = v[mkmask(form, mask)]
    except Exception as e:
        return [Fail(f'C07:{site}:raised-{type(e).__name__}' + ('-empty' if not mask else ''), f'{src} raised {e!r}', want, repr(e))]
    if not isinstance(r, Vector):
        return [Fail(f'C07:{site}:not-a-vector', src, want, r)]
    got = list(r)
    fails = []
    if not same(got, want):
        fails.append(Fail(f'C07:{site}:wrong-values', f'{src} = {got!r}', want, got))
    fails += keeps(r, v, name, site, src)
    return fails


def eval_badmask(case):
    var, n, form, mask = case['var'], case['n'], case['form'], case['mask']
    v, vals, name, kind = mkvec(var, n)
    msrc = f'Vector({mask})' if form == 'vector' else f'{mask}'
    try:
        r = v[mkmask(form, mask)]
    except Exception:
        return []
    return [Fail(f'C07:Vector.getitem.{form}-mask:wrong-length-accepted', f'{vsrc(var, n)}[{msrc}] (mask length {len(mask)}, vector length {n}) did not raise',
                 'an error', list(r) if isinstance(r, Vector) else r)]


def owner(v, attr):
    for c in type(v).__mro__:
        if attr in c.__dict__:
            return c.__name__
    return type(v).__name__


def check_bool_result(r, want, site, src, prop='C07'):
    if not isinstance(r, Vector) or isinstance(r, Table):
        return [Fail(f'{prop}:{site}:not-a-vector', src, want, r)]
    got = list(r)
    fails = []
    if len(got) != len(want):
        return [Fail(f'{prop}:{site}:wrong-length', f'{src} = {got!r}', want, got)]
    for g, w in zip(got, want):
        if w is Ellipsis:
            if type(g) is not bool:
                fails.append(Fail(f'{prop}:{site}:non-bool-element', f'{src} = {got!r}', 'bools', got))
                break
        elif g is not w:
            cls = 'non-bool-element' if type(g) is not bool else 'wrong-value'
            fails.append(Fail(f'{prop}:{site}:{cls}', f'{src} = {got!r}; Python elementwise = {[x if x is not Ellipsis else "?" for x in want]!r}',
                              [x if x is not Ellipsis else '?' for x in want], got))
            break
    sch = r.schema()
    if sch is None or sch.kind is not bool or sch.nullable:
        fails.append(Fail(f'{prop}:{site}:result-not-nonnullable-bool', f'{src} has schema {sch!r}', '<bool>', repr(sch)))
    m = truthful(r)
    if m:
        fails.append(Fail(f'C03:{site}:truthful', f'{src}: {m}', None, repr(sch)))
    return fails


def eval_cmp(case):
    op, form = case['op'], case['form']
    fa, fb = case['fam']
    a, b = cev(case['a']), cev(case['b'])
    f = CMPOPS[op]
    refl = form in ('sv', 'lv')
    ys = b if isinstance(b, list) else [b] * len(a)
    foreign = fb in FOREIGN_DATE
    want = []
    for x, y in zip(a, ys):
        if x is None or y is None:
            want.append(False)
        elif foreign:
            try:
                f(y, x) if refl else f(x, y)          # Python defines == / != here; serif documents its own coercion
            except Exception:
                return []
            want.append(Ellipsis)
        else:
            try:
                want.append(bool(f(y, x) if refl else f(x, y)))
            except Exception:
                return []                              # Python does not define it
    if refl:
        src = f'{case["b"]} {op} Vector({case["a"]})'
    else:
        src = f'Vector({case["a"]}) {op} ' + (f'Vector({case["b"]})' if form == 'vv' else case['b'])
    try:
        va = Vector(list(a))
        cls = owner(va, '_elementwise_compare')
        if cls == '_Date' and form in ('vv', 'vs', 'sv'):
            site = f'{cls}.compare.{fb}-{FORMNAME[form]}'
        else:
            site = f'{cls}.compare.{FORMNAME[form]}'
        if form == 'vv':
            r = f(va, Vector(list(b)))
        elif form in ('vs', 'vl'):
            r = f(va, b)
        else:
            r = f(b, va)
    except Exception as e:
        has_none = any(x is None for x in a) or any(y is None for y in ys)
        if has_none:
            return []                                  # None handling is C06's business
        try:
            site
        except NameError:
            site = 'Vector.compare'
        return [Fail(f'C07:{site}:raised-{type(e).__name__}', f'{src} raised {type(e).__name__}: {e}; Python defines the comparison',
                     [x if x is not Ellipsis else '?' for x in want], repr(e))]
    return check_bool_result(r, want, site, src)


def eval_logic(case):
    op, form = case['op'], case['form']
    a, b = cev(case['a']), cev(case['b'])
    refl = form in ('sv', 'lv')
    ys = b if isinstance(b, list) else [b] * len(a)
    pyop = {'&': lambda x, y: x and y, '|': lambda x, y: x or y, '^': lambda x, y: x != y}[op]
    want = [bool(pyop(y, x) if refl else pyop(x, y)) for x, y in zip(a, ys)]
    f = LOGOPS[op]
    name = {'&': 'and', '|': 'or', '^': 'xor'}[op]
    site = f'Vector.__{"r" if refl else ""}{name}__.{FORMNAME[form]}'
    if refl:
        src = f'{case["b"]} {op} Vector({case["a"]})'
    else:
        src = f'Vector({case["a"]}) {op} ' + (f'Vector({case["b"]})' if form == 'vv' else case['b'])
    mk = lambda xs: Vector(list(xs)) if xs else Vector([], dtype=DataType(bool))
    try:
        va = mk(a)
        if form == 'vv':
            r = f(va, mk(b))
        elif form in ('vs', 'vl'):
            r = f(va, b)
        else:
            r = f(b, va)
    except Exception as e:
        return [Fail(f'C07:{site}:raised-{type(e).__name__}' + ('-empty' if not a else ''), f'{src} raised {e!r}', want, repr(e))]
    return check_bool_result(r, want, site, src)


def eval_not(case):
    a = cev(case['a'])
    want = [not x for x in a]
    src = f'~Vector({case["a"]})'
    try:
        v = Vector(list(a)) if a else Vector([], dtype=DataType(bool))
        r = ~v
    except Exception as e:
        return [Fail(f'C07:Vector.__invert__:raised-{type(e).__name__}', f'{src} raised {e!r}', want, repr(e))]
    return check_bool_result(r, want, 'Vector.__invert__', src)


# ---- tables

def mktable(d):
    return Table({k: list(v) for k, v in d.items()})


def rowkey(rk):
    kind, val = rk
    if kind == 'slice':
        return slice(*val)
    return mkmask(kind, val)


def rowkey_src(rk):
    kind, val = rk
    if kind == 'slice':
        s = slice(*val)
        return f'{"" if s.start is None else s.start}:{"" if s.stop is None else s.stop}:{"" if s.step is None else s.step}'
    return f'Vector({val})' if kind == 'vmask' else f'{val}'


def py_rows(col, rk):
    kind, val = rk
    if kind == 'slice':
        return col[slice(*val)]
    return [x for x, m in zip(col, val) if m]


def table_cells(t):
    return [list(c) for c in t.cols()]


def rowsite(rk):
    return {'slice': 'row-slice', 'vmask': 'row-vector-mask', 'lmask': 'row-list-mask'}[rk[0]]


def eval_trow(case):
    d = cev(case['t'])
    rk = case['rk']
    names = list(d)
    want = [py_rows(d[nm], rk) for nm in names]
    src = f'Table({case["t"]})[{rowkey_src(rk)}]'
    site = f'Table.getitem.{rowsite(rk)}'
    try:
        t = mktable(d)
        before = view(t)
        r = t[rowkey(rk)]
    except Exception as e:
        return [Fail(f'C07:{site}:raised-{type(e).__name__}', f'{src} raised {e!r}', want, repr(e))]
    if not isinstance(r, Table):
        return [Fail(f'C07:{site}:not-a-table', f'{src} returned {type(r).__name__}', want, r)]
    got = table_cells(r)
    fails = []
    if not same(got, want):
        # is it the column-level indexing that is wrong (same defect as on a plain vector)?
        col_level = None
        for nm in names:
            try:
                cv = Vector(list(d[nm]), name=nm) if d[nm] else Vector([], name=nm)
                cg = list(cv[rowkey(rk)])
            except Exception:
                continue
            w = py_rows(d[nm], rk)
            if not same(cg, w):
                col_level = 'C07:Vector.getitem:empty-slice' if (rk[0] == 'slice' and not w and cg) else None
                break
        if col_level:
            fails.append(Fail(col_level, f'{src}: columns {got!r}; list slicing of every column gives {want!r}', want, got))
        else:
            fails.append(Fail(f'C07:{site}:wrong-cells', f'{src}: columns {got!r}; expected {want!r}', want, got))
    if r.column_names() != names:
        fails.append(Fail(f'C07:{site}:column-names-changed', f'{src}.column_names() = {r.column_names()!r}', names, r.column_names()))
    for c0, c1 in zip(t.cols(), r.cols()):
        if kind_of(c0) is not kind_of(c1) and kind_of(c0) is not None:
            fails.append(Fail(f'C07:{site}:kind-not-kept', f'{src}: column {c0.name!r} {c0.schema()!r} -> {c1.schema()!r}', repr(c0.schema()), repr(c1.schema())))
            break
    m = truthful(r)
    if m:
        fails.append(Fail(f'C03:{site}:truthful', f'{src}: {m}', None, None))
    if view(t) != before:
        fails.append(Fail(f'C07:{site}:source-changed', src, before, view(t)))
    return fails


def eval_tbadmask(case):
    d = cev(case['t'])
    rk = case['rk']
    src = f'Table({case["t"]})[{rowkey_src(rk)}]'
    try:
        r = mktable(d)[rowkey(rk)]
    except Exception:
        return []
    return [Fail(f'C07:Table.getitem.{rowsite(rk)}:wrong-length-accepted', f'{src} did not raise', 'an error',
                 table_cells(r) if isinstance(r, Table) else r)]


def eval_tcols(case):
    d = cev(case['t'])
    names = case['names']
    have = list(d)
    src = f'Table({case["t"]})[{", ".join(repr(n) for n in names)}{"," if len(names) == 1 else ""}]'
    site = 'Table.getitem.names'
    unknown = [n for n in names if n not in have]
    truly_missing = [n for n in unknown if n.lower() not in [h.lower() for h in have]]
    try:
        t = mktable(d)
        r = t[tuple(names)]
    except Exception as e:
        if unknown:
            return []                      # an unknown (or merely case-variant) name may be rejected
        return [Fail(f'C07:{site}:raised-{type(e).__name__}', f'{src} raised {e!r}', [d[n] for n in names], repr(e))]
    if not isinstance(r, Table):
        if not unknown:
            return [Fail(f'C07:{site}:not-a-table', f'{src} returned {type(r).__name__}', [d[n] for n in names], r)]
        got_names = None
    else:
        got_names = r.column_names()
    if truly_missing:
        return [Fail(f'C07:{site}:missing-name-accepted', f'{src} did not raise; column_names() = {got_names!r}; {truly_missing[0]!r} does not exist',
                     'an error', got_names)]
    if unknown:
        # a case variant: either an error (handled above) or the same column t[name] resolves to
        want_names = [n if n in have else [h for h in have if h.lower() == n.lower()][0] for n in names]
        want = [d[n] for n in want_names]
        if got_names is None or len(got_names) != len(names) or not same(table_cells(r), want):
            return [Fail(f'C07:{site}:case-variant-name-dropped', f'{src} neither raised nor selected {len(names)} columns: column_names() = {got_names!r}',
                         want_names, got_names)]
        return []
    want = [d[n] for n in names]
    fails = []
    if got_names != names:
        fails.append(Fail(f'C07:{site}:wrong-column-names', f'{src}.column_names() = {got_names!r}', names, got_names))
    if not same(table_cells(r), want):
        fails.append(Fail(f'C07:{site}:wrong-cells', f'{src}: {table_cells(r)!r}', want, table_cells(r)))
    m = truthful(r)
    if m:
        fails.append(Fail(f'C03:{site}:truthful', f'{src}: {m}', None, None))
    return fails


def eval_tcol1(case):
    d = cev(case['t'])
    nm = case['name']
    have = list(d)
    src = f'Table({case["t"]})[{nm!r}]'
    try:
        r = mktable(d)[nm]
    except Exception as e:
        if nm in have:
            return [Fail(f'C07:Table.getitem.name:raised-{type(e).__name__}', f'{src} raised {e!r}', d[nm], repr(e))]
        return []
    if nm.lower() not in [h.lower() for h in have]:
        return [Fail('C07:Table.getitem.name:missing-name-accepted', f'{src} did not raise', 'an error', r)]
    if nm in have and (not isinstance(r, Vector) or not same(list(r), d[nm]) or r.name != nm):
        return [Fail('C07:Table.getitem.name:wrong-column', src, d[nm], r)]
    return []


def select_cols(t, names):
    return t[tuple(names)]


def eval_commute(case):
    d = cev(case['t'])
    rk = case['rk']
    single = case['k'] == 'commute1'
    names = [case['name']] if single else case['names']
    colsrc = repr(names[0]) if single else ', '.join(repr(n) for n in names) + (',' if len(names) == 1 else '')
    src1 = f't[{rowkey_src(rk)}][{colsrc}]'
    src2 = f't[{colsrc}][{rowkey_src(rk)}]'
    what = f't = Table({case["t"]}): {src1} vs {src2}'
    site = 'Table.getitem:rows-cols-commute'
    try:
        t = mktable(d)
        p = t[rowkey(rk)]
        p = p[names[0]] if single else p[tuple(names)]
        e1 = None
    except Exception as e:
        e1, p = e, None
    try:
        t2 = mktable(d)
        q = t2[names[0]] if single else t2[tuple(names)]
        q = q[rowkey(rk)]
        e2 = None
    except Exception as e:
        e2, q = e, None
    if e1 or e2:
        if e1 and e2:
            return [Fail(f'C07:{site}:both-raise', what + f': {e1!r} / {e2!r}', None, None)]
        return [Fail(f'C07:{site}:one-path-raises', what + f': rows-then-cols {e1!r}; cols-then-rows {e2!r}', None, repr(e1 or e2))]
    if single:
        c1, c2 = [list(p)], [list(q)]
        n1, n2 = [p.name], [q.name]
    else:
        if not isinstance(p, Table) or not isinstance(q, Table):
            return [Fail(f'C07:{site}:not-a-table', what + f': {type(p).__name__} / {type(q).__name__}', None, None)]
        c1, c2 = table_cells(p), table_cells(q)
        n1, n2 = p.column_names(), q.column_names()
    fails = []
    if not same(c1, c2):
        fails.append(Fail(f'C07:{site}:cells-differ', what + f': {c1!r} != {c2!r}', c1, c2))
    if n1 != n2:
        fails.append(Fail(f'C07:{site}:column-names-differ', what + f': {n1!r} != {n2!r}', n1, n2))
    return fails


def eval_trowint(case):
    d = cev(case['t'])
    i = case['i']
    want = [d[nm][i] for nm in d]
    src = f'list(Table({case["t"]})[{i}])'
    try:
        got = list(mktable(d)[i])
    except Exception as e:
        return [Fail(f'C07:Table.getitem.row-int:raised-{type(e).__name__}', f'{src} raised {e!r}', want, repr(e))]
    if not same(got, want):
        return [Fail('C07:Table.getitem.row-int:wrong-row', f'{src} = {got!r}', want, got)]
    return []


def _loose(n):
    return n.lower().replace(' ', '_')


def renamed_table(d, plan):
    """A fresh table with the plan applied: all views taken first, then the names set; nothing else touched."""
    t = mktable(d)
    cur = list(d)
    views = {}
    for i, new, how in plan:
        if (i, how) in views:
            continue
        if how == 'view':
            views[(i, how)] = t[cur[i]]
        elif how == 'attr':
            views[(i, how)] = getattr(t, cur[i])
        else:
            views[(i, how)] = t.cols()[i]
    for i, new, how in plan:
        views[(i, how)].name = new
    return t


def plan_src(d, plan):
    cur = list(d)
    parts = []
    for i, new, how in plan:
        tgt = {'view': f't[{cur[i]!r}]', 'attr': f't.{cur[i]}', 'cols': f't.cols()[{i}]'}[how]
        parts.append(f'{tgt}.name = {new!r}')
    return '; '.join(parts)


def eval_rn(case):
    d = cev(case['t'])
    plan, names, chk = case['plan'], case['names'], case['chk']
    have = list(d)
    after, gone = names_after(have, plan)
    data = [d[h] for h in have]
    pre = f't = Table({case["t"]}); views taken, then {plan_src(d, plan)}; '
    # resolve every requested name by the statement: exact name -> that column; absent -> error
    want_idx, must_raise, undecided = [], None, False
    for n in names:
        exact = [i for i, x in enumerate(after) if x == n]
        if len(exact) == 1:
            want_idx.append(exact[0])
        elif len(exact) > 1:
            undecided = True
        elif any(_loose(x) == _loose(n) for x in after):
            undecided = True                       # a case / sanitisation variant may be resolved or rejected
        else:
            must_raise = must_raise or n
    if undecided and not must_raise:
        return []
    try:
        t = renamed_table(d, plan)
    except Exception as e:
        return [Fail(f'C07:rename-through-view:raised-{type(e).__name__}', pre + f'raised {e!r}', None, repr(e))]
    stale = must_raise in gone if must_raise else False
    if chk in ('names', 'name1'):
        single = chk == 'name1'
        site = 'Table.getitem.name' if single else 'Table.getitem.names'
        keysrc = repr(names[0]) if single else ', '.join(repr(n) for n in names) + (',' if len(names) == 1 else '')
        src = pre + f't[{keysrc}]'
        try:
            r = t[names[0]] if single else t[tuple(names)]
        except Exception as e:
            if must_raise:
                return []
            return [Fail(f'C07:{site}:raised-{type(e).__name__}-after-rename', src + f' raised {e!r}; the columns are now named {after!r}',
                         [after[i] for i in want_idx], repr(e))]
        if must_raise:
            cls = 'stale-name-accepted-after-rename' if stale else 'missing-name-accepted'
            obs = r.column_names() if isinstance(r, Table) else getattr(r, 'name', r)
            return [Fail(f'C07:{site}:{cls}', src + f' did not raise; the columns are now named {after!r}, {must_raise!r} does not exist', 'an error', obs)]
        want = [data[i] for i in want_idx]
        fails = []
        if single:
            if not isinstance(r, Vector) or isinstance(r, Table) or not same(list(r), want[0]) or r.name != names[0]:
                fails.append(Fail(f'C07:{site}:wrong-column-after-rename', src + f' is {getattr(r, "name", None)!r}: {list(r) if isinstance(r, Vector) else r!r}',
                                  (names[0], want[0]), r))
            return fails
        if not isinstance(r, Table):
            return [Fail(f'C07:{site}:not-a-table', src + f' returned {type(r).__name__}', want, r)]
        if r.column_names() != names:
            fails.append(Fail(f'C07:{site}:wrong-column-names-after-rename', src + f'.column_names() = {r.column_names()!r}', names, r.column_names()))
        if not same(table_cells(r), want):
            fails.append(Fail(f'C07:{site}:wrong-cells-after-rename', src + f': {table_cells(r)!r}', want, table_cells(r)))
        m = truthful(r)
        if m:
            fails.append(Fail(f'C03:{site}:truthful', src + ': ' + m, None, None))
        if t.column_names() != after:
            fails.append(Fail(f'C07:{site}:source-names-changed', src + f': t.column_names() = {t.column_names()!r}', after, t.column_names()))
        return fails
    # commute: each path is the first access on its own freshly renamed table
    rk = case['rk']
    if must_raise or undecided:
        return []
    colsrc = ', '.join(repr(n) for n in names) + (',' if len(names) == 1 else '')
    src1, src2 = f't[{rowkey_src(rk)}][{colsrc}]', f't[{colsrc}][{rowkey_src(rk)}]'
    what = pre + f'{src1} vs {src2}'
    site = 'Table.getitem:rows-cols-commute'
    want = [py_rows(data[i], rk) for i in want_idx]
    try:
        p, e1 = t[rowkey(rk)][tuple(names)], None
    except Exception as e:
        p, e1 = None, e
    try:
        q, e2 = renamed_table(d, plan)[tuple(names)][rowkey(rk)], None
    except Exception as e:
        q, e2 = None, e
    if e1 or e2:
        if e1 and e2:
            return [Fail(f'C07:{site}:both-raise-after-rename', what + f': {e1!r} / {e2!r}', want, None)]
        return [Fail(f'C07:{site}:one-path-raises-after-rename', what + f': rows-then-cols {e1!r}; cols-then-rows {e2!r}', want, repr(e1 or e2))]
    if not isinstance(p, Table) or not isinstance(q, Table):
        return [Fail(f'C07:{site}:not-a-table', what + f': {type(p).__name__} / {type(q).__name__}', None, None)]
    c1, c2 = table_cells(p), table_cells(q)
    fails = []
    if not same(c1, c2):
        fails.append(Fail(f'C07:{site}:cells-differ-after-rename', what + f': {c1!r} != {c2!r}', c1, c2))
    elif not same(c1, want):
        # the empty-slice family is Vector.getitem's own defect; anything else is the selection
        fails.append(Fail(f'C07:{site}:wrong-cells-after-rename', what + f': both give {c1!r}, expected {want!r}', want, c1))
    if p.column_names() != q.column_names():
        fails.append(Fail(f'C07:{site}:column-names-differ-after-rename', what + f': {p.column_names()!r} != {q.column_names()!r}', p.column_names(), q.column_names()))
    elif p.column_names() != names:
        fails.append(Fail(f'C07:{site}:wrong-column-names-after-rename', what + f': {p.column_names()!r}', names, p.column_names()))
    return fails


EVAL = {'slice': eval_slice, 'int': eval_int, 'mask': eval_mask, 'badmask': eval_badmask, 'cmp': eval_cmp, 'logic': eval_logic, 'not': eval_not,
        'trow': eval_trow, 'tbadmask': eval_tbadmask, 'tcols': eval_tcols, 'tcol1': eval_tcol1, 'commute': eval_commute, 'commute1': eval_commute,
        'trowint': eval_trowint, 'rn': eval_rn, 'subint': lambda c: eval_subint(c), 'subidx': lambda c: eval_subidx(c)}


def evaluate(case):
    try:
        return EVAL[case['k']](case)
    except Exception as e:
        return [Fail(f'C07:harness:{case["k"]}:oracle-crash', f'{type(e).__name__}: {e}', None, None)]


def nontrivial(case):
    k = case['k']
    if k in ('subint', 'subidx'):
        return (k, case['var'], case['n'], case.get('form'), str(case['idx']))
    if k == 'rn':
        return (k, case['chk'], case['t'], str(case['plan']), str(case['names']), str(case.get('rk')))
    if k == 'slice':
        n = case['n']
        s = slice(*case['key'])
        idx = tuple(range(n)[s])
        # distinct = distinct selected index tuples + sign pattern of the key
        sign = tuple(None if x is None else (x > 0) - (x < 0) for x in case['key'])
        return (k, case['var'], n, idx, sign)
    if k in ('mask', 'badmask'):
        return (k, case['var'], case['n'], case['form'], tuple(case['mask']))
    if k == 'int':
        return (k, case['var'], case['n'], case['i'])
    if k in ('cmp', 'logic'):
        return (k, case['op'], case['form'], tuple(case.get('fam', ())), case['a'], case['b'])
    if k in ('trow', 'tbadmask', 'commute', 'commute1'):
        return (k, case['t'], str(case['rk']), str(case.get('names') or case.get('name')))
    return (k, case.get('t'), str(case.get('names') or case.get('name') or case.get('i') or case.get('a')))


if __name__ == '__main__':
    main('C07', cases, evaluate,
         rule='vectors of length 0..5 (int named, str unnamed, nullable float named): every slice with start,stop in {None,-7..7}, step in '
              '{None,-3..3}\\{0} vs list slicing (values, kind, name); every int index -n-2..n+1; every bool mask of length n (Vector and list) '
              'and of length n-1, n+1, n+2 (must raise); comparisons (6 operators) and logical operators (& | ^ ~) on vectors of length 0..3 over '
              '14 family pairs in vector/scalar/list/reflected forms vs Python elementwise, result non-nullable bool; tables 0..3 rows x 1..3 columns: '
              'every row slice of a reduced cube, every row mask, wrong-length masks, every name tuple of length<=3 over existing + missing + '
              'case-variant names, t[rows][cols] == t[cols][rows]; the same on tables whose names differ only in case / sanitisation; name selection '
              'as the first access after renames through live column views (single, repeated, swap, case-twin), old names must raise; int-subclass indices '
              '(bool, IntEnum, user int subclass) as v[i] for every i, and inside index lists / int Vector keys of length<=2 (3 thorough) vs list indexing.  distinct = distinct (selected index tuple, key sign pattern) etc.',
         bound=lambda tier: {'max_len': 5, 'slice_cube': '16x16x7', 'cmp_max_len': 3, 'table': '3x3', 'variants': 3 if tier == 'quick' else 4},
         nontrivial=nontrivial)

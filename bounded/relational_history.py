"""Blocks shared by the C12 (aggregate) and C13 (window) stand-ins, on top of relational_common:

op 'samename' - several value vectors in ONE call that share a NAME but not their contents.
    The statement speaks of "that group's values" of the vector that was passed to each aggregate
    argument; which vector that is, is decided by the argument, never by the vector's name.  Every
    table of a small scope is aggregated with two vectors A and B (both named 'v', different
    contents) given to different arguments of one call: every ordered pair of distinct built-ins
    (sum_over=A, mean_over=B ...), one built-in over the list [A, B], a built-in next to an apply
    entry, two apply entries.  How the pair is made ('how'): table column by name + external vector,
    table column vector + external vector, two external vectors, two table columns with one name,
    and vectors DERIVED from the table column that keep its name (-t.v, t.v.fillna(0), a copy that is
    then overwritten).  Each result column is compared with the hand oracle (relational_common.textbook /
    apply_value over hand-grouped rows) on the vector actually passed; each apply function must be
    called once per group with the group's values of ITS vector.

op 'rewrite' - repeat the call after a write.
    call op, rewrite ONE cell of a key column (or of the value column) in place, call again with
    the same arguments.  The second result must be the oracle on the NEW contents, and aggregate() and
    window() called on the rewritten table must agree with each other through each row's key.  The
    cell is rewritten through the live column view (taken before or after the first call), through
    t['k'][i] = x, through a one-cell slice or mask write of the view, and through table cell
    assignment t[i, 'k'] = x.  Old / new values run over ordinary pairs (0/1, 'a'/'b', 1/2.5) and
    pairs that are different but collide in hash (-1/-2, 0/2**61-1, -1.0/-2.0), in one key column and
    in one column of a two-column key.
A step is only reported when a FRESH table with the same (new) contents gives the oracle's
result, i.e. when the outcome depends on the history (single calls belong to the other blocks).
"""
from relational_common import *  # noqa

# --------------------------------------------------------------------------------------
# 'samename'
# --------------------------------------------------------------------------------------
SAMENAME_HOWS = ['name+ext', 'col+ext', 'ext+ext', 'twin-columns', 'col+neg', 'col+fillna', 'col+copy-written']
SN_AGGS = ['sum', 'mean', 'min', 'max', 'count', 'stdev']


def samename_plans():
    """A plan is a list of (slot, which) in call order; slot = built-in name, 'list:<builtin>'
    (both vectors in one list argument, `which` gives the order) or 'apply:<key>'."""
    plans = []
    for a in SN_AGGS:
        for b in SN_AGGS:
            if a != b:
                plans.append([(a, 'A'), (b, 'B')])
    for a in SN_AGGS:
        plans.append([(f'list:{a}', 'AB')])
        plans.append([(a, 'A'), ('apply:rec_b', 'B')])
        plans.append([('apply:rec_a', 'A'), (a, 'B')])
    plans.append([('list:sum', 'BA'), ('list:count', 'AB')])
    plans.append([('apply:rec_a', 'A'), ('apply:rec_b', 'B')])
    plans.append([('apply:rec_b', 'B'), ('apply:rec_a', 'A')])
    plans.append([('sum', 'A'), ('mean', 'B'), ('min', 'A'), ('max', 'B'), ('list:count', 'AB'), ('apply:rec_b', 'B')])
    return plans


SAMENAME_PLANS = samename_plans()
SN_KEYS = [[0, 0], [0, 1], [0, 1, 0], [0, 0, 1], [1, 0, 0], [None, 0, None]]


def _sn_second(how, a, variant):
    """Contents of the second vector for first-vector contents `a` (None: no such case)."""
    if how == 'col+neg':
        b = [None if x is None else -x for x in a]
    elif how == 'col+fillna':
        b = [0 if x is None else x for x in a]
    elif variant == 'shift':
        b = [None if x is None else x + 10 for x in a]
    elif variant == 'reverse':
        b = list(a)[::-1]
    elif variant == 'swap-none':
        b = [7 if x is None else None for x in a]
    else:
        b = [0 if x is None else x for x in a]
    return None if [cell_id(x) for x in b] == [cell_id(x) for x in a] else b


def samename_tables():
    out = []
    for keys in SN_KEYS:
        for a in itertools.product(VAL_POOL, repeat=len(keys)):
            out.append((keys, list(a)))
    return out


def samename_cases(tier, op):
    tables = samename_tables()
    per_pair = (2 if op == 'window' else 3) if tier == 'quick' else 24      # window cases cost two calls more (companion aggregate)
    variants = ['shift', 'reverse', 'swap-none', 'fill']
    cursor = 0
    for hi, how in enumerate(SAMENAME_HOWS):
        for pi, plan in enumerate(SAMENAME_PLANS):
            made, tried = 0, 0
            while made < per_pair and tried < len(tables):
                keys, a = tables[cursor % len(tables)]
                variant = variants[(cursor // len(tables) + cursor) % len(variants)]
                cursor += 1
                tried += 1
                b = _sn_second(how, a, variant)
                if b is None:
                    continue
                made += 1
                yield {'op': 'samename', 'target': op, 'how': how, 'keys': lit(keys), 'A': lit(a), 'B': lit(b),
                       'plan': [list(p) for p in plan], 'keymode': ['name', 'col', 'ext'][(hi + pi + made) % 3]}


class SameNameSetup:
    def __init__(self, case):
        self.keys = ev(case['keys'])
        self.a, self.b = ev(case['A']), ev(case['B'])
        how = case['how']
        n = len(self.keys)
        k = Vector(list(self.keys), dtype=DataType(int, True), name='k')
        pos = Vector(list(range(n)), name='pos')
        col_a = Vector(list(self.a), dtype=DataType(float, True), name='v')
        with_key = case['keymode'] != 'ext'
        head = ([k] if with_key else []) + [pos]
        if how == 'ext+ext':
            self.T = Table(head)
            self.A, self.B = col_a, Vector(list(self.b), dtype=DataType(float, True), name='v')
        elif how == 'twin-columns':
            self.T = Table(head + [col_a, Vector(list(self.b), dtype=DataType(float, True), name='v')])
            self.A, self.B = self.T.cols()[-2], self.T.cols()[-1]
        else:
            self.T = Table(head + [col_a])
            own = self.T.cols()[-1]
            self.A = 'v' if how == 'name+ext' else own
            if how == 'col+neg':
                self.B = -own
            elif how == 'col+fillna':
                self.B = own.fillna(0)
            elif how == 'col+copy-written':
                self.B = own.copy()
                for i, x in enumerate(self.b):
                    self.B[i] = x
            else:
                self.B = Vector(list(self.b), dtype=DataType(float, True), name='v')
        self.over = 'k' if case['keymode'] == 'name' else self.T.cols()[0] if case['keymode'] == 'col' else k
        self.logs = {}
        kwargs, apply = {}, {}
        pick = {'A': self.A, 'B': self.B}
        for slot, which in case['plan']:
            if slot.startswith('apply:'):
                log = self.logs.setdefault(slot[6:], [])
                apply[slot[6:]] = (pick[which], apply_fn_factory(log))
            elif slot.startswith('list:'):
                kwargs[slot[5:] + '_over'] = [pick[w] for w in which]
            else:
                kwargs[slot + '_over'] = pick[which]
        if apply:
            kwargs['apply'] = apply
        self.kwargs = kwargs

    def well_formed(self):
        """The two vectors are what the case says: named 'v', contents A / B (otherwise the derivation
        itself misbehaved, which is another property's business)."""
        va = self.T.cols()[-1] if isinstance(self.A, str) else self.A
        return (va._name == 'v' and self.B._name == 'v' and va is not self.B
                and list(va._underlying) == list(self.a) and list(self.B._underlying) == list(self.b))

    def snapshot(self):
        return (view(self.T), view(self.B), None if isinstance(self.A, str) else view(self.A),
                view(self.over) if isinstance(self.over, Vector) else None)


def samename_expected(op, keys, a, b, plan):
    """[(slot label, which, per-output-row expected values, per-output-row values of the OTHER vector)]."""
    order, grows = group_by_hand([(x,) for x in keys])
    group_of = [next(g for g, k in enumerate(order) if k == (key,)) for key in keys]
    src = {'A': a, 'B': b}
    other = {'A': 'B', 'B': 'A'}

    def column(slot, which):
        vals = src[which]
        if slot.startswith('apply:'):
            per_group = [apply_value([vals[i] for i in rows]) for rows in grows]
        else:
            per_group = [textbook(slot, [vals[i] for i in rows]) for rows in grows]
        return per_group if op == 'aggregate' else [per_group[g] for g in group_of]

    out = []
    for slot, which in plan:
        if slot.startswith('list:'):
            for j, w in enumerate(which):
                out.append((slot, j, w, column(slot[5:], w), column(slot[5:], other[w])))
        else:
            out.append((slot, None, which, column(slot, which), column(slot, other[which])))
    keyrows = list(order) if op == 'aggregate' else [(x,) for x in keys]
    return keyrows, grows, out


def locate(res, slot, j):
    names = list(res.column_names())
    if slot.startswith('apply:'):
        return out_column(res, slot[6:])
    if slot.startswith('list:'):
        hits = [i for i, nm in enumerate(names) if nm is not None and nm.startswith(f'v_{slot[5:]}')]
        return list(res.cols()[hits[j]]._underlying) if len(hits) == 2 else None
    return out_column(res, f'v_{slot}')


def eval_samename(pid, case):
    op = case['target']
    site = f'{op}-same-name-vectors'
    descr = (f"{op}(over=k ({case['keymode']}), {case['plan']}) with A, B both named 'v' ({case['how']}): k={case['keys']} A={case['A']} B={case['B']}")
    try:
        s = SameNameSetup(case)
        if not s.well_formed():
            return []
    except Exception as e:
        if case['how'] in ('col+neg', 'col+fillna', 'col+copy-written'):
            return []      # the derivation is not this property's business
        return [Fail(f'{pid}:setup:raises:{type(e).__name__}', f'{descr}: building the operands raised {e!r}', None, repr(e))]
    before = s.snapshot()
    fails = []
    try:
        res = getattr(s.T, op)(s.over, **s.kwargs)
    except Exception as e:
        return [Fail(f'{pid}:{site}:raises:{type(e).__name__}', f'{descr}: raised {e!r}', None, repr(e), f'{pid}:{op}:post')]
    try:
        m = truthful(res)
        if m:
            fails.append(Fail(f'C03:{op}:truthful', f'{descr}: {m}', None, m))
        keyrows, grows, expected = samename_expected(op, s.keys, s.a, s.b, [tuple(p) for p in case['plan']])
        n = len(keyrows)
        if len(res.cols()) != 1 + len(expected):
            return fails + [Fail(f'{pid}:{site}:column-count', f'{descr}: columns {list(res.column_names())!r}; expected the key column and one column '
                                 f'per aggregate argument entry', 1 + len(expected), list(res.column_names()))]
        if len(res) != n or any(len(c._underlying) != n for c in res.cols()):
            return fails + [Fail(f'{pid}:{site}:row-count', f'{descr}: {len(res)} rows, expected {n}', n, len(res), f'{pid}:{op}:post')]
        got_keys = [(x,) for x in res.cols()[0]._underlying]
        if not rows_same(got_keys, keyrows):
            return fails + [Fail(f'{pid}:{site}:key-columns', f'{descr}: first column is not the expected key column', keyrows, got_keys, f'{pid}:{op}:post')]
        for slot, j, which, want, want_other in expected:
            label = slot.split(':')[0] if slot.startswith('apply:') else slot.replace('list:', '') + ('-in-list' if slot.startswith('list:') else '')
            col = locate(res, slot, j)
            if col is None:
                fails.append(Fail(f'{pid}:{site}:{label}:missing-column', f'{descr}: no output column for {slot} of vector {which}', slot,
                                  list(res.column_names())))
                continue
            eq = (lambda x, y: x == y) if slot.startswith('apply:') else close
            if not all(eq(x, y) for x, y in zip(col, want)):
                cls = 'value-of-the-other-vector' if all(eq(x, y) for x, y in zip(col, want_other)) else 'value'
                fails.append(Fail(f'{pid}:{site}:{label}:{cls}', f'{descr}: the {slot} column of vector {which} is not computed from the values of '
                                  f'the vector that was passed' + (' (it holds the result for the other vector of the same name)' if cls != 'value' else ''),
                                  want, col, f'{pid}:{op}:{label}:elem'))
        for slot, which in case['plan']:
            if slot.startswith('apply:'):
                vals = s.a if which == 'A' else s.b
                gvals = [[vals[i] for i in rows] for rows in grows]
                log = s.logs[slot[6:]]
                if Counter(map(repr, log)) != Counter(map(repr, gvals)):
                    cls = 'call-count' if len(log) != len(gvals) else 'call-arguments'
                    fails.append(Fail(f'{pid}:{site}:apply:{cls}', f'{descr}: apply function {slot[6:]!r} (vector {which}) must be called once per group with '
                                      f'that group\'s values of its own vector', gvals, log, f'{pid}:{op}:apply'))
        if op == 'window' and not fails:
            # window = aggregate (same arguments, freshly built operands) joined back to the rows on the key
            s2 = SameNameSetup(case)
            try:
                agg = s2.T.aggregate(s2.over, **s2.kwargs)
            except Exception as e:
                return fails + [Fail(f'{pid}:aggregate-same-name-vectors:raises:{type(e).__name__}', f'{descr}: the companion aggregate() call raised {e!r}',
                                     None, repr(e))]
            agg_keys = list(agg.cols()[0]._underlying)
            for slot, j, which, want, want_other in expected:
                col, acol = locate(res, slot, j), locate(agg, slot, j)
                if col is None or acol is None:
                    continue
                via = []
                for key in s.keys:
                    hits = [acol[g] for g, k in enumerate(agg_keys) if k == key]
                    via.append(hits[0] if len(hits) == 1 else ('<no unique aggregate row for key>', key, len(hits)))
                eq = (lambda x, y: x == y) if slot.startswith('apply:') else close
                if not all(eq(x, y) for x, y in zip(col, via)):
                    fails.append(Fail(f'{pid}:{site}:differs-from-aggregate', f'{descr}: the {slot} column of vector {which} differs from aggregate() with the '
                                      f'same arguments looked up through each row\'s key', via, col, f'{pid}:lemma:window=aggregate-join-rows'))
                    break
    except Exception as e:
        fails.append(Fail(f'{pid}:{site}:malformed-result', f'{descr}: result could not be read: {e!r}', None, repr(e)))
    if s.snapshot() != before:
        fails.append(Fail(f'{pid}:{site}:input-modified', f'{descr}: the table or a passed vector changed', before, s.snapshot()))
    return fails


# --------------------------------------------------------------------------------------
# 'rewrite'
# --------------------------------------------------------------------------------------
REWRITE_HOWS = ['view-cell', 'held-view-cell', 'getitem-cell', 'view-slice', 'view-mask', 'table-cell']
# (label, kind, old/new pool); the 'hc-*' pairs are different values with equal hash()
REWRITE_KEY_PAIRS = [('plain-int', int, [0, 1]), ('hc-neg', int, [-1, -2]), ('hc-mersenne', int, [0, MERSENNE61]),
                     ('plain-str', str, ['a', 'b']), ('hc-float', float, [-1.0, -2.0])]
REWRITE_VAL_PAIRS = [('plain-num', float, [1.0, 2.5]), ('hc-neg', int, [-1, -2]), ('hc-mersenne', int, [0, MERSENNE61]),
                     ('hc-float', float, [-1.0, -2.0])]
assert hash(-1.0) == hash(-2.0)
REWRITE_AGGS = ['sum', 'count', 'min', 'max', 'mean']


def rewrite_cases(tier, op):
    n = 3
    idx = 0
    for target, pairs in (('key', REWRITE_KEY_PAIRS), ('val', REWRITE_VAL_PAIRS)):
        for label, kind, pool in pairs:
            for nk in ((1, 2) if target == 'key' else (1,)):
                for cells in itertools.product(pool, repeat=n):
                    for i in range(n):
                        new = pool[1] if cells[i] == pool[0] else pool[0]
                        for how in REWRITE_HOWS:
                            idx += 1
                            if tier == 'quick' and not label.startswith('hc-') and idx % 2:
                                continue
                            if tier == 'quick' and nk == 2 and idx % 3:
                                continue
                            if tier == 'quick' and target == 'val' and how in ('held-view-cell', 'getitem-cell', 'view-mask'):
                                continue
                            other = [0, 1, 0] if target == 'val' else [1, 2.5, 1]
                            yield {'op': 'rewrite', 'target': op, 'write': target, 'family': label, 'kind': kind.__name__, 'nk': nk,
                                   'cells': lit(list(cells)), 'other': lit(other), 'i': i, 'new': lit(new), 'how': how,
                                   'keymode': ['name', 'col'][idx % 2]}


def _rw_build(case, cells):
    kind = {'int': int, 'float': float, 'str': str}[case['kind']]
    other = ev(case['other'])
    cols = []
    if case['nk'] == 2:
        cols.append(Vector(['p', 'p', 'q'], name='g'))
    if case['write'] == 'key':
        cols += [Vector(list(cells), dtype=DataType(kind, True), name='k'), Vector(list(other), dtype=DataType(float, True), name='v')]
    else:
        cols += [Vector(list(other), dtype=DataType(int, True), name='k'), Vector(list(cells), dtype=DataType(kind, True), name='v')]
    return Table(cols)


def _rw_keys(case, cells):
    other = ev(case['other'])
    kcol = list(cells) if case['write'] == 'key' else list(other)
    vals = list(other) if case['write'] == 'key' else list(cells)
    keys = [(('p', 'p', 'q')[i], k) for i, k in enumerate(kcol)] if case['nk'] == 2 else [(k,) for k in kcol]
    return keys, vals


def _rw_call(op, T, case):
    nk = case['nk']
    if case['keymode'] == 'name':
        over = ['g', 'k'][2 - nk:]
    else:
        over = list(T.cols()[:nk])
    if nk == 1:
        over = over[0]
    log = []
    return getattr(T, op)(over, apply={'rec': ('v', apply_fn_factory(log))}, **{f'{a}_over': 'v' for a in REWRITE_AGGS})


def _rw_write(T, held, case):
    name = 'k' if case['write'] == 'key' else 'v'
    i, new, how = case['i'], ev(case['new']), case['how']
    if how == 'view-cell':
        getattr(T, name)[i] = new
    elif how == 'held-view-cell':
        held[i] = new
    elif how == 'getitem-cell':
        T[name][i] = new
    elif how == 'view-slice':
        getattr(T, name)[i:i + 1] = [new]
    elif how == 'view-mask':
        getattr(T, name)[Vector([j == i for j in range(len(T))])] = new
    else:
        T[i, name] = new


def _rw_agreement(T, case, nk, keys):
    """window(...) on T versus aggregate(...) on T looked up through each row's key (None when they agree)."""
    w, a = _rw_call('window', T, case), _rw_call('aggregate', T, case)
    agg_keys = [tuple(list(c._underlying)[g] for c in a.cols()[:nk]) for g in range(len(a))]
    for name in [f'v_{x}' for x in REWRITE_AGGS] + ['rec']:
        wc, ac = out_column(w, name), out_column(a, name)
        if wc is None or ac is None or len(wc) != len(keys):
            return name, None, wc
        via = []
        for key in keys:
            hits = [ac[g] for g, k in enumerate(agg_keys) if k == key]
            via.append(hits[0] if len(hits) == 1 else ('<no unique aggregate row for key>', key, len(hits)))
        eq = (lambda x, y: x == y) if name == 'rec' else close
        if not all(eq(x, y) for x, y in zip(wc, via)):
            return name, via, wc
    return None


def eval_rewrite(pid, case):
    op, nk = case['target'], case['nk']
    what = 'key' if case['write'] == 'key' else 'value'
    site = f'{op}-after-write:{what}-cell-rewritten:{case["how"]}'
    cells0 = ev(case['cells'])
    cells1 = list(cells0)
    cells1[case['i']] = ev(case['new'])
    descr = (f"{op}() on one table, {what} column {cells0!r} -> cell {case['i']} rewritten to {case['new']} ({case['how']}, {case['family']}, "
             f"{nk} key column(s) by {case['keymode']}), then the same {op}() call again")
    try:
        T = _rw_build(case, cells0)
        held = T.k if case['write'] == 'key' else T.v
    except Exception as e:
        return [Fail(f'{pid}:setup:raises:{type(e).__name__}', f'{descr}: building the table raised {e!r}', None, repr(e))]
    fails = []
    keys0, vals0 = _rw_keys(case, cells0)
    try:
        first = _rw_call(op, T, case)
        if diff_output(first, nk, *expected_output(op, keys0, vals0, REWRITE_AGGS, True)):
            return []              # wrong on the first call: a single-call defect (other blocks)
    except Exception:
        return []
    try:
        _rw_write(T, held, case)
        col = T.cols()[nk - 1 if case['write'] == 'key' else nk]
        if [cell_id(x) for x in col._underlying] != [cell_id(x) for x in cells1]:
            return []              # the write did not take (or converted the value): not this property's business
    except Exception:
        return []
    keys1, vals1 = _rw_keys(case, cells1)
    keyrows, cols = expected_output(op, keys1, vals1, REWRITE_AGGS, True)
    try:
        res = _rw_call(op, T, case)
        cls = diff_output(res, nk, keyrows, cols)
        shown = rows_of(res) if cls else None
        m = truthful(res)
        if m:
            fails.append(Fail(f'C03:{op}:truthful', f'{descr}: {m}', None, m))
    except Exception as e:
        cls, shown = f'raises:{type(e).__name__}', repr(e)
    if cls:
        try:
            fresh_ok = diff_output(_rw_call(op, _rw_build(case, cells1), case), nk, keyrows, cols) is None
        except Exception:
            fresh_ok = False
        if fresh_ok:
            fails.append(Fail(f'{pid}:{site}:stale-{cls}', f'{descr}: the second result does not reflect the rewritten {what} column {cells1!r} '
                              f'(a fresh table with the same contents gives the expected result)', (keyrows, cols), shown, f'{pid}:{op}:post'))
        return fails
    # window and aggregate, both called on the rewritten table, agree through each row's key
    try:
        bad = _rw_agreement(T, case, nk, keys1)
        if bad:
            fails.append(Fail(f'{pid}:{site}:window-differs-from-aggregate', f'{descr}: after the write, column {bad[0]} of window() differs from '
                              f'aggregate() looked up through each row\'s key', bad[1], bad[2], f'{pid}:lemma:window=aggregate-join-rows'))
    except Exception as e:
        fails.append(Fail(f'{pid}:{site}:agreement-raises:{type(e).__name__}', f'{descr}: calling window() and aggregate() on the rewritten table raised {e!r}',
                          None, repr(e)))
    return fails


def history_signature(case):
    if case['op'] == 'samename':
        return ('samename', case['target'], case['how'], tuple(map(tuple, case['plan'])), case['keys'], case['A'], case['B'])
    return ('rewrite', case['target'], case['write'], case['family'], case['nk'], case['how'], case['cells'], case['i'])

"""C06 bounded stand-in: None propagates through arithmetic, compares False, is skipped by
reductions (but counted by len), and isna / dropna / fillna agree with one another.

Scope (exhaustive inside it): every dtype pool (int, float, bool, complex, str, date, datetime,
object) x every subset of None positions at lengths 0..4 x
  * every arithmetic operator (+ - * / // % **, unary - + abs) in vector / scalar / list /
    reflected forms, the other operand carrying None at every subset of positions as well
    (length 4: a reduced set of right-hand placements in the quick tier);
  * every comparison (== != < <= > >=) in the same forms, incl. date vectors against date, str and
    datetime operands;
  * every reduction (sum, mean, min, max, stdev, any, all) and len;
  * isna / dropna / fillna(x) for x in a 10-value pool (None, narrower, same, wider, incompatible);
  * float NaN as an element (a value, not a missing one) of float, complex and object vectors: every
    sequence over {value, NaN, None} at lengths 0..4 through isna / dropna / fillna(x) (x also NaN / inf),
    each against the list and the three against one another position by position;
  * per-group aggregates: aggregate() and window() with sum / mean / min / max / count / stdev over tables
    of 1..3 groups drawn from 9 group shapes (one None row, all None, one real value, None before / after /
    between values ...), rows grouped or interleaved, six value kinds: every group's value against the
    textbook value of its non-None values and against the Vector reduction of the same group;
  * receivers with a history ("nullable-flagged, None-free" and relatives): the same contents reached by a
    boolean-list / boolean-vector / isna mask, an index list, a slice or a table row selection of a longer
    nullable vector, by overwriting a None (by position or by mask), by an explicit nullable dtype, and
    copies of those: isna / dropna / fillna(x) for the whole fill pool (None, same kind, promoting, foreign),
    their mutual agreement, the unary operators and every reduction, schema and values against the statement
    exactly as for a freshly built vector.
Oracle: plain Python over the list (None-free list for reductions).  Where Python itself does not
define the scalar operation (TypeError ...) or the statement gives no value (min/max of nothing,
fillna with an incompatible kind that is rejected) the case is skipped.
"""
import itertools
import math
import operator
from datetime import date, datetime, timedelta

from harness import *  # noqa

_hlit = lit


def lit(x):      # noqa: F811  (harness.lit + timedelta / complex-safe)
    if isinstance(x, timedelta):
        return f'timedelta(days={x.days}, seconds={x.seconds})'
    if isinstance(x, (list, tuple)):
        inner = ', '.join(lit(e) for e in x)
        if isinstance(x, tuple):
            return '(' + inner + (',' if len(x) == 1 else '') + ')'
        return '[' + inner + ']'
    return _hlit(x)


_EV = {}


def cev(src):
    if src not in _EV:
        _EV[src] = ev(src)
    x = _EV[src]
    return list(x) if isinstance(x, list) else x


D, D2, D3, D4 = date(2020, 1, 31), date(2021, 3, 1), date(2019, 12, 31), date(2020, 2, 29)
DT = [datetime(2020, 1, 31, 0, 0), datetime(2021, 3, 1, 12, 30), datetime(2019, 12, 31, 0, 0), datetime(2020, 2, 29, 23, 59)]
TD = timedelta(days=2)

# dtype -> base values (length 4)
BASE = {
    'int': [3, -1, 0, 7],
    'float': [2.5, -1.0, 0.0, 4.25],
    'bool': [True, False, True, False],
    'complex': [1j, 2 + 0j, 0j, 1 + 1j],
    'str': ['a', 'bc', '', 'a'],
    'date': [D, D2, D3, D4],
    'datetime': DT,
    'object': [1, 'a', 2.5, (1,)],
}
KIND = {'int': int, 'float': float, 'bool': bool, 'complex': complex, 'str': str, 'date': date, 'datetime': datetime, 'object': object}

# arithmetic partners: dtype -> list of (tag, partner list of length 4, scalar)
ARITH = {
    'int': [('int', [2, 5, -3, 1], 2), ('float', [0.5, 2.0, -4.0, 1.5], 2.5)],
    'float': [('float', [0.5, 2.0, -4.0, 1.5], 0.5), ('int', [2, 5, -3, 1], 2)],
    'bool': [('bool', [True, True, True, True], True), ('int', [2, 5, -3, 1], 2)],
    'complex': [('complex', [2 + 0j, 1j, 1 + 1j, 3 + 0j], 1j)],
    'str': [('str', ['x', 'y', 'z', 'w'], 'x'), ('int', [2, 0, 1, 3], 2)],
    'date': [('td', [TD, timedelta(days=-1), TD, timedelta(days=30)], TD), ('date', [D2, D, D4, D3], D2)],
    'datetime': [('td', [TD, timedelta(days=-1), TD, timedelta(days=30)], TD)],
    'object': [('object', [2, 'b', 0.5, (2,)], None)],
}
# comparison partners: dtype -> list of (tag, partner list, scalar)
CMP = {
    'int': [('int', [3, 2, -5, 7], 3), ('float', [3.0, 2.5, 0.0, 9.5], 0.0)],
    'float': [('float', [2.5, 0.0, -3.0, 4.25], 2.5), ('int', [2, -1, 0, 5], 0)],
    'bool': [('bool', [True, True, False, False], True)],
    'complex': [('complex', [1j, 1j, 0j, 2j], 1j)],
    'str': [('str', ['a', 'b', '', 'A'], 'a')],
    'date': [('date', [D, D, D4, D4], D), ('isostr', ['2020-01-31', '2020-01-31', '2020-02-29', '2020-02-29'], '2020-01-31'),
             ('datetime', [DT[0], DT[0], DT[3], DT[3]], DT[0])],
    'datetime': [('datetime', [DT[0], DT[0], DT[3], DT[3]], DT[0])],
    'object': [('object', [1, 'b', 2.5, (1,)], 1)],
}
BINOPS = {'+': operator.add, '-': operator.sub, '*': operator.mul, '/': operator.truediv,
          '//': operator.floordiv, '%': operator.mod, '**': operator.pow}
DUNDER = {'+': 'add', '-': 'sub', '*': 'mul', '/': 'truediv', '//': 'floordiv', '%': 'mod', '**': 'pow'}
UNOPS = {'neg': operator.neg, 'pos': operator.pos, 'abs': operator.abs}
CMPOPS = {'==': operator.eq, '!=': operator.ne, '<': operator.lt, '<=': operator.le, '>': operator.gt, '>=': operator.ge}
CMPNAME = {'==': 'eq', '!=': 'ne', '<': 'lt', '<=': 'le', '>': 'gt', '>=': 'ge'}
SWAP = {'==': '==', '!=': '!=', '<': '>', '<=': '>=', '>': '<', '>=': '<='}
REDUCTIONS = ['sum', 'mean', 'min', 'max', 'stdev', 'any', 'all', 'len']
FILL = [None, 0, 5, True, 2.5, 1j, 'z', D, datetime(2020, 1, 1, 0, 0), (1,)]
FORMNAME = {'vv': 'vector', 'vs': 'scalar', 'vl': 'list', 'sv': 'scalar', 'lv': 'list'}


def masks(n):
    return list(itertools.product([False, True], repeat=n))


def apply_mask(vals, mask):
    return [None if m else v for v, m in zip(vals, mask)]


def right_masks(n, lm, tier):
    if n < 4 or tier != 'quick':
        return masks(n)
    out = [tuple([False] * n), tuple(reversed(lm)), tuple(not m for m in lm), tuple([True] * n)]
    return list(dict.fromkeys(out))


def vectors(dt):
    """(values, typed) for every length 0..4 and None subset; all-None / empty also as a typed vector."""
    for n in range(5):
        for m in masks(n):
            vals = apply_mask(BASE[dt][:n], m)
            yield vals, False, m
            if all(x is None for x in vals):
                yield vals, True, m


# ---- NaN is a value ------------------------------------------------------------------------------
NAN = float('nan')
NAN_POOLS = {
    # dt -> (real values by position, extra fill values)
    'float': [2.5, -1.0, 0.0, 4.25],
    'object': [1, 'a', (1,), 2.5],
    'complex': [1j, 2 + 0j, 0j, 1 + 1j],
}
NAN_FILL = [None, 0, 2.5, NAN, float('inf'), 'z', 1j]


def nan_vectors(dt, tier):
    base = NAN_POOLS[dt]
    for n in range(5):
        for pat in itertools.product('vnN', repeat=n):        # value / nan / None
            if 'n' not in pat:
                continue                                      # no NaN: the blocks above
            if n == 4 and tier == 'quick' and pat.count('v') > 2:
                continue
            yield [base[i] if c == 'v' else (NAN if c == 'n' else None) for i, c in enumerate(pat)]


# ---- per-group aggregates ------------------------------------------------------------------------
AGGS = ['sum', 'mean', 'min', 'max', 'count', 'stdev']
GROUP_SHAPES = ['N', 'NN', 'v', 'Nv', 'vN', 'vv', 'NvN', 'vNv', 'NNN']
GROUP_POOLS = {
    'int': [3, -1, 7, 0, 12, 5], 'float': [2.5, -1.0, 4.25, 0.5, 8.0, -3.5], 'bool': [True, False, True, True, False, False],
    'complex': [1j, 2 + 0j, 1 + 1j, 3 + 0j, 2j, 1 - 1j], 'str': ['a', 'bc', 'b', '', 'zz', 'B'], 'date': [D, D2, D3, D4, D2, D],
}
GROUP_AGGS = {'int': AGGS, 'float': AGGS, 'bool': AGGS, 'complex': ['sum', 'mean', 'count', 'stdev'],
              'str': ['min', 'max', 'count'], 'date': ['min', 'max', 'count']}


def group_tables(tier):
    one = [(a,) for a in GROUP_SHAPES]
    two = [(a, b) for a in GROUP_SHAPES for b in GROUP_SHAPES]
    third = GROUP_SHAPES if tier != 'quick' else ['N', 'v', 'NN']
    three = [(a, b, c) for a in GROUP_SHAPES for b in GROUP_SHAPES for c in third]
    return one + two, three


def cases_strengthen(tier):
    for dt in NAN_POOLS:
        for vals in nan_vectors(dt, tier):
            objs = [False, True] if dt != 'object' else [False]
            for obj in objs:
                extra = {'obj': True} if obj else {}
                yield dict({'k': 'tri', 'dt': dt, 'a': lit(vals), 'typed': False, 'nan': 1}, **extra)
                yield dict({'k': 'tri3', 'dt': dt, 'a': lit(vals), 'typed': False, 'nan': 1}, **extra)
                for x in NAN_FILL:
                    yield dict({'k': 'fill', 'dt': dt, 'a': lit(vals), 'typed': False, 'x': lit(x), 'nan': 1}, **extra)
    small, big = group_tables(tier)
    for fn in ('aggregate', 'window'):
        for dt in GROUP_POOLS:
            tabs = small + (big if tier != 'quick' or dt in ('int', 'float', 'str') else [])
            for shapes in tabs:
                for layout in ('grouped', 'interleaved'):
                    if len(shapes) == 1 and layout == 'interleaved':
                        continue
                    for how in (('name',) if tier == 'quick' else ('name', 'vector')):
                        yield {'k': 'grp', 'fn': fn, 'dt': dt, 'shapes': list(shapes), 'layout': layout, 'aggs': GROUP_AGGS[dt], 'how': how,
                               'a': '[None]'}
                        if len(shapes) <= 2 or tier != 'quick':
                            for agg in GROUP_AGGS[dt]:
                                yield {'k': 'grp', 'fn': fn, 'dt': dt, 'shapes': list(shapes), 'layout': layout, 'aggs': [agg], 'how': how,
                                       'a': '[None]'}


# ---- receivers with a history --------------------------------------------------------------------
DERIVS = ['mask-list', 'mask-vector', 'mask-isna', 'index-list', 'slice', 'table-rows', 'copy-of-mask',
          'overwrite', 'overwrite-mask', 'explicit-nullable']


def deriv_positions(deriv, n, tier):
    """Where the extra None sits in the longer parent (selection) / which position is overwritten."""
    if deriv == 'explicit-nullable':
        return [0]
    if deriv in ('overwrite', 'overwrite-mask'):
        allpos = list(range(n))
    elif deriv == 'slice':
        allpos = [0, n] if n else [0]
    else:
        allpos = list(range(n + 1))
    if tier == 'quick' and len(allpos) > 1:
        return [allpos[min(1, len(allpos) - 1)]] if deriv != 'slice' else allpos
    return allpos


def parent_vector(vals, dt):
    if all(x is None for x in vals):
        return Vector(list(vals), dtype=DataType(KIND[dt], nullable=True)), f'Vector({lit(vals)}, dtype=DataType({dt}, nullable=True))'
    return Vector(list(vals)), f'Vector({lit(vals)})'


def derive(vals, dt, d):
    """(vector, source text) holding exactly vals, produced through the history d = {'how', 'pos'}."""
    how, pos = d['how'], d['pos']
    n = len(vals)
    if how == 'explicit-nullable':
        return Vector(list(vals), dtype=DataType(KIND[dt], nullable=True)), f'Vector({lit(vals)}, dtype=DataType({dt}, nullable=True))'
    if how in ('overwrite', 'overwrite-mask'):
        parent = list(vals)
        parent[pos] = None
        v, src = parent_vector(parent, dt)
        if how == 'overwrite':
            v[pos] = vals[pos]
            return v, f'v = {src}; v[{pos}] = {lit(vals[pos])}'
        mask = [i == pos for i in range(n)]
        v[mask] = vals[pos]
        return v, f'v = {src}; v[{mask}] = {lit(vals[pos])}'
    parent = list(vals[:pos]) + [None] + list(vals[pos:])
    keep = [i != pos for i in range(n + 1)]
    v, src = parent_vector(parent, dt)
    if how == 'mask-list':
        return v[keep], f'{src}[{keep}]'
    if how == 'mask-vector':
        return v[Vector(keep)], f'{src}[Vector({keep})]'
    if how == 'mask-isna':
        if any(x is None for x in vals):
            raise Skip()
        return v[v.isna() == False], f'v = {src}; v[v.isna() == False]'      # noqa: E712
    if how == 'index-list':
        idx = [i for i in range(n + 1) if i != pos]
        if not idx:
            raise Skip()
        return v[idx], f'{src}[{idx}]'
    if how == 'slice':
        return (v[1:], f'{src}[1:]') if pos == 0 else (v[:n], f'{src}[:{n}]')
    if how == 'copy-of-mask':
        return v[keep].copy(), f'{src}[{keep}].copy()'
    if how == 'table-rows':
        t = Table({'x': v, 'y': list(range(n + 1))})
        return t[keep]['x'], f"Table({{'x': {src}, 'y': {list(range(n + 1))}}})[{keep}]['x']"
    raise Skip()


def cases_history(tier):
    for dt in BASE:
        vecs = []
        top = 3 if tier == 'quick' else 4
        for n in range(top + 1):
            for m in masks(n):
                if tier == 'quick' and (sum(m) > 1 or (sum(m) == 1 and n < 2)):
                    continue
                vecs.append(apply_mask(BASE[dt][:n], m))
        for vals in vecs:
            for how in DERIVS:
                for pos in deriv_positions(how, len(vals), tier):
                    if how in ('overwrite', 'overwrite-mask') and vals[pos] is None:
                        continue
                    d = {'how': how, 'pos': pos}
                    base = {'dt': dt, 'a': lit(vals), 'typed': False, 'deriv': d}
                    yield dict(base, k='tri')
                    yield dict(base, k='tri3')
                    for x in FILL:
                        yield dict(base, k='fill', x=lit(x))
                    for r in REDUCTIONS:
                        yield dict(base, k='red', r=r)
                    if tier != 'quick':
                        for op in UNOPS:
                            yield dict(base, k='unary', op=op)


def cases(tier, seed):
    yield from cases_base(tier, seed)
    yield from cases_strengthen(tier)
    yield from cases_history(tier)


def cases_base(tier, seed):
    for dt in BASE:
        # ---- arithmetic
        for tag, partner, scalar in ARITH[dt]:
            for op in BINOPS:
                for n in range(5):
                    for lm in masks(n):
                        a = apply_mask(BASE[dt][:n], lm)
                        for form in ('vv', 'vl', 'lv'):
                            for rm in right_masks(n, lm, tier):
                                b = apply_mask(partner[:n], rm)
                                yield {'k': 'arith', 'dt': dt, 'tag': tag, 'op': op, 'form': form, 'a': lit(a), 'b': lit(b)}
                        if scalar is not None:
                            yield {'k': 'arith', 'dt': dt, 'tag': tag, 'op': op, 'form': 'vs', 'a': lit(a), 'b': lit(scalar)}
                            yield {'k': 'arith', 'dt': dt, 'tag': tag, 'op': op, 'form': 'sv', 'a': lit(a), 'b': lit(scalar)}
        for op in UNOPS:
            for vals, typed, m in vectors(dt):
                yield {'k': 'unary', 'dt': dt, 'op': op, 'a': lit(vals), 'typed': typed}
        # ---- comparisons
        for tag, partner, scalar in CMP[dt]:
            for op in CMPOPS:
                for n in range(5):
                    for lm in masks(n):
                        a = apply_mask(BASE[dt][:n], lm)
                        typed_opts = [False, True] if all(x is None for x in a) else [False]
                        for typed in typed_opts:
                            for form in ('vv', 'vl', 'lv'):
                                for rm in right_masks(n, lm, tier):
                                    b = apply_mask(partner[:n], rm)
                                    yield {'k': 'cmp', 'dt': dt, 'tag': tag, 'op': op, 'form': form, 'a': lit(a), 'b': lit(b), 'typed': typed}
                            yield {'k': 'cmp', 'dt': dt, 'tag': tag, 'op': op, 'form': 'vs', 'a': lit(a), 'b': lit(scalar), 'typed': typed}
                            yield {'k': 'cmp', 'dt': dt, 'tag': tag, 'op': op, 'form': 'sv', 'a': lit(a), 'b': lit(scalar), 'typed': typed}
        # ---- reductions
        for vals, typed, m in vectors(dt):
            for r in REDUCTIONS:
                yield {'k': 'red', 'dt': dt, 'r': r, 'a': lit(vals), 'typed': typed}
        # ---- isna / dropna / fillna
        for vals, typed, m in vectors(dt):
            yield {'k': 'tri', 'dt': dt, 'a': lit(vals), 'typed': typed}
            for x in FILL:
                yield {'k': 'fill', 'dt': dt, 'a': lit(vals), 'typed': typed, 'x': lit(x)}
            if dt != 'object' and not typed:       # the same values as an object vector (to_object)
                yield {'k': 'tri', 'dt': dt, 'a': lit(vals), 'typed': typed, 'obj': True}
                for x in FILL:
                    yield {'k': 'fill', 'dt': dt, 'a': lit(vals), 'typed': typed, 'x': lit(x), 'obj': True}


# --------------------------------------------------------------------------------------------

def mkvec(vals, dt, typed, obj=False, deriv=None):
    if deriv:
        v, _ = derive(list(vals), dt, deriv)
        if not isinstance(v, Vector) or isinstance(v, Table) or not same(list(v), list(vals)):
            raise Skip()                            # the history did not produce these contents: not C06's business
        return v
    if typed:
        return Vector(list(vals), dtype=DataType(KIND[dt], nullable=bool(vals)))
    if obj:
        return Vector(list(vals)).to_object()
    return Vector(list(vals))


def vsrc(case):
    if case.get('deriv'):
        try:
            return '(' + derive(cev(case['a']), case['dt'], case['deriv'])[1] + ')'
        except Exception:
            return f'<{case["deriv"]["how"]} history of {case["a"]}>'
    if case.get('typed'):
        return f'Vector({case["a"]}, dtype=DataType({case["dt"]}, nullable={case["a"] != "[]"}))'
    if case.get('obj'):
        return f'Vector({case["a"]}).to_object()'
    return f'Vector({case["a"]})'


def owner(v, dunder):
    for c in type(v).__mro__:
        if dunder in c.__dict__:
            return c.__name__
    return type(v).__name__


class Skip(Exception):
    pass


def elementwise(f, xs, ys):
    out = []
    for x, y in zip(xs, ys):
        if x is None or y is None:
            out.append(None)
        else:
            try:
                out.append(f(x, y))
            except Exception:
                raise Skip()
    return out


def run_arith(op, form, a, b, dt):
    """a is always the serif-side base operand list; b the partner (list or scalar)."""
    f = BINOPS[op]
    va = Vector(list(a))
    if form == 'vv':
        return f(va, Vector(list(b)))
    if form in ('vs', 'vl'):
        return f(va, b)
    return f(b, va)             # sv, lv: partner written on the left


def eval_arith(case):
    op, form, dt = case['op'], case['form'], case['dt']
    a, b = cev(case['a']), cev(case['b'])
    f = BINOPS[op]
    refl = form in ('sv', 'lv')
    if refl and isinstance(b, (str, bytes)) and op == '%':
        return []                                   # str % x is Python string formatting, never reaches serif
    ys = b if isinstance(b, list) else [b] * len(a)
    try:
        want = elementwise(f, ys, a) if refl else elementwise(f, a, ys)
    except Skip:
        return []
    if refl:
        expr = f'{case["b"]} {op} Vector({case["a"]})'
    else:
        expr = f'Vector({case["a"]}) {op} ' + (f'Vector({case["b"]})' if form == 'vv' else case['b'])
    try:
        probe = Vector(list(a))
        cls = owner(probe, '__' + ('r' if refl else '') + DUNDER[op] + '__')
    except Exception:
        cls = 'Vector'
    s = f'{cls}.__{"r" if refl else ""}{DUNDER[op]}__.{FORMNAME[form]}'
    has_none = any(x is None for x in a) or any(y is None for y in ys)
    try:
        r = run_arith(op, form, a, b, dt)
    except Exception as e:
        if not has_none or not isinstance(e, TypeError):
            return []                               # not a None matter ("None op x" is a TypeError): C05's business
        keep = [i for i in range(len(a)) if a[i] is not None and ys[i] is not None]
        a2 = [a[i] for i in keep]
        b2 = [ys[i] for i in keep] if isinstance(b, list) else b
        try:
            run_arith(op, form, a2, b2, dt)
        except Exception:
            return []                               # fails without None too: C05's business
        return [Fail(f'C06:{s}:none-element-raises', f'{expr} raised {type(e).__name__}: {e}; without the None positions it succeeds', want, repr(e))]
    if not isinstance(r, Vector):
        return [Fail(f'C06:{s}:not-a-vector', expr, want, r)]
    got = list(r)
    fails = []
    if len(got) != len(want):
        return [Fail(f'C06:{s}:wrong-length', expr + f' = {got!r}', want, got)]
    for g, w in zip(got, want):
        if w is None and g is not None:
            fails.append(Fail(f'C06:{s}:none-not-propagated', expr + f' = {got!r}, expected {want!r}', want, got))
            break
        if w is not None and g is None:
            fails.append(Fail(f'C06:{s}:spurious-none', expr + f' = {got!r}, expected {want!r}', want, got))
            break
        if has_none and not same(g, w):
            fails.append(Fail(f'C06:{s}:wrong-value-beside-none', expr + f' = {got!r}, expected {want!r}', want, got))
            break
    m = truthful(r)
    if m and has_none:
        fails.append(Fail(f'C03:{s}:truthful', expr + ': ' + m, None, repr(r.schema())))
    return fails


def eval_unary(case):
    op, dt = case['op'], case['dt']
    a = cev(case['a'])
    f = UNOPS[op]
    try:
        want = [None if x is None else f(x) for x in a]
    except Exception:
        return []
    expr = f'{op} {vsrc(case)}'
    has_none = any(x is None for x in a)
    try:
        v = mkvec(a, dt, case['typed'], deriv=case.get('deriv'))
        r = f(v)
    except Exception as e:
        if not has_none:
            return []
        try:
            nn = [x for x in a if x is not None]
            f(Vector(nn, dtype=KIND[dt]) if not nn else Vector(nn))
        except Exception:
            return []
        return [Fail(f'C06:Vector.__{op}__:none-element-raises', f'{expr} raised {type(e).__name__}: {e}', want, repr(e))]
    got = list(r)
    fails = []
    if len(got) != len(want) or any((g is None) != (w is None) for g, w in zip(got, want)):
        fails.append(Fail(f'C06:Vector.__{op}__:none-not-propagated', expr + f' = {got!r}', want, got))
    elif has_none and not same(got, want):
        fails.append(Fail(f'C06:Vector.__{op}__:wrong-value-beside-none', expr + f' = {got!r}', want, got))
    m = truthful(r)
    if m and has_none:
        fails.append(Fail(f'C03:Vector.__{op}__:truthful', expr + ': ' + m, None, repr(r.schema())))
    return fails


def run_cmp(op, form, a, b, dt, typed):
    va = mkvec(a, dt, typed)
    if form == 'vv':
        return CMPOPS[op](va, Vector(list(b)))
    if form in ('vs', 'vl'):
        return CMPOPS[op](va, b)
    return CMPOPS[op](b, va)


def eval_cmp(case):
    op, form, dt, tag = case['op'], case['form'], case['dt'], case['tag']
    a, b = cev(case['a']), cev(case['b'])
    typed = case['typed']
    refl = form in ('sv', 'lv')
    ys = b if isinstance(b, list) else [b] * len(a)
    f = CMPOPS[op]
    # expected: False at a None position; elsewhere Python's own comparison when same-family
    foreign = tag in ('isostr', 'datetime') and dt == 'date'      # serif documents its own coercion there
    want = []
    defined = True
    for x, y in zip(a, ys):
        if x is None or y is None:
            want.append(False)
        elif foreign:
            want.append(Ellipsis)                   # value not decided by this property
        else:
            try:
                want.append(bool(f(y, x) if refl else f(x, y)))
            except Exception:
                defined = False
                want.append(Ellipsis)
    has_none = any(x is None for x in a) or any(y is None for y in ys)
    if not has_none:
        return []                                   # no None anywhere: C07's business
    if refl:
        expr = f'{case["b"]} {op} {vsrc(case)}'
    else:
        expr = f'{vsrc(case)} {op} ' + (f'Vector({case["b"]})' if form == 'vv' else case['b'])
    try:
        probe = mkvec(a, dt, typed)
        cls = owner(probe, '_elementwise_compare')
    except Exception:
        cls = 'Vector'
    # one key per code path: only _Date dispatches on the operand kind (vector / scalar operands)
    if cls == '_Date' and form in ('vv', 'vs', 'sv'):
        s = f'{cls}.compare.{tag}-{FORMNAME[form]}'
    else:
        s = f'{cls}.compare.{FORMNAME[form]}'
    try:
        r = run_cmp(op, form, a, b, dt, typed)
    except Exception as e:
        keep = [i for i in range(len(a)) if a[i] is not None and ys[i] is not None]
        a2 = [a[i] for i in keep]
        b2 = [ys[i] for i in keep] if isinstance(b, list) else b
        try:
            if a2:
                run_cmp(op, form, a2, b2, dt, False)
            else:                                   # nothing left: put the pool values back instead
                partner = [p for t, p, sc in CMP[dt] if t == tag][0]
                run_cmp(op, form, BASE[dt][:len(a)], partner[:len(a)] if isinstance(b, list) else b, dt, False)
        except Exception:
            return []                               # raises without None as well: not a None matter
        return [Fail(f'C06:{s}:none-position-not-false', f'{expr} raised {type(e).__name__}: {e}; a None position must compare False',
                     [w if w is not Ellipsis else '?' for w in want], repr(e))]
    if not isinstance(r, Vector) or isinstance(r, Table):
        return [Fail(f'C06:{s}:not-a-vector', expr, None, r)]
    got = list(r)
    show = [w if w is not Ellipsis else '?' for w in want]
    fails = []
    if len(got) != len(want):
        return [Fail(f'C06:{s}:wrong-length', expr + f' = {got!r}', show, got)]
    for g, w, x, y in zip(got, want, a, ys):
        if x is None or y is None:
            if g is not False:
                fails.append(Fail(f'C06:{s}:none-position-not-false', expr + f' = {got!r}; a None position must compare False', show, got))
                break
        elif w is not Ellipsis and g is not w:
            fails.append(Fail(f'C06:{s}:wrong-value-beside-none', expr + f' = {got!r}', show, got))
            break
    sch = r.schema()
    if sch is None or sch.kind is not bool or sch.nullable:
        if len(got):
            fails.append(Fail(f'C06:{s}:result-not-plain-bool', expr + f' has schema {sch!r}', '<bool>', repr(sch)))
    m = truthful(r)
    if m:
        fails.append(Fail(f'C03:{s}:truthful', expr + ': ' + m, None, repr(sch)))
    return fails


def close(a, b):
    if a is None or b is None:
        return a is b
    if isinstance(a, complex) or isinstance(b, complex):
        return type(a) is type(b) and abs(a - b) <= 1e-9 * max(1.0, abs(b))
    return type(a) is type(b) and math.isclose(a, b, rel_tol=1e-12, abs_tol=1e-12)


def eval_red(case):
    r, dt = case['r'], case['dt']
    a = cev(case['a'])
    nn = [x for x in a if x is not None]
    expr = f'{vsrc(case)}.{r}()' if r != 'len' else f'len({vsrc(case)})'
    has_none = len(nn) != len(a)
    approx = False
    try:
        if r == 'len':
            want = len(a)
        elif r == 'sum':
            want = sum(nn)
        elif r == 'mean':
            want = (sum(nn) / len(nn)) if nn else None
            approx = True
        elif r in ('min', 'max'):
            if not nn:
                return []                           # the statement defines no value
            want = (min if r == 'min' else max)(nn)
        elif r == 'stdev':
            if len(nn) < 2:
                want = None
                if nn:
                    nn[0] - nn[0]                   # kinds without subtraction (str ...) are outside
                    (nn[0] - nn[0]) * 1.0
            else:
                m = sum(nn) / len(nn)
                want = (sum((x - m) * (x - m) for x in nn) / (len(nn) - 1)) ** 0.5
            approx = True
        elif r == 'any':
            want = any(nn)
        else:
            want = all(nn)
    except Exception:
        return []                                   # Python does not define the reduction for this kind
    s = f'Vector.{r}' if r != 'len' else 'Vector.__len__'
    try:
        v = mkvec(a, dt, case['typed'], deriv=case.get('deriv'))
        got = len(v) if r == 'len' else getattr(v, r)()
    except Exception as e:
        cls = 'none-not-skipped' if has_none else f'raised-{type(e).__name__}'
        if has_none:
            try:
                w = Vector(nn) if nn else Vector(nn, dtype=KIND[dt])
                getattr(w, r)()
            except Exception:
                cls = f'raised-{type(e).__name__}'
        if not has_none:
            return [Fail(f'C06:{s}:{cls}' + ('-empty' if not a else ''), f'{expr} raised {type(e).__name__}: {e}', want, repr(e))]
        return [Fail(f'C06:{s}:{cls}', f'{expr} raised {type(e).__name__}: {e}; reduction of the None-free list = {want!r}', want, repr(e))]
    ok = close(got, want) if approx else same(got, want)
    if not ok:
        cls = 'none-not-skipped' if has_none else 'wrong-value'
        if r == 'len':
            cls = 'none-not-counted'
        if not nn:
            cls = 'empty-value'
        return [Fail(f'C06:{s}:{cls}', f'{expr} = {got!r}; reduction of the None-free list {nn!r} = {want!r}', want, got)]
    return []


def eval_tri(case):
    dt = case['dt']
    a = cev(case['a'])
    src = vsrc(case)
    fails = []
    try:
        v = mkvec(a, dt, case['typed'], case.get('obj'), case.get('deriv'))
        before = view(v)
    except Exception as e:
        return [Fail('C06:Vector.new:raised' + ('-to_object' if case.get('obj') else ''), f'{src}: {e!r}', None, None)]
    if case.get('obj'):
        t = truthful(v)
        if t:
            fails.append(Fail('C03:Vector.to_object:truthful', f'{src}: {t}', None, repr(v.schema())))
        if not same(list(v), a):
            fails.append(Fail('C06:Vector.to_object:values-changed', src, a, list(v)))
    want_mask = [x is None for x in a]
    try:
        m = v.isna()
        gm = list(m)
        if not same(gm, want_mask):
            fails.append(Fail('C06:Vector.isna:wrong-mask', f'{src}.isna() = {gm!r}', want_mask, gm))
        sch = m.schema()
        if len(gm) and (sch is None or sch.kind is not bool or sch.nullable):
            fails.append(Fail('C06:Vector.isna:result-not-plain-bool', f'{src}.isna() schema {sch!r}', '<bool>', repr(sch)))
        t = truthful(m)
        if t:
            fails.append(Fail('C03:Vector.isna:truthful', f'{src}.isna(): {t}', None, None))
    except Exception as e:
        fails.append(Fail(f'C06:Vector.isna:raised-{type(e).__name__}', f'{src}.isna() raised {e!r}', want_mask, repr(e)))
        gm = want_mask
    want_drop = [x for x, isn in zip(a, gm) if not isn]
    try:
        d = v.dropna()
        gd = list(d)
        if not same(gd, want_drop):
            fails.append(Fail('C06:Vector.dropna:not-exactly-isna-positions', f'{src}.dropna() = {gd!r}; isna marks {gm!r}', want_drop, gd))
        sch = d.schema()
        if sch is not None and sch.nullable:
            fails.append(Fail('C06:Vector.dropna:reports-nullable', f'{src}.dropna() schema {sch!r}', 'non-nullable', repr(sch)))
        t = truthful(d)
        if t:
            fails.append(Fail('C03:Vector.dropna:truthful', f'{src}.dropna(): {t}', None, None))
        if d is v:
            fails.append(Fail('C06:Vector.dropna:not-new', f'{src}.dropna() is the receiver', None, None))
    except Exception as e:
        cls = f'raised-{type(e).__name__}' + ('-untyped-empty' if v.schema() is None else '')
        fails.append(Fail(f'C06:Vector.dropna:{cls}', f'{src}.dropna() raised {e!r}', want_drop, repr(e)))
    if view(v) != before:
        fails.append(Fail('C06:Vector.dropna:receiver-mutated', src, before, view(v)))
    return fails


def widened(w, g):
    """g is w, possibly converted along a documented widening (bool->int->float->complex, date->datetime)."""
    if same(g, w):
        return True
    if g is None or w is None:
        return False
    if type(w) is date and type(g) is datetime:
        return g == datetime.combine(w, datetime.min.time())
    if type(w) is float and w != w and type(g) is complex:      # NaN carried up the ladder: nan -> (nan+0j)
        return g.real != g.real and g.imag == 0
    return type(w) in NUM_LADDER and type(g) in NUM_LADDER and belongs(type(w), type(g)) and g == w


def relation(x, kind):
    """How fill value x relates to the column kind: same / narrower / wider / foreign."""
    t = type(x)
    if kind is object or t is kind:
        return 'same'
    if belongs(t, kind):
        return 'narrower'
    if belongs(kind, t):
        return 'wider'
    return 'foreign'


def eval_fill(case):
    dt = case['dt']
    a = cev(case['a'])
    x = cev(case['x'])
    src = f'{vsrc(case)}.fillna({case["x"]})'
    try:
        v = mkvec(a, dt, case['typed'], case.get('obj'), case.get('deriv'))
        before = view(v)
    except Exception as e:
        return [Fail('C06:Vector.new:raised' + ('-to_object' if case.get('obj') else ''), f'{src}: {e!r}', None, None)]
    sch0 = v.schema()
    kind = sch0.kind if sch0 is not None else None
    rel = 'same' if (kind is None or x is None) else relation(x, kind)
    want = [x if e is None else e for e in a]
    fails = []
    try:
        f = v.fillna(x)
    except Exception as e:
        if rel == 'foreign':
            return []                               # statement does not say a foreign kind must be accepted
        if rel == 'wider':
            return [Fail(f'C06:Vector.fillna:{kind.__name__}-widening-rejected',
                         f'{src} raised {type(e).__name__}: {e}; {kind.__name__} -> {type(x).__name__} is a documented widening', want, repr(e))]
        return [Fail(f'C06:Vector.fillna:raised-{type(e).__name__}', f'{src} raised {e!r}', want, repr(e))]
    if not isinstance(f, Vector):
        return [Fail('C06:Vector.fillna:not-a-vector', src, want, f)]
    got = list(f)
    if len(got) != len(want):
        return [Fail('C06:Vector.fillna:wrong-length', src + f' = {got!r}', want, got)]
    for g, w, e in zip(got, want, a):
        if e is None:
            # replaced position: the fill value (possibly converted along the ladder)
            if not widened(w, g):
                fails.append(Fail('C06:Vector.fillna:none-position-not-filled', src + f' = {got!r}', want, got))
                break
        else:
            if not (same(g, w) or (rel == 'wider' and widened(w, g))):
                fails.append(Fail('C06:Vector.fillna:touched-non-none-position', src + f' = {got!r}', want, got))
                break
    sch = f.schema()
    if x is not None and sch is not None and sch.nullable:
        fails.append(Fail('C06:Vector.fillna:reports-nullable', src + f' schema {sch!r}', 'non-nullable', repr(sch)))
    t = truthful(f)
    if t:
        fails.append(Fail('C03:Vector.fillna:truthful', src + ': ' + t, None, repr(sch)))
    if view(v) != before:
        fails.append(Fail('C06:Vector.fillna:receiver-mutated', src, before, view(v)))
    if f is v:
        fails.append(Fail('C06:Vector.fillna:not-new', src, None, None))
    return fails


TRI3_SENTINEL = {'int': 99, 'float': 99.5, 'bool': True, 'complex': 99.5j, 'str': 'zz', 'date': date(1999, 1, 1),
                 'datetime': datetime(1999, 1, 1, 0, 0), 'object': 99.5}


def eval_tri3(case):
    """isna / dropna / fillna on one vector, compared with one another position by position."""
    dt = case['dt']
    a = cev(case['a'])
    src = vsrc(case)
    try:
        v = mkvec(a, dt, case['typed'], case.get('obj'), case.get('deriv'))
    except Exception:
        return []                                   # reported by the 'tri' case of the same vector
    # a fill value of the vector's own kind where the case says so (no promotion: positions compare type-exactly)
    sentinel = 99.5
    if case.get('deriv') and v.schema() is not None:        # the kind actually held (an object pool prefix may infer int)
        sentinel = TRI3_SENTINEL.get(v.schema().kind.__name__, 99.5)
    try:
        m, d, f = list(v.isna()), list(v.dropna()), list(v.fillna(sentinel))
    except Exception:
        return []                                   # each call is examined alone by 'tri' / 'fill'
    cur = list(v)
    fails = []
    if len(m) != len(cur) or len(f) != len(cur):
        return []
    kept = [x for x, isn in zip(cur, m) if not isn]
    if not same(d, kept):
        fails.append(Fail('C06:triangle:dropna-vs-isna', f'{src}: dropna() = {d!r} but isna() = {m!r} marks {kept!r} as present', kept, d))
    replaced = [not same(x, y) for x, y in zip(cur, f)]
    if replaced != [bool(x) for x in m]:
        fails.append(Fail('C06:triangle:fillna-vs-isna', f'{src}: fillna({sentinel!r}) = {f!r} replaces positions {replaced!r} but isna() = {m!r}', m, replaced))
    if len(d) != len(cur) - sum(replaced):
        fails.append(Fail('C06:triangle:fillna-vs-dropna', f'{src}: fillna replaces {sum(replaced)} positions, dropna removes {len(cur) - len(d)}',
                          len(cur) - sum(replaced), len(d)))
    return fails


def group_rows(case):
    """[(key, value)] rows of the table, and {key: [values]} in row order."""
    pool = GROUP_POOLS[case['dt']]
    per = []
    for j, shape in enumerate(case['shapes']):
        vals, k = [], 0
        for c in shape:
            if c == 'N':
                vals.append(None)
            else:
                vals.append(pool[(2 * j + k) % len(pool)])
                k += 1
        per.append((f'g{j}', vals))
    rows = []
    if case['layout'] == 'grouped':
        for key, vals in per:
            rows += [(key, x) for x in vals]
    else:
        for i in range(max(len(v) for _, v in per)):
            for key, vals in per:
                if i < len(vals):
                    rows.append((key, vals[i]))
    return rows, dict(per)


def textbook(agg, nn):
    """Value of the aggregate on the None-free list; Ellipsis when the statement gives none."""
    if agg == 'sum':
        return sum(nn)
    if agg == 'count':
        return len(nn)
    if agg == 'mean':
        return sum(nn) / len(nn) if nn else None
    if agg in ('min', 'max'):
        return (min if agg == 'min' else max)(nn) if nn else Ellipsis
    if len(nn) < 2:
        return None
    m = sum(nn) / len(nn)
    return (sum((x - m) * (x - m) for x in nn) / (len(nn) - 1)) ** 0.5


def agree(g, w):
    if g is None or w is None:
        return g is w
    if isinstance(g, bool) or isinstance(w, bool) or not isinstance(g, (int, float, complex)):
        return same(g, w)
    if isinstance(g, int) and isinstance(w, int):
        return same(g, w)
    return type(g) is type(w) and abs(g - w) <= 1e-9 * max(1.0, abs(w))


def run_group(case, rows):
    dt = case['dt']
    keys = [k for k, _ in rows]
    vals = [x for _, x in rows]
    if all(x is None for x in vals):
        vcol = Vector(vals, dtype=DataType(KIND[dt], nullable=True), name='v')
    else:
        vcol = Vector(vals, name='v')
    t = Table([Vector(keys, name='g'), vcol])
    kw = {}
    for agg in case['aggs']:
        kw[agg + '_over'] = 'v' if case['how'] == 'name' else t['v']
    over = 'g' if case['how'] == 'name' else t['g']
    return t, getattr(t, case['fn'])(over, **kw)


def eval_grp(case):
    fn, dt, aggs = case['fn'], case['dt'], case['aggs']
    rows, groups = group_rows(case)
    descr = f'Table(g={[k for k, _ in rows]!r}, v={lit([x for _, x in rows])}).{fn}(over=g, ' + ', '.join(f'{a}_over=v' for a in aggs) + ')'
    has_none = any(x is None for _, x in rows)
    s = f'{fn}.' + (aggs[0] if len(aggs) == 1 else 'all')
    try:
        t, res = run_group(case, rows)
        before = None
    except Exception as e:
        if not has_none:
            return []                               # not a None matter: C12 / C13
        clean = [(k, x) for k, x in rows if x is not None]
        if not clean:
            pool = GROUP_POOLS[dt]
            clean = [(k, pool[0]) for k, _ in rows]
        try:
            run_group(case, clean)
        except Exception:
            return []
        cls = 'none-element-raises'
        if any(all(x is None for x in g) for g in groups.values()):
            cls = 'all-none-group-raises'
        return [Fail(f'C06:{s}:{cls}', f'{descr} raised {type(e).__name__}: {e}; without the None rows it succeeds', None, repr(e))]
    fails = []
    if not isinstance(res, Table):
        return [Fail(f'C06:{fn}:not-a-table', descr, None, res)]
    cols = res.cols()
    names = res.column_names()
    try:
        gkeys = list(cols[0])
    except Exception:
        return []
    for agg in aggs:
        cname = f'v_{agg}'
        if names.count(cname) != 1:
            continue                                # naming is C12 / C13's business
        col = list(cols[names.index(cname)])
        if len(col) != len(gkeys):
            continue
        for key, gvals in groups.items():
            nn = [x for x in gvals if x is not None]
            got = [c for k, c in zip(gkeys, col) if k == key]
            if fn == 'aggregate' and len(got) != 1:
                continue                            # one row per group is C12's business
            if fn == 'window' and len(got) != len(gvals):
                continue                            # one row per input row is C13's business
            if not nn:
                shape = 'all-none-group'
            elif len(nn) != len(gvals):
                shape = 'none-not-skipped'
            else:
                shape = 'wrong-value'
            try:
                want = textbook(agg, nn)
            except Exception:
                want = Ellipsis
            if want is not Ellipsis:
                bad = [g for g in got if not agree(g, want)]
                if bad:
                    fails.append(Fail(f'C06:{fn}.{agg}:{shape}', f'{descr}: group {key} holds {lit(gvals)}, v_{agg} = {bad[0]!r}; '
                                      f'{agg} of its non-None values {lit(nn)} = {want!r}', want, bad[0]))
                    continue
            # the Vector reduction of the very same group
            if agg == 'count':
                continue
            try:
                gv = Vector(gvals) if nn else Vector(gvals, dtype=DataType(KIND[dt], nullable=True))
                red = getattr(gv, agg)()
            except Exception:
                continue                            # the reduction gives no value (min of nothing ...)
            bad = [g for g in got if not agree(g, red)]
            if bad:
                fails.append(Fail(f'C06:{fn}.{agg}:differs-from-Vector.{agg}', f'{descr}: group {key} holds {lit(gvals)}, v_{agg} = {bad[0]!r}; '
                                  f'Vector({lit(gvals)}).{agg}() = {red!r}', red, bad[0]))
    m = truthful(res)
    if m:
        fails.append(Fail(f'C03:{fn}:truthful', descr + ': ' + m, None, None))
    return fails


EVAL = {'arith': eval_arith, 'unary': eval_unary, 'cmp': eval_cmp, 'red': eval_red, 'tri': eval_tri, 'fill': eval_fill,
        'tri3': eval_tri3, 'grp': eval_grp}


def evaluate(case):
    try:
        if case.get('deriv'):
            try:
                probe = mkvec(cev(case['a']), case['dt'], False, deriv=case['deriv'])
            except Exception:
                return []                           # selection / write itself failed: C07 / C08's business
            fails = EVAL[case['k']](case)
            sch = probe.schema()
            stale = sch is not None and sch.nullable and not any(x is None for x in probe._underlying)
            for f in fails:                         # a defect that needs a receiver with a history gets its own key
                f['key'] += ':none-free-nullable-receiver' if stale else ':derived-receiver'
            return fails
        return EVAL[case['k']](case)
    except Exception as e:
        return [Fail(f'C06:harness:{case["k"]}:oracle-crash', f'{type(e).__name__}: {e}', None, None)]


def nontrivial(case):
    if case['k'] == 'grp':
        return ('grp', case['fn'], case['dt'], tuple(case['shapes']), case['layout'], tuple(case['aggs']), case['how'])
    a = cev(case['a'])
    if case.get('deriv'):
        return ('hist', case['k'], case['dt'], case['deriv']['how'], tuple(x is None for x in a), case.get('x') or case.get('r') or case.get('op'))
    if case.get('nan'):
        pat = tuple('N' if x is None else ('n' if isinstance(x, float) and x != x else 'v') for x in a)
        return (case['k'], case['dt'], pat, case.get('x'), case.get('obj'))
    nmask = tuple(x is None for x in a)
    if not any(nmask):
        return None
    k = case['k']
    if k in ('arith', 'cmp'):
        b = cev(case['b'])
        bm = tuple(x is None for x in b) if isinstance(b, list) else ()
        return (k, case['dt'], case['tag'], case['op'], case['form'], nmask, bm)
    if k == 'fill':
        return (k, case['dt'], nmask, case['x'], case['typed'], case.get('obj'))
    return (k, case['dt'], case.get('op') or case.get('r'), nmask, case.get('typed'), case.get('obj'))


if __name__ == '__main__':
    main('C06', cases, evaluate,
         rule='8 dtype pools (int, float, bool, complex, str, date, datetime, object) x every subset of None positions at lengths 0..4 '
              '(all-None and empty also as explicitly typed vectors) x {7 binary arithmetic operators in vector/scalar/list/reflected forms '
              'with None subsets on the other operand too, 3 unary operators, 6 comparisons in the same forms incl. date vs date/ISO-str/datetime, '
              '7 reductions + len, isna/dropna, fillna with a 10-value pool}; NaN-as-a-value sequences through isna/dropna/fillna and their '
              'mutual agreement; receivers with a history (same contents reached by mask / index list / slice / table row selection of a longer nullable vector, by overwriting a None, '
              'by an explicit nullable dtype - typically flagged nullable while holding no None) through isna/dropna/fillna(pool)/reductions; aggregate()/window() sum/mean/min/max/count/stdev per group vs textbook and vs the Vector reduction.  Oracle: Python on the list / the None-free list; '
              'cases Python does not define are skipped.  distinct = cases with at least one None, by (operation, dtype, partner, form, None placement)',
         bound=lambda tier: {'max_len': 4, 'dtypes': 8, 'fill_pool': 10,
                             'len4_right_masks': 'reduced (4 placements)' if tier == 'quick' else 'all 16',
                             'nan_block': 'all sequences over {value, NaN, None}, lengths 0..4', 'history_derivations': DERIVS,
                             'history_vectors': 'None-free lengths 0..3 + one None at lengths 2..3, one position' if tier == 'quick' else 'every None subset at lengths 0..4, every position', 'groups': '1..3 groups from 9 shapes, 6 kinds'},
         nontrivial=nontrivial)

"""C18 bounded stand-in: names propagate by fixed rules - math drops them, structure keeps them.

Scope (names from {'a', 'A b', '', None}; 'a' twice gives the "equal names" pattern)
-----
vec-keep : every chain of length <= 2 (quick) / <= 3 (thorough) of name-keeping operations (copy, slice,
           reversed slice, list mask, vector mask, index list, index vector, sort_by both directions,
           in-place write, promotion by write) on int / nullable-int / str vectors  -> name unchanged.
vec-math : every arithmetic / comparison operator between two vectors, each operand optionally derived
           by one name-keeping operation, all name pairs                           -> name is None.
tab-build: every name list of width <= 3 through Table([...]), Table({...}), v >> v >> v,
           Table >> Table, Table >> vector / dict / list                         -> stored names in order.
tab-chain: every chain of length <= 2 (quick) / <= 3 (thorough; width-3 tables: <= 2) of structural operations (row slice, reversed
           slice, list / vector mask, index vector, column slice, sort_by asc/desc by vector and by name,
           scalar arithmetic, inner/left/full join with a second table, >> table / vector) on every table
           of width <= 2 (quick) / <= 3                                          -> model list of names.
tab-scalar / tab-tab : all seven arithmetic operators table-with-scalar (both sides) and
           table-with-table over all left/right name pairs.
agg      : aggregate and window over key-name x value-name patterns (same column twice, two functions,
           repeated stored names, key named like an output, repeated key).

agg2     : aggregate and window where a KEY or an `apply` name equals a would-be suffixed output name: value columns all
           named 'v' / 'A b' requested 2 or 3 times (distinct columns or one column repeated) for every function, key named
           <san>_<fn>2 / <san>_<fn> / <san>_<fn>3 / 'k', apply names <san>_<fn>{2, '', 3, 2+3, 22}: outputs pairwise distinct,
           key 0 keeps its name, aggregate outputs match <san>_<fn>[n], apply outputs match <apply name>[n].
tab-tab+ : table-with-table arithmetic over name pairs that are DIFFERENT stored names sanitising alike ('Price'/'price',
           'unit cost'/'unit_cost', '$$$'/'%', 'a'/'A', 'a '/'a', 'A b'/'a_b', '1x'/'c1x', 'sum'/'sum_'), both orders, alone and
           beside an equal-name / right-absent column pair, all seven operators                -> that column unnamed.
typed-math: arithmetic and comparisons on the TYPED vectors (date / str / int / float columns, with and without None, each optionally
           derived by a name-keeping operation): named date vector + int / + bool / + int vector (named, unnamed) / +- timedelta /
           - date / - date vector / reflected timedelta + and date -; named str vector + str / * int / + str vector / * int vector and the
           reflected forms; named int / float vectors with every reflected scalar operator (2 + v, 2 - v, ... 2 ** v, 2.5 + v, True + v),
           list operands on either side, mixed int/float vectors; comparisons with scalars / ISO strings           -> result unnamed,
           operands keep their names.
typed-build: tables built from a named typed vector and results of arithmetic on it (Table([d, d + 30]), d >> (d + 30), three
           columns, dict-free builders)                              -> ['due', None, ...]: no duplicated name.

Oracle: plain lists of names; rules transcribed from the statement.
"""
import itertools
import operator
import re

from harness import *  # noqa

NAMES = ['a', 'A b', '', None]
ARITH = {'+': operator.add, '-': operator.sub, '*': operator.mul, '/': operator.truediv,
         '//': operator.floordiv, '%': operator.mod, '**': operator.pow}
CMP = {'==': operator.eq, '!=': operator.ne, '<': operator.lt, '<=': operator.le, '>': operator.gt, '>=': operator.ge}
KEEP_OPS = ['copy', 'slice', 'rslice', 'lmask', 'vmask', 'lidx', 'vidx', 'sort', 'rsort', 'write', 'promote']
VEC_DATA = {'int': [3, 1, 2], 'int?': [3, None, 1], 'str': ['b', 'a', 'c']}
FUNCS = ['sum', 'mean', 'min', 'max', 'count', 'stdev']


def same_name(a, b):
    return (a is None and b is None) or (type(a) is type(b) and a == b)


def san_base(name):
    if name is None:
        return None
    s = re.sub(r'[^a-z0-9_]+', '_', str(name).lower()).strip('_')
    if not s:
        return None
    return 'c' + s if s[0].isdigit() else s


# ---------------------------------------------------------------------------------------------
# vectors
# ---------------------------------------------------------------------------------------------
class Skip(Exception):
    pass


def keep_op(v, op):
    """Apply one name-keeping operation; returns the resulting vector (v itself for in-place writes)."""
    n = len(v)
    if op == 'copy':
        return v.copy()
    if op == 'slice':
        return v[0:2]
    if op == 'rslice':
        return v[::-1]
    if op == 'lmask':
        if n == 0:
            raise Skip()
        return v[[i % 2 == 0 for i in range(n)]]
    if op == 'vmask':
        if n == 0:
            raise Skip()
        return v[Vector([i % 2 == 0 for i in range(n)])]
    if op == 'lidx':
        if n == 0:
            raise Skip()
        return v[list(range(n - 1, -1, -1))]
    if op == 'vidx':
        if n == 0:
            raise Skip()
        return v[Vector(list(range(n - 1, -1, -1)))]
    if op == 'sort':
        return v.sort_by()
    if op == 'rsort':
        return v.sort_by(reverse=True)
    if op == 'write':
        if n == 0:
            raise Skip()
        v[0] = v[n - 1]
        return v
    if op == 'promote':
        if n == 0 or v.schema() is None or v.schema().kind is not int or any(x is None for x in v):
            raise Skip()
        v[0] = 2.5
        if v.schema().kind is not float:
            raise Skip()
        return v
    raise AssertionError(op)


def eval_vec_keep(case):
    name = ev(case['name'])
    fails = []
    v = Vector(list(VEC_DATA[case['data']]), name=name)
    done = []
    for op in case['chain']:
        try:
            v = keep_op(v, op)
        except Skip:
            return fails
        except Exception as e:
            # the operation itself failing is some other property's business unless it is a naming crash
            return fails
        done.append(op)
        m = truthful(v)
        if m:
            fails.append(Fail(f'C03:Vector.{op}:truthful', m))
        if not isinstance(v, Vector):
            return fails
        if not same_name(v.name, name):
            fails.append(Fail(f'C18:Vector.{op}:name-not-kept',
                              f'Vector({VEC_DATA[case["data"]]}, name={name!r}) after {done}: name is {v.name!r}', name, v.name))
            return fails
    return fails


def eval_vec_math(case):
    n1, n2 = ev(case['n1']), ev(case['n2'])
    a = Vector([3, 1, 2], name=n1)
    b = Vector([1, 2, 3], name=n2)
    try:
        if case['d1']:
            a = keep_op(a, case['d1'])
        if case['d2']:
            b = keep_op(b, case['d2'])
    except Exception:
        return []
    if len(a) != len(b):
        return []
    sym = case['sym']
    fn = ARITH.get(sym) or CMP[sym]
    try:
        r = fn(a, b)
    except Exception:
        return []
    fails = []
    m = truthful(r)
    if m:
        fails.append(Fail(f'C03:Vector.{sym}:truthful', m))
    if isinstance(r, Vector) and r.name is not None:
        kind = 'arith' if sym in ARITH else 'compare'
        fails.append(Fail(f'C18:Vector.{kind}:name-not-dropped',
                          f'Vector(name={n1!r}){"." + case["d1"] if case["d1"] else ""} {sym} '
                          f'Vector(name={n2!r}){"." + case["d2"] if case["d2"] else ""} is named {r.name!r}', None, r.name))
    # operands keep their own names
    return fails


# ---------------------------------------------------------------------------------------------
# tables
# ---------------------------------------------------------------------------------------------
def mk_table(names, off=0):
    """3 rows; column 0 is an int key 1..3 (+off); other columns distinct ints."""
    return Table([Vector([1 + off, 2 + off, 3 + off] if j == 0 else [10 * j + 1, 10 * j + 2, 10 * j + 3], name=n)
                  for j, n in enumerate(names)])


OTHER = ['a', 'x']          # names of the second table used by binary structural operations


def tab_op(t, model, op):
    """Apply one structural operation; returns (table, model names).  Skip when not applicable."""
    n = len(t)
    w = len(model)
    if op == 'slice':
        return t[0:2], model
    if op == 'rslice':
        return t[::-1], model
    if op == 'lmask':
        if n == 0:
            raise Skip()
        return t[[i % 2 == 0 for i in range(n)]], model
    if op == 'vmask':
        if n == 0:
            raise Skip()
        return t[Vector([i % 2 == 0 for i in range(n)])], model
    if op == 'vidx':
        if n == 0:
            raise Skip()
        return t[Vector(list(range(n - 1, -1, -1)))], model
    if op == 'colslice':
        if w < 2:
            raise Skip()
        return t[0:n, 0:w - 1], model[:w - 1]
    if op == 'sort':
        return t.sort_by(t.cols()[0]), model
    if op == 'rsort':
        return t.sort_by(t.cols()[0], reverse=True), model
    if op == 'sortname':
        if not isinstance(model[0], str) or model[0] == '':
            raise Skip()
        return t.sort_by(model[0]), model
    if op == 'mul2':
        return t * 2, model
    if op == 'add1':
        return t + 1, model
    if op in ('inner_join', 'join', 'full_join'):
        u = mk_table(OTHER)
        lk, rk = t.cols()[0], u.cols()[0]
        if lk.schema() is None or lk.schema().kind is not int:
            raise Skip()
        expect = 'many_to_many'
        r = getattr(t, op)(u, lk, rk, expect=expect)
        if op == 'inner_join' and not (set(lk) & set(rk)):
            raise Skip()                      # no matching rows: handled by its own case
        return r, model + OTHER
    if op == 'rshift_table':
        u = mk_table(OTHER)
        if len(u) != n:
            u = u[0:n]
            if len(u) != n:
                raise Skip()
        return t >> u, model + OTHER
    if op == 'rshift_vec':
        return t >> Vector(list(range(n)), name='q'), model + ['q']
    raise AssertionError(op)


TAB_OPS = ['slice', 'rslice', 'lmask', 'vmask', 'vidx', 'colslice', 'sort', 'rsort', 'sortname', 'mul2', 'add1',
           'inner_join', 'join', 'full_join', 'rshift_table', 'rshift_vec']


def names_fail(key, what, want, t):
    try:
        got = t.column_names()
    except Exception as e:
        return [Fail(key + ':column_names-raises', f'{what}: column_names() raised {type(e).__name__}: {e}', want, None)]
    if len(got) != len(want) or not all(same_name(g, w) for g, w in zip(got, want)):
        return [Fail(key, f'{what}: column_names() = {got!r}, stored names of the sources in order = {want!r}', want, got)]
    return []


def eval_tab_chain(case):
    names = ev(case['names'])
    fails = []
    try:
        t = mk_table(names)
    except Exception:
        return []
    model = list(names)
    done = []
    for op in case['chain']:
        try:
            t, model = tab_op(t, model, op)
        except Skip:
            return fails
        except Exception:
            return fails                # the operation refusing is not a naming question
        done.append(op)
        if not isinstance(t, Table):
            return fails
        m = truthful(t)
        if m:
            fails.append(Fail(f'C03:Table.{op}:truthful', m))
        f = names_fail(f'C18:Table.{op}:names-not-kept', f'mk_table({names!r}) after {done}', model, t)
        if f:
            return fails + f
    return fails


def eval_tab_build(case):
    names = ev(case['names'])
    how = case['how']
    vecs = [Vector([10 * j + 1, 10 * j + 2], name=n) for j, n in enumerate(names)]
    want = list(names)
    try:
        if how == 'list':
            t = Table(vecs)
        elif how == 'vector-ctor':
            t = Vector(vecs)
        elif how == 'dict':
            keys = [repr(n) for n in names]
            if len(set(keys)) != len(keys):
                return []
            t = Table({n: [10 * j + 1, 10 * j + 2] for j, n in enumerate(names)})
        elif how == 'rshift-chain':
            if len(vecs) < 2:
                return []
            t = vecs[0]
            for v in vecs[1:]:
                t = t >> v
        elif how == 'rshift-tables':
            if len(vecs) < 2:
                return []
            t = Table(vecs[:1]) >> Table(vecs[1:])
        elif how == 'rshift-dict':
            if len(vecs) < 2 or len({repr(n) for n in names[1:]}) != len(names) - 1:
                return []
            t = Table(vecs[:1]) >> {n: [10 * j + 1, 10 * j + 2] for j, n in enumerate(names) if j}
        elif how == 'rshift-list':
            t = Table(vecs) >> [7, 8]
            want = want + [None]
        elif how == 'vec-rshift-table':
            if len(vecs) < 2:
                return []
            t = vecs[0] >> Table(vecs[1:])
        else:
            raise AssertionError(how)
    except Exception:
        return []
    if not isinstance(t, Table):
        return []
    fails = []
    m = truthful(t)
    if m:
        fails.append(Fail(f'C03:Table.build.{how}:truthful', m))
    fails += names_fail(f'C18:Table.build.{how}:names-not-kept', f'{how} of vectors named {names!r}', want, t)
    # the source vectors keep their names too
    for v, n in zip(vecs, names):
        if not same_name(v.name, n):
            fails.append(Fail(f'C18:Table.build.{how}:source-renamed', f'source vector named {n!r} is now {v.name!r}', n, v.name))
            break
    return fails


def eval_tab_scalar(case):
    names = ev(case['names'])
    sym = case['sym']
    t = mk_table(names)
    try:
        r = ARITH[sym](t, 2) if case['side'] == 'L' else ARITH[sym](2, t)
    except Exception:
        return []
    if not isinstance(r, Table):
        return []
    fails = []
    m = truthful(r)
    if m:
        fails.append(Fail(f'C03:Table.scalar{sym}:truthful', m))
    side = 'table-op-scalar' if case['side'] == 'L' else 'scalar-op-table'
    try:
        col0 = list(r.cols()[0])
        want0 = [ARITH[sym](x, 2) if case['side'] == 'L' else ARITH[sym](2, x) for x in t.cols()[0]]
        if len(r.cols()) != len(names) or col0 != want0:
            # not the table's columns any more (rows became columns): a naming verdict would be meaningless,
            # but the names are gone all the same - keep it apart from the plain name loss
            return fails + names_fail(f'C18:Table.{side}:result-transposed-and-unnamed', f'mk_table({names!r}) {sym} 2 ({side}), '
                                      f'first result column {col0!r} instead of {want0!r}', list(names), r)
    except Exception:
        pass
    return fails + names_fail(f'C18:Table.{side}:names-not-kept', f'mk_table({names!r}) {sym} 2 ({side})', list(names), r)


def eval_tab_tab(case):
    ln, rn = ev(case['left']), ev(case['right'])
    sym = case['sym']
    a, b = mk_table(ln), mk_table(rn, off=1)
    try:
        r = ARITH[sym](a, b)
    except Exception:
        return []
    if not isinstance(r, Table):
        return []
    fails = []
    m = truthful(r)
    if m:
        fails.append(Fail(f'C03:Table.table{sym}:truthful', m))
    try:
        got = r.column_names()
    except Exception as e:
        return fails + [Fail('C18:Table.table-op-table:column_names-raises', f'{type(e).__name__}: {e}')]
    if len(got) != len(ln):
        return fails + [Fail('C18:Table.table-op-table:width', f'{ln!r} {sym} {rn!r} has {len(got)} columns', len(ln), len(got))]
    for i, (l, r_, g) in enumerate(zip(ln, rn, got)):
        if r_ == '' and not same_name(l, r_):
            continue                                # is '' "absent"?  the statement does not say
        keep = r_ is None or same_name(l, r_)
        want = l if keep else None
        if not same_name(g, want):
            cls = 'left-name-lost' if keep else 'left-name-kept-despite-different-right'
            fails.append(Fail(f'C18:Table.table-op-table:{cls}',
                              f'column {i}: left {l!r} {sym} right {r_!r} gives {g!r}', want, g))
            break
    if not all(same_name(x, y) for x, y in zip(a.column_names(), ln)) or not all(same_name(x, y) for x, y in zip(b.column_names(), rn)):
        fails.append(Fail('C18:Table.table-op-table:operand-renamed', f'operands now {a.column_names()!r} / {b.column_names()!r}'))
    return fails


# ---------------------------------------------------------------------------------------------
# aggregate / window
# ---------------------------------------------------------------------------------------------
def eval_agg(case):
    k1, k2, xn, yn = (ev(case[k]) for k in ('k1', 'k2', 'x', 'y'))
    t = Table([Vector([1, 1, 2], name=k1), Vector([5, 5, 6], name=k2), Vector([1.0, 2.0, 4.0], name=xn), Vector([3, 4, 8], name=yn)])
    K1, K2, X, Y = t.cols()
    over = [K1] if case['over'] == 1 else [K1, K2]
    colsets = {'x': [X], 'xx': [X, X], 'xy': [X, Y]}
    kw = {case['fa'] + '_over': colsets[case['ca']]}
    requests = [(c._name, case['fa']) for c in colsets[case['ca']]]
    if case['fb']:
        kw[case['fb'] + '_over'] = [X]
        requests.append((xn, case['fb']))
    meth = case['meth']
    try:
        r = getattr(t, meth)(over=over, **kw)
    except Exception as e:
        return [Fail(f'C18:{meth}:raises', f'{meth}(over={[c._name for c in over]}, {list(kw)}) raised {type(e).__name__}: {e}')]
    fails = []
    m = truthful(r)
    if m:
        fails.append(Fail(f'C03:{meth}:truthful', m))
    try:
        got = r.column_names()
    except Exception as e:
        return fails + [Fail(f'C18:{meth}:column_names-raises', f'{type(e).__name__}: {e}')]
    desc = f'{meth} keys {[c._name for c in over]!r}, requests {requests!r} -> {got!r}'
    if len(got) != len(over) + len(requests):
        return fails + [Fail(f'C18:{meth}:output-count', desc, len(over) + len(requests), len(got))]
    if any(not isinstance(g, str) for g in got if g is not None) or len(set(map(repr, got))) != len(got):
        fails.append(Fail(f'C18:{meth}:output-names-not-distinct', desc, 'pairwise distinct', got))
    # key columns: named after the keys
    keys_got = got[:len(over)]
    key_names = [c._name for c in over]
    for i, (kn, g) in enumerate(zip(key_names, keys_got)):
        if kn is None or kn == '':
            continue                                   # name of an unnamed key is not fixed by the statement
        first = key_names.index(kn) == i
        if first and g != kn:
            fails.append(Fail(f'C18:{meth}:key-name', desc + f'; key {i}', kn, g))
        elif not first and not re.fullmatch(re.escape(kn) + r'\d*', str(g)):
            fails.append(Fail(f'C18:{meth}:repeated-key-name', desc + f'; key {i}', kn + '<n>', g))
    # aggregate columns: <sanitised column>_<function><optional digits>, some assignment of outputs to requests
    outs = got[len(over):]
    pats = []
    for (cn, fn) in requests:
        b = san_base(cn)
        pats.append(None if b is None else re.compile(re.escape(f'{b}_{fn}') + r'\d*'))

    def assignable(i, free):
        if i == len(pats):
            return True
        for j in sorted(free):
            if pats[i] is None or (isinstance(outs[j], str) and pats[i].fullmatch(outs[j])):
                if assignable(i + 1, free - {j}):
                    return True
        return False

    if not assignable(0, frozenset(range(len(outs)))):
        fails.append(Fail(f'C18:{meth}:aggregate-name-pattern', desc, '<sanitised column>_<function>[n]', outs))
    else:
        # a plain name nobody else holds must be used as such (suffixes only to make names unique)
        for (cn, fn) in requests:
            b = san_base(cn)
            if b is None:
                continue
            plain = f'{b}_{fn}'
            if plain not in [k for k in keys_got if isinstance(k, str)] and plain not in outs:
                fails.append(Fail(f'C18:{meth}:needless-suffix', desc + f'; {plain!r} is free but unused', plain, outs))
                break
    return fails


# ---------------------------------------------------------------------------------------------
# aggregate / window: a key or an apply name that equals a would-be SUFFIXED output name
# ---------------------------------------------------------------------------------------------
AGG2_VALUE_NAMES = ['v', 'A b']
AGG2_KEY_SUFFIXES = ['2', '', '3', None]            # key named <san>_<fn><suffix>; None: a key named 'k'
AGG2_APPLY = [[], ['2'], [''], ['3'], ['2', '3'], ['22']]


def eval_agg2(case):
    vn, fn, meth, reps = ev(case['v']), case['fn'], case['meth'], case['reps']
    base = f'{san_base(vn)}_{fn}'
    kn = 'k' if case['ksuf'] is None else base + case['ksuf']
    vals = [[1.0, 2.0, 4.0], [3.0, 4.0, 8.0], [5.0, 6.0, 7.0]]
    t = Table([Vector([1, 1, 2], name=kn)] + [Vector(vals[j], name=vn) for j in range(3)])
    K = t.cols()[0]
    V = list(t.cols()[1:])
    cols = [V[0]] * reps if case['same'] else V[:reps]
    apply_names = [base + sfx for sfx in case['apply']]
    kw = {fn + '_over': cols}
    if apply_names:
        kw['apply'] = {an: (V[0], lambda xs: len(xs)) for an in apply_names}
    call = f'{meth}(over=[{kn!r}], {fn}_over={reps} columns named {vn!r}' + (' (one column repeated)' if case['same'] else '') + \
           (f', apply={apply_names!r}' if apply_names else '') + ')'
    try:
        r = getattr(t, meth)(over=[K], **kw)
    except Exception as e:
        return [Fail(f'C18:{meth}:raises', f'{call} raised {type(e).__name__}: {e}')]
    fails = []
    m = truthful(r)
    if m:
        fails.append(Fail(f'C03:{meth}:truthful', m))
    try:
        got = r.column_names()
    except Exception as e:
        return fails + [Fail(f'C18:{meth}:column_names-raises', f'{type(e).__name__}: {e}')]
    desc = f'{call} -> {got!r}'
    n_out = 1 + reps + len(apply_names)
    if len(got) != n_out:
        return fails + [Fail(f'C18:{meth}:output-count', desc, n_out, len(got))]
    if any(not isinstance(g, str) for g in got) or len(set(got)) != len(got):
        fails.append(Fail(f'C18:{meth}:output-names-not-distinct', desc, 'pairwise distinct', got))
    if got[0] != kn:
        fails.append(Fail(f'C18:{meth}:key-name', desc + '; key 0', kn, got[0]))
    pat = re.compile(re.escape(base) + r'\d*')
    outs = got[1:1 + reps]
    if not all(isinstance(o, str) and pat.fullmatch(o) for o in outs):
        fails.append(Fail(f'C18:{meth}:aggregate-name-pattern', desc, f'{base}[n] for each of the {reps} requests', outs))
    aouts = got[1 + reps:]
    for an, o in zip(apply_names, aouts):
        if not (isinstance(o, str) and re.fullmatch(re.escape(an) + r'\d*', o)):
            fails.append(Fail(f'C18:{meth}:apply-name-pattern', desc + f'; apply output for {an!r}', an + '[n]', o))
            break
    if base not in got:
        fails.append(Fail(f'C18:{meth}:needless-suffix', desc + f'; {base!r} is free but unused', base, got))
    return fails


# table-with-table arithmetic: names that are different strings but sanitise alike (case, spacing, punctuation only)
TT_LOOKALIKE_PAIRS = [('Price', 'price'), ('unit cost', 'unit_cost'), ('$$$', '%'), ('a', 'A'), ('a ', 'a'), ('A b', 'a_b'), ('1x', 'c1x'),
                      ('sum', 'sum_')]


def lookalike_tab_tab_cases():
    for l, r_ in TT_LOOKALIKE_PAIRS:
        for ln, rn in ((l, r_), (r_, l)):
            for sym in ARITH:
                yield {'op': 'tab-tab', 'left': lit([ln]), 'right': lit([rn]), 'sym': sym}
                # beside a column pair with equal names / an absent right name: the rule is per column
                yield {'op': 'tab-tab', 'left': lit([ln, 'q']), 'right': lit([rn, 'q']), 'sym': sym}
                yield {'op': 'tab-tab', 'left': lit(['q', ln]), 'right': lit([None, rn]), 'sym': sym}


# ---------------------------------------------------------------------------------------------
# arithmetic on the typed subclass vectors (date / str / int / float): results are unnamed
# ---------------------------------------------------------------------------------------------
TYPED_DATA = {
    'date': [date(2024, 1, 31), date(2024, 2, 29), date(2023, 12, 31)],
    'str': ['a', 'b', 'c'],
    'int': [3, 1, 2],
    'float': [1.5, 2.5, 4.0],
}
# kind -> [(site label, expression over v (the named vector), k (int vector), w (second vector of v's kind))]
TYPED_EXPRS = {
    'date': [('add-int', 'v + 30'), ('add-bool', 'v + True'), ('add-int-vector', 'v + k'), ('add-timedelta', 'v + timedelta(days=1)'),
             ('sub-timedelta', 'v - timedelta(days=1)'), ('radd-timedelta', 'timedelta(days=1) + v'), ('sub-date', 'v - date(2024, 1, 1)'),
             ('rsub-date', 'date(2025, 1, 1) - v'), ('sub-date-vector', 'v - w'), ('add-int-list', 'v + [1, 2, 3][:len(v)]'),
             ('radd-int-vector', 'k + v'),
             ('eq-date', 'v == date(2024, 1, 31)'), ('lt-iso-string', "v < '2024-02-01'"), ('ge-date-vector', 'v >= w')],
    'str': [('add-str', "v + 'x'"), ('radd-str', "'x' + v"), ('mul-int', 'v * 2'), ('rmul-int', '2 * v'), ('add-str-vector', 'v + w'),
            ('mul-int-vector', 'v * k'), ('rmul-int-vector', 'k * v'), ('radd-str-list', "['p', 'q', 'r'][:len(v)] + v"),
            ('add-str-list', "v + ['p', 'q', 'r'][:len(v)]"), ('eq-str', "v == 'a'"), ('lt-str-vector', 'v < w')],
    'num': [('radd-int', '2 + v'), ('rsub-int', '2 - v'), ('rmul-int', '2 * v'), ('rtruediv-int', '2 / v'), ('rfloordiv-int', '2 // v'),
            ('rmod-int', '2 % v'), ('rpow-int', '2 ** v'), ('radd-float', '2.5 + v'), ('rsub-float', '2.5 - v'), ('rmul-float', '2.5 * v'),
            ('radd-bool', 'True + v'), ('add-int', 'v + 2'), ('truediv-int', 'v / 2'), ('pow-int', 'v ** 2'),
            ('radd-list', '[1, 2, 3][:len(v)] + v'), ('rsub-list', '[1, 2, 3][:len(v)] - v'), ('add-list', 'v + [1, 2, 3][:len(v)]'),
            ('add-int-vector', 'v + k'), ('radd-int-vector', 'k + v'), ('mul-float-vector', 'v * x'), ('rmul-float-vector', 'x * v'),
            ('rlt-int', '2 < v'), ('rge-float', '2.0 >= v')],
}
TYPED_EXPRS['int'] = TYPED_EXPRS['float'] = TYPED_EXPRS['num']
TYPED_NAMES = ['due', 'A b', '', None]
TYPED_DERIVE = [None, 'copy', 'slice', 'sort', 'vmask', 'write']
TYPED_BUILD = {
    'date': [['v + 30'], ['v + k'], ['v + timedelta(days=1)', 'v - timedelta(days=1)'], ['v + 30', 'v + 60'], ['v - w']],
    'str': [["v + 'x'"], ['v * 2'], ["v + 'x'", "'x' + v"], ['v + w']],
    'int': [['2 * v'], ['v + v'], ['2 - v', 'v / 2'], ['2 + v', 'v + 2']],
    'float': [['2 * v'], ['2 - v', 'v ** 2']],
}


def typed_env(kind, name, nulls, derive=None):
    data = list(TYPED_DATA[kind])
    if nulls:
        data[1] = None
    v = Vector(data, name=name)
    if derive:
        v = keep_op(v, derive)
    n = len(v)
    env = dict(NS)
    env.update({'v': v, 'k': Vector([1, 2, 3][:n], name='k'), 'x': Vector([0.5, 1.5, 2.0][:n], name='x'),
                'w': Vector(list(TYPED_DATA[kind])[::-1][:n], name='w')})
    return env


def typed_cases(tier):
    q = tier == 'quick'
    for kind in TYPED_DATA:
        for name in TYPED_NAMES:
            for nulls in (False, True):
                for derive in TYPED_DERIVE:
                    if q and derive in ('sort', 'vmask') and nulls:
                        continue
                    for label, src in TYPED_EXPRS[kind]:
                        yield {'op': 'typed-math', 'kind': kind, 'name': lit(name), 'nulls': nulls, 'd': derive, 'site': label, 'expr': src}
                for exprs in TYPED_BUILD[kind]:
                    for how in ('list', 'rshift', 'vector-ctor', 'table-rshift-vector'):
                        yield {'op': 'typed-build', 'kind': kind, 'name': lit(name), 'nulls': nulls, 'exprs': exprs, 'how': how}


def eval_typed_math(case):
    name = ev(case['name'])
    kind = case['kind']
    try:
        env = typed_env(kind, name, case['nulls'], case['d'])
    except Exception:
        return []
    v = env['v']
    what = (f"v = Vector({[None if case['nulls'] and i == 1 else x for i, x in enumerate(TYPED_DATA[kind])]!r}, name={name!r})"
            + (f'.{case["d"]}' if case['d'] else '') + f" [{type(v).__name__}]; {case['expr']}")
    if not same_name(v.name, name):
        return []                                      # the derivation lost the name: vec-keep's business
    try:
        r = eval(case['expr'], env)
    except Exception:
        return []                                      # the operation is not defined / refused: not a naming question
    fails = []
    if not isinstance(r, Vector) or isinstance(r, Table):
        return fails
    m = truthful(r)
    if m:
        fails.append(Fail(f'C03:Vector.{kind}.{case["site"]}:truthful', f'{what}: {m}'))
    if r.name is not None:
        fails.append(Fail(f'C18:Vector.typed-math:{kind}:{case["site"]}:name-not-dropped',
                          f'{what} is named {r.name!r}; arithmetic and comparisons give unnamed results', None, r.name))
    if not same_name(v.name, name) or env['k'].name != 'k' or env['w'].name != 'w':
        fails.append(Fail(f'C18:Vector.typed-math:{kind}:{case["site"]}:operand-renamed',
                          f'{what}: operands are now named {v.name!r} / {env["k"].name!r} / {env["w"].name!r}', (name, 'k', 'w'),
                          (v.name, env['k'].name, env['w'].name)))
    return fails


def eval_typed_build(case):
    name = ev(case['name'])
    kind, how = case['kind'], case['how']
    try:
        env = typed_env(kind, name, case['nulls'])
        v = env['v']
        derived = [eval(e, env) for e in case['exprs']]
    except Exception:
        return []
    if not all(isinstance(r, Vector) and not isinstance(r, Table) and len(r) == len(v) for r in derived):
        return []
    what = f"v = {type(v).__name__} named {name!r}; {how} of [v, {', '.join(case['exprs'])}]"
    want = [name] + [None] * len(derived)
    try:
        if how == 'list':
            t = Table([v] + derived)
        elif how == 'vector-ctor':
            t = Vector([v] + derived)
        elif how == 'rshift':
            t = v
            for r in derived:
                t = t >> r
        else:
            t = Table([v])
            for r in derived:
                t = t >> r
    except Exception:
        return []                                      # the builder refusing (e.g. vector >> vector of another kind) is not a naming question
    if not isinstance(t, Table):
        return []
    fails = []
    m = truthful(t)
    if m:
        fails.append(Fail(f'C03:Table.build.{how}:truthful', f'{what}: {m}'))
    fails += names_fail(f'C18:Table.build.{how}:typed-math-columns:names', what + ' (results of arithmetic are unnamed, so only the first column carries the name)',
                        want, t)
    return fails


# ---------------------------------------------------------------------------------------------
def chains(ops, n):
    for ln in range(1, n + 1):
        for c in itertools.product(ops, repeat=ln):
            yield list(c)


def cases(tier, seed):
    yield from cases_v1(tier, seed)
    yield from cases_v2(tier, seed)
    yield from typed_cases(tier)


def cases_v1(tier, seed):
    q = tier == 'quick'
    # vectors
    for data in VEC_DATA:
        for name in NAMES:
            for ch in chains(KEEP_OPS, 2 if q else 3):
                yield {'op': 'vec-keep', 'data': data, 'name': lit(name), 'chain': ch}
    for n1 in NAMES:
        for n2 in NAMES:
            for sym in list(ARITH) + list(CMP):
                for d1 in [None] + (['copy', 'slice', 'sort', 'write'] if q else KEEP_OPS):
                    for d2 in [None] + (['copy', 'slice', 'lmask'] if q else KEEP_OPS):
                        yield {'op': 'vec-math', 'n1': lit(n1), 'n2': lit(n2), 'sym': sym, 'd1': d1, 'd2': d2}
    # tables
    for w in range(1, 4):
        for names in itertools.product(NAMES, repeat=w):
            for how in ['list', 'vector-ctor', 'dict', 'rshift-chain', 'rshift-tables', 'rshift-dict', 'rshift-list', 'vec-rshift-table']:
                yield {'op': 'tab-build', 'names': lit(list(names)), 'how': how}
            for sym in ARITH:
                for side in 'LR':
                    yield {'op': 'tab-scalar', 'names': lit(list(names)), 'sym': sym, 'side': side}
    for w in range(1, 3):
        for ln in itertools.product(NAMES, repeat=w):
            for rn in itertools.product(NAMES, repeat=w):
                for sym in ARITH:
                    yield {'op': 'tab-tab', 'left': lit(list(ln)), 'right': lit(list(rn)), 'sym': sym}
    for w in range(1, 3 if q else 4):
        for names in itertools.product(NAMES, repeat=w):
            for ch in chains(TAB_OPS, 2 if (q or w == 3) else 3):       # width 3: chains <= 2 only
                yield {'op': 'tab-chain', 'names': lit(list(names)), 'chain': ch}
    # a join that matches nothing still is a joined table
    for names in itertools.product(NAMES, repeat=2):
        yield {'op': 'join-empty', 'names': lit(list(names))}
    # aggregate / window
    for meth in ('aggregate', 'window'):
        for k1 in ['k', 'x_sum', None]:
            for k2 in ['k', 'j']:
                for xn in ['x', 'A b', '', None]:
                    for yn in ['x', 'y', 'A b', None]:
                        for over in (1, 2):
                            for fa in FUNCS:
                                for ca in ('x', 'xx', 'xy'):
                                    for fb in (None, 'count' if fa != 'count' else 'sum'):
                                        yield {'op': 'agg', 'meth': meth, 'k1': lit(k1), 'k2': lit(k2), 'x': lit(xn), 'y': lit(yn),
                                               'over': over, 'fa': fa, 'ca': ca, 'fb': fb}


def cases_v2(tier, seed):
    yield from lookalike_tab_tab_cases()
    for meth in ('aggregate', 'window'):
        for vn in AGG2_VALUE_NAMES:
            for fn in FUNCS:
                for ksuf in AGG2_KEY_SUFFIXES:
                    for reps in (2, 3):
                        for same in (False, True):
                            for ap in AGG2_APPLY:
                                yield {'op': 'agg2', 'meth': meth, 'v': lit(vn), 'fn': fn, 'ksuf': ksuf, 'reps': reps, 'same': same, 'apply': ap}


def eval_join_empty(case):
    names = ev(case['names'])
    t = mk_table(names)
    u = mk_table(OTHER, off=10)
    try:
        r = t.inner_join(u, t.cols()[0], u.cols()[0], expect='many_to_many')
    except Exception:
        return []
    if not isinstance(r, Table):
        return []
    if len(r) == 0:
        # the statement speaks about the columns of output rows; a result with no rows is not decided by it
        return []
    return names_fail('C18:Table.inner_join:no-match-result-drops-columns', f'inner_join of {names!r} with {OTHER!r}, no key matches',
                      list(names) + OTHER, r)


EVAL = {'vec-keep': eval_vec_keep, 'vec-math': eval_vec_math, 'tab-build': eval_tab_build, 'tab-scalar': eval_tab_scalar,
        'tab-tab': eval_tab_tab, 'tab-chain': eval_tab_chain, 'agg': eval_agg, 'join-empty': eval_join_empty, 'agg2': eval_agg2,
        'typed-math': eval_typed_math, 'typed-build': eval_typed_build}


def evaluate(case):
    try:
        return EVAL[case['op']](case)
    except Skip:
        return []


def nontrivial(case):
    op = case['op']
    if op == 'typed-math':
        return (op, case['kind'], case['site'], case['name'], case['nulls'], case['d'])
    if op == 'typed-build':
        return (op, case['kind'], tuple(case['exprs']), case['how'], case['name'], case['nulls'])
    if op == 'vec-keep':
        return (op, case['data'], case['name'], tuple(case['chain'])) if len(case['chain']) > 1 else None
    if op == 'vec-math':
        return (op, case['sym'], case['n1'] == case['n2'], case['d1'], case['d2'])
    if op == 'tab-chain':
        return (op, tuple(case['chain'])) if len(case['chain']) > 1 else None
    if op == 'tab-tab':
        return (op, case['left'], case['right'])
    if op == 'agg2':
        return (op, case['meth'], case['v'], case['ksuf'], case['reps'], case['same'], tuple(case['apply']))
    if op == 'agg':
        return (op, case['meth'], case['k1'], case['x'] == case['y'], case['ca'], case['fb'] is not None, case['over'])
    return (op, case.get('how'), case.get('sym'))


if __name__ == '__main__':
    main('C18', cases, evaluate,
         rule='all chains of name-keeping vector operations; all operator x name-pair x derived-operand combinations; all table '
              'builders over all name lists of width <= 3; all chains of structural table operations incl. joins and >>; '
              'table-scalar and table-table arithmetic over all name pairs (incl. pairs differing only in case / spacing / punctuation); '
              'aggregate/window over key/value name patterns, incl. keys and apply names equal to would-be suffixed output names; '
              'arithmetic / comparisons on typed date / str / int / float vectors (scalar, reflected scalar, vector, list operands; timedelta) '
              'give unnamed results and tables built from [v, f(v)] have names [name, None]. '
              'distinct = distinct operation chains / operator-name patterns',
         bound=lambda tier: {'names': len(NAMES), 'vec_chain': 2 if tier == 'quick' else 3, 'tab_chain': 2 if tier == 'quick' else '3 (width<=2), 2 (width 3)',
                             'tab_width': 2 if tier == 'quick' else 3, 'build_width': 3,
                             'typed_kinds': list(TYPED_DATA), 'typed_exprs': {k: len(v) for k, v in TYPED_EXPRS.items() if k != 'num'},
                             'typed_names': len(TYPED_NAMES), 'typed_derivations': TYPED_DERIVE},
         nontrivial=nontrivial)

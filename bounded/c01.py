"""C01 bounded stand-in: value semantics - writes stay local, read-only operations are pure.

A case is a HISTORY: a setup (three root vectors v0, v1, v2 of length 3 and a table t0 built from
v0, v1 by one of several construction paths) followed by <= 2 (quick) / <= 3 (thorough) steps.
Every step is one python statement over the live objects (roots + results r1, r2, r3 of earlier
steps).  After every step a monitor snapshots every live object (contents, names, dtypes, and for
tables column_names / len / row iteration) and compares it with the snapshot taken before the step:

  * a write through handle h may change h only; when h is a column obtained from a table
    (t.a / t['a']) it may change that table (and the other handles of that same column); a write
    through a table may change the column handles obtained from it;
  * an operation that returns a new object (or a plain read) changes nothing;
  * a step that raises changes nothing at all (AliasError: by the statement; other errors are
    reported under a separate key class).

The oracle is the frame rule above (who may change), not serif code.

Sizes: the same histories are also run on roots of length 1 and 0 (size-dependent literals of the
alphabet - masks, index lists, replacement columns - are scaled; `@TOKEN@` in a template).
Identity: a derivation (anything but the live column handles t.a / t['a']) must hand back an object
that IS NOT one of its operands and shares no column object with them (a sort that returns self for an
already sorted / tiny input, a slice / mask / select that selects everything, `>> {}` ...): otherwise
later writes through either handle cannot stay local.  A directed family (every derivation, then every
core write / dict-`>>` through the result or an operand) confirms it by the frame rule.
"""
import itertools

from harness import *  # noqa

# --------------------------------------------------------------------------------------------
# setups: how t0 is derived from the root vectors
# --------------------------------------------------------------------------------------------
ROOTS = "v0 = Vector(@C0@, name='a'); v1 = Vector(@C1@, name='b'); v2 = Vector(@COL@, name='c')"
SETUPS = {
    'rshift':       "t0 = v0 >> v1",
    'ctor-list':    "t0 = Table([v0, v1])",
    'ctor-tuple':   "t0 = Table((v0, v1))",
    'vector-nested': "t0 = Vector([v0, v1])",
    'dict-of-lists': "t0 = Table({'a': @C0@, 'b': @C1@})",
}
SETUP_LABEL = {k: 'setup:' + k for k in SETUPS}
SIZES = (3, 1, 0)


def _tokens(n):
    """Size-dependent literals (n = length of the roots); at n = 3 they are the literals of the original alphabet."""
    k2 = min(2, n)
    idx = sorted({0, n - 1}) if n else []
    return {
        '@C0@': lit([1, 2, 3][:n]), '@C1@': lit([4, 5, 6][:n]), '@COL@': lit([7, 8, 9][:n]),
        '@COLBAD@': '[7, 8]',                                       # never the right length (n != 2)
        '@MASK@': lit([True, False, True][:n]), '@MASKALL@': lit([True] * n),
        '@IDX@': lit(idx), '@IDXV@': lit([70, 80][:len(idx)]),
        '@S2@': lit([70, 80][:k2]),
        '@SBAD@': '[1]' if n >= 2 else '[1, 1, 1]',
        '@SMIX@': lit([1.5, 's'][-k2:]) if n else "[1.5, 's']",
        '@REG@': "Table({'p': %s, 'q': %s})" % (lit([0, 0][:k2]), lit([1, 1][:k2])),
        '@BADCOL@': '[1]' if n != 1 else '[1, 1]',
        '@WBAD@': '{w}[0:2]' if n == 3 else '({w} << [9])',
    }


def _sized(src, n):
    if '@' in src:
        for k, v in _tokens(n).items():
            src = src.replace(k, v)
    return src

# --------------------------------------------------------------------------------------------
# alphabet.  (name, template, result kind | None, class)
#   class: 'derive' (returns a new object), 'read' (pure, no stored result),
#          write classes: 'setitem', 'promote', 'rename', 'table-setitem', 'view-setitem', 'setattr'
#   {x} target, {w} another vector, {u} a table (may be the target itself), {R} result name
#   'core' marks the reduced alphabet used for the longest histories
# --------------------------------------------------------------------------------------------
V_DERIVE = [
    ('Vector.copy', '{x}.copy()', 'V', 1),
    ('Vector.getitem-slice', '{x}[0:2]', 'V', 1),
    ('Vector.getitem-slice-full', '{x}[:]', 'V', 0),
    ('Vector.getitem-mask', '{x}[@MASK@]', 'V', 0),
    ('Vector.getitem-index', '{x}[@IDX@]', 'V', 0),
    ('Vector.add-scalar', '{x} + 1', 'V', 0),
    ('Vector.add-vector', '{x} + {w}', 'V', 0),
    ('Vector.eq-scalar', '{x} == 2', 'V', 0),
    ('Vector.neg', '-{x}', 'V', 0),
    ('Vector.sort_by', '{x}.sort_by(reverse=True)', 'V', 0),
    ('Vector.lshift', '{x} << [9]', 'V', 0),
    ('Vector.T', '{x}.T', 'V', 0),
    ('Vector.cast', '{x}.cast(float)', 'V', 0),
    ('Vector.fillna', '{x}.fillna(0)', 'V', 0),
    ('Vector.rshift-vector', '{x} >> {w}', 'T', 1),
    ('Vector.rshift-list', '{x} >> @COL@', 'T', 0),
    ('Vector.rshift-list-short', '{x} >> @COLBAD@', 'T', 0),      # unequal lengths: not a table
    ('Table.ctor-list', 'Table([{x}, {w}])', 'T', 1),
    ('Table.ctor-dict-lists', "Table({{'p': list({x}), 'q': list({w})}})", 'T', 0),
    ('Vector.ctor-nested', 'Vector([{x}, {w}])', 'T', 0),
    # derivations that could hand back the operand itself (nothing to do: already sorted, nothing dropped, ...)
    ('Vector.sort_by-asc', '{x}.sort_by()', 'V', 0),
    ('Vector.lshift-empty', '{x} << []', 'V', 0),
    ('Vector.cast-same', '{x}.cast(int)', 'V', 0),
    ('Vector.getitem-mask-all', '{x}[@MASKALL@]', 'V', 0),
    ('Vector.getitem-slice-over', '{x}[0:100]', 'V', 0),
    ('Vector.add-zero', '{x} + 0', 'V', 0),
    ('Vector.pos', '+{x}', 'V', 0),
    ('Vector.dropna', '{x}.dropna()', 'V', 0),
]
V_READ = [
    ('Vector.repr', 'repr({x})'),
    ('Vector.fingerprint', '{x}.fingerprint()'),
    ('Vector.sum', '{x}.sum()'),
    ('Vector.list', 'list({x})'),
]
V_WRITE = [
    ('Vector.setitem-int', '{x}[0] = 100', 'setitem', 1),
    ('Vector.setitem-negint', '{x}[-1] = 100', 'setitem', 0),
    ('Vector.setitem-int-promote', '{x}[0] = 1.5', 'promote', 1),
    ('Vector.setitem-none', '{x}[0] = None', 'setitem', 0),
    ('Vector.setitem-slice', '{x}[0:2] = @S2@', 'setitem', 0),
    ('Vector.setitem-slice-scalar', '{x}[1:] = 0', 'setitem', 0),
    ('Vector.setitem-mask', '{x}[@MASK@] = 0', 'setitem', 0),
    ('Vector.setitem-index-list', '{x}[@IDX@] = @IDXV@', 'setitem', 0),
    ('Vector.setitem-slice-vector', '{x}[0:3] = {w}', 'setitem', 0),
    ('Vector.name-set', "{x}.name = 'z'", 'rename', 1),
    # variants expected to be refused
    ('Vector.setitem-int-oob', '{x}[5] = 1', 'setitem', 0),
    ('Vector.setitem-slice-badlen', '{x}[0:2] = @SBAD@', 'setitem', 0),
    ('Vector.setitem-str', "{x}[0] = 's'", 'setitem', 0),
    ('Vector.setitem-slice-mixed-bad', "{x}[0:2] = @SMIX@", 'setitem', 0),
]
T_DERIVE = [
    ('Table.copy', '{x}.copy()', 'T', 0),
    ('Table.getitem-slice', '{x}[0:2]', 'T', 1),
    ('Table.getitem-mask', '{x}[@MASK@]', 'T', 1),
    ('Table.getitem-select', "{x}['b', 'a']", 'T', 1),
    ('Table.getitem-rows-col', "{x}[0:2, 'a']", 'V', 0),
    ('Table.getitem-region', '{x}[0:2, 0:2]', 'T', 0),
    ('Table.getitem-indexvec', '{x}[Vector(@IDX@)]', 'T', 0),
    ('Table.getitem-name', "{x}['a']", 'V', 0),          # live column handle
    ('Table.getattr', '{x}.b', 'V', 1),                  # live column handle
    ('Table.rshift-vector', '{x} >> {w}', 'T', 1),
    ('Table.rshift-dict-vector', "{x} >> {{'c': {w}}}", 'T', 1),
    ('Table.rshift-dict-list', "{x} >> {{'c': @COL@}}", 'T', 0),
    ('Table.rshift-list', '{x} >> @COL@', 'T', 0),
    ('Table.rshift-list-short', '{x} >> @COLBAD@', 'T', 0),       # unequal lengths: not a table
    ('Table.rshift-table', '{x} >> {u}', 'T', 0),
    ('Table.lshift-row', '{x} << [7, 8]', 'T', 1),
    ('Table.lshift-table', '{x} << {u}', 'T', 0),
    ('Table.inner_join', "{x}.inner_join({u}, 'a', 'a')", 'T', 1),
    ('Table.join', "{x}.join({u}, 'a', 'a')", 'T', 0),
    ('Table.full_join', "{x}.full_join({u}, 'a', 'a')", 'T', 0),
    ('Table.sort_by', "{x}.sort_by('a', reverse=True)", 'T', 1),
    ('Table.T', '{x}.T', 'T', 0),
    ('Table.add-scalar', '{x} + 1', 'T', 0),
    ('Table.eq-scalar', '{x} == 1', 'T', 0),
    ('Table.aggregate', "{x}.aggregate(over='a', sum_over='b')", 'T', 0),
    ('Table.window', "{x}.window(over='a', sum_over='b')", 'T', 0),
    # derivations that could hand back the operand itself / its column objects
    ('Table.getitem-slice-full', '{x}[:]', 'T', 0),
    ('Table.getitem-mask-all', '{x}[@MASKALL@]', 'T', 0),
    ('Table.getitem-select-all', "{x}['a', 'b']", 'T', 0),
    ('Table.sort_by-asc', "{x}.sort_by('a')", 'T', 0),
    ('Table.rshift-dict-empty', '{x} >> {{}}', 'T', 0),
    ('Table.lshift-table-empty', '{x} << {x}[0:0]', 'T', 0),
    # dict form of >> whose value is a vector under ANOTHER name / a column of another (or the same) table
    ('Table.rshift-dict-vector-renamed', "{x} >> {{'z': {w}}}", 'T', 0),
    ('Table.rshift-dict-column', "{x} >> {{'z': {u}.b}}", 'T', 0),
    ('Table.rshift-dict-two', "{x} >> {{'p': {w}, 'q': {u}.a}}", 'T', 0),
    ('Table.rshift-column', '{x} >> {u}.b', 'T', 0),
    # variants expected to be refused
    ('Table.lshift-row-badlen', '{x} << [1]', 'T', 0),
    ('Table.inner_join-badkey', "{x}.inner_join({u}, 'nope', 'a')", 'T', 0),
]
VIEW_COL = {'Table.getitem-name': 'a', 'Table.getattr': 'b'}
T_READ = [
    ('Table.repr', 'repr({x})'),
    ('Table.fingerprint', '{x}.fingerprint()'),
    ('Table.row-index', 'list({x}[0])'),
    ('Table.iter', '[tuple(r) for r in {x}]'),
    ('Table.shape', '{x}.shape'),
]
T_WRITE = [
    ('Table.setitem-cell', '{x}[0, 0] = 100', 'table-setitem', 1),
    ('Table.setitem-cell-name', "{x}[1, 'b'] = 100", 'table-setitem', 0),
    ('Table.setitem-cell-promote', '{x}[0, 1] = 1.5', 'promote', 0),
    ('Table.setitem-row', '{x}[0, :] = [70, 80]', 'table-setitem', 0),
    ('Table.setitem-row-plain', '{x}[1] = [70, 80]', 'table-setitem', 0),
    ('Table.setitem-column', "{x}[:, 'a'] = @COL@", 'table-setitem', 0),
    ('Table.setitem-region', "{x}[0:2, 0:2] = @REG@", 'table-setitem', 0),
    ('Table.setitem-region-table', '{x}[0:3, 0:2] = {u}', 'table-setitem', 0),
    ('Table.view-setitem', '{x}.a[0] = 100', 'view-setitem', 1),
    ('Table.view-setitem-name', "{x}['b'][0] = 100", 'view-setitem', 0),
    ('Table.setattr-vector', '{x}.a = {w}', 'setattr', 1),
    ('Table.setattr-list', '{x}.a = @COL@', 'setattr', 0),
    ('Table.setattr-indexed-vector', '{x}.a__0 = {w}', 'setattr', 1),
    ('Table.setattr-indexed-list', '{x}.b__1 = @COL@', 'setattr', 0),
    ('Table.rename_column', "{x}.rename_column('a', 'z')", 'rename', 1),
    ('Table.view-name-set', "{x}.b.name = 'z'", 'rename', 0),
    # variants expected to be refused
    ('Table.setattr-list-badlen', '{x}.a = @BADCOL@', 'setattr', 0),
    ('Table.setattr-vector-badlen', '{x}.a = @WBAD@', 'setattr', 0),
    ('Table.setattr-missing', '{x}.zzz = @COL@', 'setattr', 0),
    ('Table.setitem-cell-oob', '{x}[9, 0] = 1', 'table-setitem', 0),
    ('Table.setitem-row-badlen', '{x}[0, :] = [1]', 'table-setitem', 0),
    ('Table.setitem-row-mixed-bad', "{x}[0, :] = [1, 's']", 'table-setitem', 0),
]
# ops whose {w} ranges over EVERY other live vector (donor position matters); the rest take one w
ALL_W = {'Table.rshift-vector', 'Table.rshift-dict-vector', 'Table.setattr-vector', 'Table.setattr-indexed-vector',
         'Table.rshift-dict-vector-renamed'}
# attribute assignment replaces that column: handles of the old column stop belonging to the table
DETACH = {'Table.setattr-vector': 'a', 'Table.setattr-list': 'a', 'Table.setattr-indexed-vector': 'a',
          'Table.setattr-indexed-list': 'b'}


# near-duplicates of other alphabet entries: exercised in single-step histories and in the thorough tier only
LIGHT = {'Vector.T', 'Vector.cast', 'Vector.fillna', 'Vector.getitem-slice-full', 'Vector.setitem-negint',
         'Table.join', 'Table.full_join', 'Table.window', 'Table.setitem-cell-name',
         'Table.view-setitem-name', 'Table.setitem-row-plain', 'Table.getitem-indexvec', 'Vector.getitem-index',
         'Vector.sort_by-asc', 'Vector.lshift-empty', 'Vector.cast-same', 'Vector.getitem-mask-all', 'Vector.getitem-slice-over',
         'Vector.add-zero', 'Vector.pos', 'Vector.dropna', 'Table.getitem-slice-full', 'Table.getitem-mask-all',
         'Table.getitem-select-all', 'Table.sort_by-asc', 'Table.rshift-dict-empty', 'Table.lshift-table-empty',
         'Table.rshift-dict-vector-renamed', 'Table.rshift-dict-column', 'Table.rshift-dict-two', 'Table.rshift-column'}
# the no-op derivations and dict->> variants added for the identity check ('nonew' alphabet = everything but these)
NEW_OPS = {'Vector.sort_by-asc', 'Vector.lshift-empty', 'Vector.cast-same', 'Vector.getitem-mask-all', 'Vector.getitem-slice-over',
           'Vector.add-zero', 'Vector.pos', 'Vector.dropna', 'Table.getitem-slice-full', 'Table.getitem-mask-all',
           'Table.getitem-select-all', 'Table.sort_by-asc', 'Table.rshift-dict-empty', 'Table.lshift-table-empty',
           'Table.rshift-dict-vector-renamed', 'Table.rshift-dict-column', 'Table.rshift-dict-two', 'Table.rshift-column'}
# second step of the directed family besides the core writes: the dict form of >> (value = vector / column of a table)
SECOND_DERIVE = {'Table.rshift-dict-vector', 'Table.rshift-dict-vector-renamed', 'Table.rshift-dict-column'}


def _steps(env, k, last, core, vec_targets, n=3, sel=None):
    """All steps available in abstract environment env ({name: 'V'|'T'}) as step number k.
    n: length of the roots; sel(op, cls, x, c): optional filter (c = core flag of the op)."""
    R = f'r{k}'
    vs = [n_ for n_, kd in env.items() if kd == 'V']
    ts = [n_ for n_, kd in env.items() if kd == 'T']
    out = []
    wbad = _tokens(n)['@WBAD@']

    def emit(op, tmpl, x, res, cls, extra_kind):
        if core == 'nolight' and op in LIGHT:
            return
        if core == 'nonew' and op in NEW_OPS:
            return
        tmpl = tmpl.replace('@WBAD@', wbad)
        if '{w}' in tmpl:
            ws = [w for w in vs if w != x]
            if op not in ALL_W and ws:
                ws = [ws[(vs.index(x) if x in vs else 0) % len(ws)]]
        else:
            ws = [None]
        us = ts if '{u}' in tmpl else [None]
        for w in ws:
            for u in us:
                src = _sized(tmpl.format(x=x, w=w, u=u), n)
                operands = [x] + [o for o in (w, u) if o is not None and o != x]
                st = {'op': op, 'src': (f'{R} = {src}' if res else src), 'tgt': x, 'operands': operands,
                      'cls': cls}
                if res:
                    st['res'] = R
                    st['kind'] = res
                out.append(st)

    for x in vs:
        if vec_targets is not None and x in ('v0', 'v1', 'v2') and x not in vec_targets:
            continue
        for op, tmpl, res, c in V_DERIVE:
            if (c or core in (False, 'nolight', 'nonew')) and (sel is None or sel(op, 'derive', x, c)):
                emit(op, tmpl, x, res, 'derive', None)
        for op, tmpl, cls, c in V_WRITE:
            if (c or core in (False, 'nolight', 'nonew')) and (sel is None or sel(op, cls, x, c)):
                emit(op, tmpl, x, None, cls, None)
        if last:
            for op, tmpl in V_READ:
                emit(op, tmpl, x, None, 'read', None)
    for x in ts:
        for op, tmpl, res, c in T_DERIVE:
            if (c or core in (False, 'nolight', 'nonew')) and (sel is None or sel(op, 'derive', x, c)):
                emit(op, tmpl, x, res, 'derive', None)
        for op, tmpl, cls, c in T_WRITE:
            if (c or core in (False, 'nolight', 'nonew')) and (sel is None or sel(op, cls, x, c)):
                emit(op, tmpl, x, None, cls, None)
        if last:
            for op, tmpl in T_READ:
                emit(op, tmpl, x, None, 'read', None)
    return out


def _histories(n, core, vec_targets, reads=True, size=3):
    """All histories of exactly n steps (plain reads only in last position: they are pure observers)."""
    base = {'v0': 'V', 'v1': 'V', 'v2': 'V', 't0': 'T'}

    def rec(env, k, prefix):
        last = (k == n)
        for st in _steps(env, k, last and reads, core, vec_targets, size):
            if last:
                yield prefix + [st]
            else:
                env2 = env
                if 'res' in st:
                    env2 = dict(env)
                    env2[st['res']] = st['kind']
                yield from rec(env2, k + 1, prefix + [st])
    yield from rec(base, 1, [])


def _directed(size, only_light):
    """Every derivation, then every core write (and the dict form of >>) through the result or one of the operands."""
    base = {'v0': 'V', 'v1': 'V', 'v2': 'V', 't0': 'T'}
    first = _steps(base, 1, False, False, None, size,
                   sel=lambda op, cls, x, c: cls == 'derive' and (not only_light or op in LIGHT))
    for st in first:
        env2 = dict(base)
        env2[st['res']] = st['kind']
        near = set(st['operands']) | {st['res']}
        for st2 in _steps(env2, 2, False, False, None, size,
                          sel=lambda op, cls, x, c: x in near and ((cls != 'derive' and c) or op in SECOND_DERIVE)):
            yield [st, st2]


# setups that exist for roots of length 0 (`Vector([]) >> Vector([])` itself raises: the untyped empty vector has no dtype)
SETUPS_0 = ['ctor-list', 'ctor-tuple', 'vector-nested', 'dict-of-lists']


def cases(tier, seed):
    if tier == 'quick':
        plan = [(1, False, None, list(SETUPS), True),
                (2, 'nolight', ('v0', 'v2'), ['rshift', 'ctor-list'], False)]
    else:
        plan = [(1, False, None, list(SETUPS), True),
                (2, False, None, ['rshift', 'ctor-list'], True),
                (2, 'nonew', None, ['vector-nested', 'dict-of-lists'], True),
                (3, True, ('v0', 'v2'), ['rshift', 'ctor-list'], False)]
    for n, core, vt, setups, reads in plan:
        for h in _histories(n, core, vt, reads):
            for s in setups:
                yield {'setup': s, 'hist': h}
    # roots of length 1 and 0
    if tier == 'quick':
        small = [(1, False, None, {1: list(SETUPS), 0: SETUPS_0}, True),
                 (2, True, None, {1: ['rshift'], 0: ['ctor-list']}, False)]
    else:
        small = [(1, False, None, {1: list(SETUPS), 0: SETUPS_0}, True),
                 (2, False, None, {1: ['rshift'], 0: ['ctor-list']}, True)]
    for n, core, vt, setups, reads in small:
        for size in (1, 0):
            for h in _histories(n, core, vt, reads, size):
                for s in setups[size]:
                    yield {'setup': s, 'hist': h, 'n': size}
    # directed family: derivation, then a write / dict->> through the result or an operand
    for size, s in ((3, 'rshift'), (1, 'rshift'), (0, 'ctor-list')):
        for h in _directed(size, only_light=(size == 3 and tier == 'quick')):
            yield ({'setup': s, 'hist': h, 'n': size, 'fam': 'directed'} if size != 3 else
                   {'setup': s, 'hist': h, 'fam': 'directed'})


# --------------------------------------------------------------------------------------------
# monitor
# --------------------------------------------------------------------------------------------
def _truthful(o):
    """harness.truthful, robust against values whose repr raises while the message is rendered."""
    try:
        return truthful(o)
    except Exception as e:
        return f'dtype does not describe the contents (rendering the offending value raised {type(e).__name__})'


_CODE = {}


def _compiled(src):
    c = _CODE.get(src)
    if c is None:
        c = _CODE[src] = compile(src, '<history>', 'exec')
    return c


_G = dict(NS)


def _safe_repr(e):
    if isinstance(e, Vector):
        return obs(e)
    try:
        return repr(e)
    except Exception as ex:
        return f'<{type(e).__name__}: repr raised {type(ex).__name__}>'


def obs(x):
    """Observable state of a live object: contents, names, dtypes; tables also names/len/rows."""
    if isinstance(x, Table):
        try:
            names = tuple(x.column_names())
        except Exception as e:
            names = ('ERR', type(e).__name__)
        try:
            rows = tuple([tuple(map(repr, r)) for r in x])
        except Exception as e:
            rows = ('ERR', type(e).__name__)
        return (tuple([obs(c) for c in x.cols()]), len(x), names, rows, x._name)
    if isinstance(x, Vector):
        dt = x.schema()
        try:
            vals = tuple(map(repr, x._underlying))
        except Exception:
            vals = tuple([_safe_repr(e) for e in x._underlying])
        return (vals, x._name, None if dt is None else (dt.kind, dt.nullable))
    return ('S', _safe_repr(x))


def _path(graph, a, b):
    """Labels along the shortest derivation path between objects a and b (None if unrelated)."""
    if a == b:
        return []
    seen = {a}
    frontier = [(a, [])]
    while frontier:
        nxt = []
        for node, labels in frontier:
            for other, lab in graph.get(node, []):
                if other in seen:
                    continue
                if other == b:
                    return labels + [lab]
                seen.add(other)
                nxt.append((other, labels + [lab]))
        frontier = nxt
    return None


def _link(graph, a, b, lab):
    # most recent relation first, so that the shortest path prefers the latest derivation
    graph.setdefault(a, []).insert(0, (b, lab))
    graph.setdefault(b, []).insert(0, (a, lab))


def _leaves(o):
    if isinstance(o, Table):
        return [c for c in o._underlying if isinstance(c, Vector)]
    return [o]


def _really_shared(env, tgt):
    """Does any vector reachable from the written handle share storage with another live vector?"""
    mine = _leaves(env[tgt])
    everything = []
    for o in env.values():
        everything.extend(_leaves(o))
    for m in mine:
        if len(m._underlying) == 0:
            continue
        for e in everything:
            if e is not m and e._underlying is m._underlying:
                return True
    return False


def evaluate(case):
    fails = []
    env = {}
    size = case.get('n', 3)
    try:
        exec(_compiled(_sized(ROOTS, size)), _G, env)
        exec(_compiled(_sized(SETUPS[case['setup']], size)), _G, env)
    except Exception as e:
        return [Fail('C01:setup:' + case['setup'] + ':raised', f'setup raised {type(e).__name__}: {e}')]
    graph = {}
    if case['setup'] != 'dict-of-lists':
        _link(graph, 'v0', 't0', SETUP_LABEL[case['setup']])
        _link(graph, 'v1', 't0', SETUP_LABEL[case['setup']])
    views = {}           # handle name -> (table name, column name)
    renamed = set()      # tables on which a rename happened (column names no longer static)
    bad = set()          # objects already reported as violating C03 (do not cascade)
    nested = set()       # results that were meant to be tables but are plain vectors of vectors: observed only
    snap = {n: obs(o) for n, o in env.items()}
    done = []
    for st in case['hist']:
        if any(o not in env or o in nested for o in st['operands']):
            break        # an earlier step did not produce this operand (or not a table): rest of history undefined
        op, cls, tgt = st['op'], st['cls'], st['tgt']
        exc = None
        try:
            exec(_compiled(st['src']), _G, env)
        except Exception as e:
            exc = type(e)     # (keeping the exception object would keep this frame and every operand alive)
        done.append(st['src'])
        hist = '; '.join(done)
        res = st.get('res')
        if res is not None and res not in env:
            res = None
        if res is not None and not isinstance(env[res], (Vector, Table)):
            del env[res]
            res = None
        # who may change
        allowed = set()
        if exc is None and cls not in ('derive', 'read'):
            allowed.add(tgt)
            if tgt in views:
                ptab, pcol = views[tgt]
                allowed.add(ptab)
                allowed.update(h for h, (pt, pc) in views.items() if pt == ptab and pc == pcol)
            allowed.update(h for h, (pt, pc) in views.items() if pt == tgt)
        tainted = any(o in bad for o in st['operands'])   # an operand already violated C03 earlier
        # this step relates its operands to each other (most recent relation first)
        if res is not None:
            lab = op
            if st['kind'] == 'T' and not isinstance(env[res], Table):
                lab = op + '~nested-vector'
                nested.add(res)
            for o in st['operands']:
                _link(graph, res, o, lab)
        elif len(st['operands']) > 1:
            for o in st['operands'][1:]:
                _link(graph, tgt, o, op)
        # identity: a derivation never hands back an operand, nor a table standing on an operand's column objects
        if res is not None and res not in nested and op not in VIEW_COL:
            r_obj = env[res]
            r_cols = {id(c) for c in _leaves(r_obj)} if isinstance(r_obj, Table) else set()
            for o in st['operands']:
                o_obj = env[o]
                if r_obj is o_obj:
                    fails.append(Fail(f'C01:{op}:result-is-operand',
                                      f'{hist}  returns its operand {o} itself (`{res} is {o}`): a later write through either '
                                      f'handle shows through the other', f'{res} is not {o}', f'{res} is {o}'))
                elif r_cols and any(id(c) in r_cols for c in _leaves(o_obj)):
                    fails.append(Fail(f'C01:{op}:result-shares-column-object',
                                      f'{hist}  returns a table holding the very column object(s) of its operand {o}: a later '
                                      f'write or rename through either handle shows through the other', 'fresh column objects', 'shared'))
        # operands, the tables their column handles belong to, and the column handles of operand tables
        opgroup = set(st['operands'])
        for o in st['operands']:
            if o in views:
                opgroup.add(views[o][0])
            opgroup.update(h for h, (pt, pc) in views.items() if pt == o)
        now = {}
        for n, o in env.items():
            now[n] = obs(o)
            if n == res or n in allowed:
                if not (n in allowed and cls == 'rename'):
                    m = _truthful(o)
                    if m:
                        if not tainted and n not in bad:
                            fails.append(Fail(f'C03:{op}:truthful', f'{hist}: {m}', None, now[n]))
                        bad.add(n)
                continue
            if now[n] == snap[n]:
                continue
            # a forbidden change
            in_group = (n == tgt or (tgt in views and views[tgt][0] == n) or (n in views and views[n][0] == tgt))
            if exc is not None and issubclass(exc, AliasError):
                if _really_shared(env, tgt):
                    key = f'C01:{op}:alias-refusal-changed-state'
                else:
                    # the refusal itself is spurious (C15: stale registration + identity reuse, allocation
                    # dependent); one stable key for the partial write it causes
                    key = 'C01:spurious-alias-refusal:partial-write'
                what = f'{hist}  raised AliasError but {n} changed'
            elif exc is not None and in_group:
                if op.startswith('Table.'):
                    # a multi-column table assignment that fails half-way is atomic per column (C08's
                    # statement speaks of *the vector*); C01 demands nothing more of a failed table write
                    continue
                key = f'C01:{op}:failed-op-changed-target'
                what = f'{hist}  raised {exc.__name__} but {n} changed'
            elif cls in ('derive', 'read'):
                key = f'C01:{op}:' + ('operand-changed' if n in opgroup else 'bystander-changed')
                what = f'{hist}  returns a new object / is a read, but {n} changed'
            elif n in opgroup:
                key = f'C01:{op}:operand-changed'
                what = f'{hist}  writes through {tgt} only, but operand {n} changed'
            else:
                p = _path(graph, tgt, n)
                rel = 'unrelated' if not p else p[-1]     # the derivation through which the changed object is reached
                if rel.endswith('~nested-vector'):
                    # `>>` of unequal lengths returns a plain vector holding the caller's own vectors: every write
                    # form shows through it; one key per call site (Vector.__rshift__ / Table.__rshift__)
                    key = 'C01:leak:' + rel.split('-')[0] + '~nested-vector'
                else:
                    key = f'C01:leak:{cls}:{rel}'
                what = (f'{hist}  writes through {tgt} only' + (f' (and raised {exc.__name__})' if exc else '') +
                        f', but {n} changed (related by: {"+".join(p) if p else "nothing"})')
            fails.append(Fail(key, what, snap[n], now[n]))
        snap = now
        # bookkeeping for later steps
        if exc is None:
            if res is not None and op in VIEW_COL:
                views[res] = (tgt, VIEW_COL[op])
            if op in DETACH and tgt not in renamed:
                for h in [h for h, (pt, pc) in views.items() if pt == tgt and pc == DETACH[op]]:
                    del views[h]
                    _link(graph, h, tgt, 'detached-column')
            if cls == 'rename':
                renamed.add(tgt)
                if tgt in views:
                    renamed.add(views[tgt][0])
    return fails


def nontrivial(case):
    h = case['hist']
    if any(st['cls'] not in ('derive', 'read') for st in h):
        return (case['setup'], case.get('n', 3)) + tuple(st['op'] for st in h)
    return None


if __name__ == '__main__':
    main('C01', cases, evaluate,
         rule='exhaustive histories over three root vectors (len 3) + a table built from two of them by 5 construction '
              'paths; alphabet of 20 vector derivations, 28 table derivations (copy/slice/mask/select/column handle/>>/<</'
              'joins/sort/T/math/aggregate/window), 14 vector write forms, 22 table write forms (cell/row/column/region/'
              'live column handle/attribute and indexed-attribute assignment/rename, incl. refused variants), pure reads in '
              'last position; after every step every live object is compared with its pre-step snapshot under the frame rule '
              'of the statement (table name and column names included). Also: the same 1-step histories on roots of length 1 '
              'and 0 and core 2-step histories there; 18 more derivations that could return the operand itself (ascending / no-op sort, '
              '<< [], cast to the same kind, all-true mask, [:], [0:100], +0, unary +, dropna, select of all columns, >> {}, << of zero rows) '
              'and the dict form of >> with a vector under another name / a column of another or the same table; identity check '
              'after every derivation (result is not an operand and holds none of its column objects); directed family = every '
              'derivation then every core write or dict->> through the result or an operand, for root lengths 3, 1, 0. '
              'distinct = distinct (setup, root length, op-name sequence) containing a write',
         bound=lambda tier: ({'max_steps': 2, 'len1_setups': 5, 'len2_setups': 2, 'len2_vector_targets': 'v0,v2+derived', 'len2_reads': False, 'len2_alphabet': 'minus 13 near-duplicate and 18 new no-op-derivation ops (those: 1-step + directed family)',
                              'root_lengths': '3; 1 and 0: 1-step full alphabet on all setups + 2-step core alphabet on one setup',
                              'directed_family': 'lengths 3 (light ops), 1, 0 (all derivations) x core writes through result/operands'}
                             if tier == 'quick' else
                             {'max_steps': 3, 'len1_setups': 5, 'len2_setups': 4, 'len3_setups': 2,
                              'len3_alphabet': 'core subset (21 ops)',
                              'len2_new_noop_derivations': 'on 2 of the 4 setups',
                              'root_lengths': '3; 1 and 0: 1-step on all setups, 2-step full alphabet on 1 setup each',
                              'directed_family': 'lengths 3, 1, 0, all derivations'}),
         nontrivial=nontrivial)

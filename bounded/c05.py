"""C05 bounded stand-in: elementwise operations equal the Python scalar operation, shape preserved.

Scope (exhaustive inside it):
  * binary operators + - * / // % ** in the five operand forms (vector, scalar, list, reflected
    scalar, reflected list): all ordered pairs of the 13-value pool at length 1, empty operands,
    per-family sequences at lengths 2 and 3 (None at every subset of positions at length 3),
    every unequal length pair (must raise);
  * unary -, +, abs on every such vector;
  * Table op scalar / Table op Table, column by column, width / height mismatch must raise;
  * every public str/int/float/date attribute reachable through attribute broadcasting, called
    with a small argument table, lengths 0..3, None at every subset of positions;
  * dates + int (adds days), dates + timedelta;
  * equal-but-distinct elements in one column (0.0 / -0.0; 2, 2.0, True, 1, IntEnum member in float, int,
    complex and object vectors): every attribute of the vector kind reachable through broadcasting
    (public and dunder), element i compared type- and sign-exactly with the method applied to element i;
    the same vectors under the binary / unary operators;
  * length mismatch at length 0: an empty vector (untyped, typed, produced by an all-False mask or an
    empty slice) against every non-empty vector / list / tuple, and every non-empty vector against an
    empty list / tuple / vector, every operator and operand form; zero-row tables (untyped, sliced,
    masked) against tables / lists / vectors with rows and the reverse;
  * size thresholds and equal-but-distinct elements ("the same rule at every data size"): vectors of
    length 1001, 1024, 2000 (thorough: also 1000, 1023, 1025, 4097, 10001) built by repeating small pools
    that hold ==-equal values of different type / sign / identity (0.0 / -0.0, 1 / True / 1.0, 2 / 2.0,
    IntEnum member / int, equal strings built differently, date next to datetime, None in between): every
    attribute of the vector kind reachable through broadcasting, the binary operators in the five operand
    forms, the unary operators and dates + days, element i compared type- and sign-exactly with the Python
    computation on element i.
Oracle: a list comprehension over the Python scalars in the written operand order.  A case where
Python itself raises for some element pair is outside the quantifier and skipped.
"""
import inspect
import itertools
import math
import operator
from datetime import date, datetime, timedelta

from harness import *  # noqa

D = date(2020, 1, 31)
D2 = date(2021, 3, 1)
TD = timedelta(days=2)
POOL = [None, True, False, 0, 1, 2, -3, 2.5, 1j, 'a', 'bc', D, TD]
SCALARS = [x for x in POOL if x is not None]

# per-family element pools for the longer vectors (None added separately)
FAMILIES = {
    'bool': [True, False],
    'int': [2, -3, 0],
    'float': [2.5, 1],
    'complex': [1j, 2.5],
    'str': ['a', 'bc'],
    'date': [D, D2],
    'td': [TD, timedelta(days=-1)],
    'obj': [1, 'a'],
}

BINOPS = {'+': operator.add, '-': operator.sub, '*': operator.mul, '/': operator.truediv,
          '//': operator.floordiv, '%': operator.mod, '**': operator.pow}
DUNDER = {'+': 'add', '-': 'sub', '*': 'mul', '/': 'truediv', '//': 'floordiv', '%': 'mod', '**': 'pow'}
UNOPS = {'neg': operator.neg, 'pos': operator.pos, 'abs': operator.abs}
FORMS = ['vv', 'vs', 'vl', 'sv', 'lv']     # vector, scalar, list, reflected scalar, reflected list

_EV = {}
_hlit = lit


def _negzero(x):
    return x == 0 and math.copysign(1.0, x) < 0


def exact(a, b):
    """harness.same, and additionally 0.0 is not -0.0 (float, complex parts, inside tuples/lists)."""
    if type(a) is not type(b):
        return False
    if isinstance(a, float):
        if a != a or b != b:
            return a != a and b != b
        return a == b and math.copysign(1.0, a) == math.copysign(1.0, b)
    if isinstance(a, complex):
        return exact(a.real, b.real) and exact(a.imag, b.imag)
    if isinstance(a, (list, tuple)):
        return len(a) == len(b) and all(exact(x, y) for x, y in zip(a, b))
    return a == b


def lit(x):      # noqa: F811  (harness.lit + timedelta, which harness.NS cannot re-read from repr)
    if isinstance(x, timedelta):
        return f'timedelta(days={x.days}, seconds={x.seconds})'
    if isinstance(x, complex) and (_negzero(x.real) or _negzero(x.imag)):
        return f'complex({x.real!r}, {x.imag!r})'      # repr((-0+0j)) does not read back
    if isinstance(x, (list, tuple)):
        inner = ', '.join(lit(e) for e in x)
        if isinstance(x, tuple):
            return '(' + inner + (',' if len(x) == 1 else '') + ')'
        return '[' + inner + ']'
    if isinstance(x, dict):
        return '{' + ', '.join(f'{lit(k)}: {lit(v)}' for k, v in x.items()) + '}'
    return _hlit(x)



def cev(src):
    """ev with memoisation (pool values are immutable; lists are copied)."""
    if src not in _EV:
        _EV[src] = ev(src)
    x = _EV[src]
    if isinstance(x, list):
        return list(x)
    if isinstance(x, dict):
        return {k: (list(v) if isinstance(v, list) else v) for k, v in x.items()}
    return x


# --------------------------------------------------------------------------------------------
# enumeration
# --------------------------------------------------------------------------------------------

def family_vectors(tier):
    """Lists of length 2 and 3, one dtype family each."""
    out = {2: [], 3: []}
    for fam, vals in FAMILIES.items():
        two = vals[:2]
        # length 2: all sequences over (two values + None)
        for combo in itertools.product(two + [None], repeat=2):
            out[2].append(list(combo))
        # length 3: a fixed value pattern with None at every subset of positions
        base = [vals[0], vals[1], vals[-1]]
        for mask in itertools.product([False, True], repeat=3):
            out[3].append([None if m else b for b, m in zip(base, mask)])
        if tier != 'quick':
            for combo in itertools.product(two + [None], repeat=3):
                if list(combo) not in out[3]:
                    out[3].append(list(combo))
    for ln in out:
        seen, uniq = set(), []
        for v in out[ln]:
            k = lit(v)
            if k not in seen:
                seen.add(k)
                uniq.append(v)
        out[ln] = uniq
    return out


def method_table():
    """(kind name, attribute, args, kwargs) for every public attribute of str/int/float/date."""
    ARGS = {
        'str': {
            'center': [((5,), {}), ((4, '*'), {})], 'count': [(('a',), {})], 'encode': [((), {}), (('ascii',), {})],
            'endswith': [(('c',), {})], 'expandtabs': [((), {}), ((2,), {})], 'find': [(('b',), {})],
            'format': [((), {}), ((1,), {'x': 2})], 'format_map': [(({},), {})], 'index': [(('a',), {})],
            'join': [((['x', 'y'],), {})], 'ljust': [((4,), {})], 'lstrip': [((), {}), (('a',), {})],
            'partition': [(('b',), {})], 'removeprefix': [(('a',), {})], 'removesuffix': [(('c',), {})],
            'replace': [(('a', 'zz'), {}), (('b', ''), {'count': 1})] , 'rfind': [(('b',), {})], 'rindex': [(('b',), {})],
            'rjust': [((4,), {})], 'rpartition': [(('b',), {})], 'rsplit': [((), {}), (('b',), {})],
            'rstrip': [((), {}), (('c',), {})], 'split': [((), {}), (('b',), {}), ((None, 1), {})],
            'splitlines': [((), {}), ((True,), {})], 'startswith': [(('a',), {}), ((('a', 'b'),), {})],
            'strip': [((), {}), (('a',), {})], 'translate': [(({97: 'z'},), {})], 'zfill': [((4,), {})],
        },
        'int': {'to_bytes': [((), {}), ((2, 'little'), {}), ((2,), {'byteorder': 'big', 'signed': True})]},
        'float': {},
        'date': {'replace': [((), {'year': 2021}), ((2019, 2, 3), {})], 'strftime': [(('%Y-%j',), {})],
                 'isoformat': [((), {})], '__format__': []},
    }
    SAMPLES = {'str': ['a b', 'Abc\tq', ' bcb\n'], 'int': [5, -3, 0], 'float': [2.5, -4.0, 0.1], 'date': [D, D2, date(1999, 12, 31)]}
    KINDS = {'str': str, 'int': int, 'float': float, 'date': date}
    out = []
    for kname, kind in KINDS.items():
        for name in sorted(dir(kind)):
            if name.startswith('_'):
                continue
            static = inspect.getattr_static(kind, name)
            if type(static).__name__ in ('classmethod_descriptor', 'staticmethod', 'classmethod'):
                continue                      # not a per-element instance behaviour
            if hasattr(Vector, name):
                continue                      # Vector's own API shadows it (min/max/...): not broadcast
            attr = getattr(kind, name)
            if not callable(attr):
                out.append((kname, name, None, None, SAMPLES[kname]))
                continue
            arglist = ARGS[kname].get(name)
            if arglist is None:
                try:
                    getattr(SAMPLES[kname][0], name)()
                    arglist = [((), {})]
                except TypeError:
                    continue                  # needs arguments we cannot supply
                except Exception:
                    arglist = [((), {})]
            for a, kw in arglist:
                out.append((kname, name, a, kw, SAMPLES[kname]))
    return out


TABLE_COLS = {
    'int': [1, 2, -3], 'nint': [None, 2, 0], 'float': [2.5, 1.0, 0.5], 'str': ['a', 'bc', 'a'],
    'bool': [True, False, True], 'date': [D, D2, D],
}


# ---- equal-but-distinct elements in one column -------------------------------------------------
NZ = -0.0
EQ_BASES = {
    # vector kind -> multisets of ==-equal, hash-equal elements that are different objects/types/signs
    'float': [[0.0, NZ], [0.0, NZ, 0.0], [2, 2.0], [True, 1.0], [1, 1.0, True], [2.0, 2, 2.0],
              [0, 0.0, NZ], [False, NZ, 0.0]],
    'int': [[1, True], [0, False], [Color.RED, 1], [Color.RED, True, 1]],
    'complex': [[1, 1 + 0j], [True, 1.0, 1 + 0j], [0j, complex(NZ, 0.0), complex(0.0, NZ)], [0.0, NZ, 0j],
                [complex(NZ, NZ), 0, 0j]],
}
EQ_LONG = {
    'float': [[2, 2.0, True, 1, 1.0], [0, 0.0, NZ, False, 0.0, NZ]],
    'int': [[1, True, Color.RED, 1, True]],
    'complex': [[1, True, 1.0, 1 + 0j, 1], [0, 0.0, NZ, 0j, complex(NZ, 0.0), complex(0.0, NZ), complex(NZ, NZ)]],
}
EQ_ARGS = {'__divmod__': [((2,), {}), ((2.0,), {})], '__rdivmod__': [((3,), {})], '__round__': [((), {}), ((1,), {}), ((None,), {})],
           'to_bytes': [((), {}), ((2, 'little'), {})]}
EQ_KINDS = {'float': float, 'int': int, 'complex': complex}


def eq_vectors(kname, tier):
    out, seen = [], set()
    def add(v):
        k = lit(v)
        if k not in seen:
            seen.add(k)
            out.append(v)
    for base in EQ_BASES[kname]:
        for perm in itertools.permutations(base):
            add(list(perm))
            if tier != 'quick' or len(perm) <= 2:
                for i in range(len(perm) + 1):      # None at every gap
                    add(list(perm[:i]) + [None] + list(perm[i:]))
        add([None] + list(base) + [None])
        add(list(base[:1]) + [None] + list(base[1:]))
    for v in EQ_LONG[kname]:
        add(list(v))
        add(list(reversed(v)))
    return out


def eq_attributes(kname):
    """(name, is_property, args, kwargs): every attribute of the kind (public and dunder) that attribute
    broadcasting reaches, i.e. that Vector does not define itself."""
    kind = EQ_KINDS[kname]
    out = []
    for name in sorted(dir(kind)):
        if hasattr(Vector, name):
            continue
        static = inspect.getattr_static(kind, name)
        if type(static).__name__ in ('classmethod_descriptor', 'staticmethod', 'classmethod'):
            continue
        if not callable(getattr(kind, name)):
            out.append((name, True, None, None))
            continue
        for a, kw in EQ_ARGS.get(name, [((), {})]):
            out.append((name, False, a, kw))
    return out


EMPTY_MAKERS = ['untyped'] + ['typed:' + k for k in ['bool', 'int', 'float', 'complex', 'str', 'date']] + ['mask', 'slice', 'mask-int']
M0_SEQS = {'int': [2, -3, 1], 'float': [2.5, 1.5, 0.5], 'str': ['a', 'bc', 'a'], 'bool': [True, False, True],
           'nint': [None, 2, None], 'none': [None, None, None], 'date': [D, D2, D], 'td': [TD, TD, TD],
           'complex': [1j, 2.5, 1j], 'obj': [1, 'a', 2.5]}
M0_FORMS = ['ev', 've', 'el', 'le', 'lv-e', 'lv-l']


def cases_strengthen(tier):
    # ---- broadcast attributes on equal-but-distinct elements
    for kname in EQ_KINDS:
        attrs = eq_attributes(kname)
        for vals in eq_vectors(kname, tier):
            for dt in (None, kname, 'object'):
                for name, prop, args, kw in attrs:
                    yield {'k': 'meth', 'kind': kname, 'name': name, 'prop': prop, 'eq': 1, 'dtype': dt,
                           'args': lit(tuple(args)) if args is not None else '()', 'kw': lit(kw or {}), 'a': lit(vals)}
    # ---- the same vectors under the operators (results compared sign- and type-exactly)
    eq_scalars = [1, 1.0, -1.0, True, 0, 0.0, NZ, 2, 1j] if tier != 'quick' else [1.0, -1.0, NZ, 2, 1j]
    for kname in EQ_KINDS:
        vecs = eq_vectors(kname, 'quick')
        if tier == 'quick':         # the multisets as written and reversed, and with one None in front
            vecs = [list(b) for b in EQ_BASES[kname]] + [list(reversed(b)) for b in EQ_BASES[kname]] + [[None] + list(b) for b in EQ_BASES[kname][:3]]
        for vals in vecs:
            for op in UNOPS:
                yield {'k': 'un', 'op': op, 'a': lit(vals), 'eq': 1}
            for op in BINOPS:
                for sc in eq_scalars:
                    yield {'k': 'bin', 'op': op, 'form': 'vs', 'a': lit(vals), 'b': lit(sc), 'eq': 1}
                    yield {'k': 'bin', 'op': op, 'form': 'sv', 'a': lit(sc), 'b': lit(vals), 'eq': 1}
                for form in ('vv', 'vl', 'lv'):
                    yield {'k': 'bin', 'op': op, 'form': form, 'a': lit(vals), 'b': lit(list(reversed(vals))), 'eq': 1}
                    yield {'k': 'bin', 'op': op, 'form': form, 'a': lit(vals), 'b': lit([1] * len(vals)), 'eq': 1}
                    yield {'k': 'bin', 'op': op, 'form': form, 'a': lit([NZ] * len(vals)), 'b': lit(vals), 'eq': 1}
    # ---- length mismatch at length 0
    for op in BINOPS:
        for form in M0_FORMS:
            for fam, seq in M0_SEQS.items():
                for n in (1, 2, 3):
                    if form in ('ev', 've', 'lv-l'):
                        makers = EMPTY_MAKERS
                    elif form == 'el':
                        makers = [m + '|' + c for m in EMPTY_MAKERS for c in ('list', 'tuple')]
                    else:
                        makers = ['list', 'tuple']
                    for mk in makers:
                        yield {'k': 'mismatch0', 'op': op, 'form': form, 'e': mk, 'fam': fam, 'b': lit(seq[:n])}
    # ---- zero-row tables
    ztabs = [{'a': 'int'}, {'a': 'int', 'b': 'float'}, {'a': 'str', 'b': 'nint'}, {'a': 'date', 'b': 'int', 'c': 'bool'}]
    for op in BINOPS:
        for spec in ztabs:
            for zm in ('untyped', 'slice', 'mask'):
                for n in (1, 2, 3):
                    for other in ('table', 'table-r', 'list', 'tuple', 'vector', 'list-r', 'vector-r'):
                        yield {'k': 'tab-mismatch0', 'op': op, 'spec': lit(spec), 'zm': zm, 'n': n, 'other': other}
                    if zm == 'untyped':
                        for other in ('empty-list', 'empty-tuple', 'empty-vector', 'empty-int-vector', 'empty-list-r', 'empty-vector-r'):
                            yield {'k': 'tab-mismatch0', 'op': op, 'spec': lit(spec), 'zm': 'rows', 'n': n, 'other': other}


# ---- size thresholds x equal-but-distinct elements ----------------------------------------------
# pool sources are expressions (not lit() output) so that "equal strings built differently" can be written
BIG_POOLS = {
    'float': ['[0.0, -0.0]', '[-0.0, 0.0, 2.5, None]', '[2, 2.0, 1.5]', '[2.0, 2, None]', '[True, 1.0, 1]',
              '[1, 1.0, True, None, 0.5]', '[0, 0.0, -0.0, False, None]'],
    'int': ['[1, True]', '[True, 1, 0, False]', '[Color.RED, 1, True]', '[None, 1, True, 5]'],
    'complex': ['[1, (1+0j), True, 1.0]', '[0j, complex(-0.0, 0.0), 0.0, -0.0, None]'],
    'str': ["['ab', ''.join(['a', 'b']), 'Ab\\tq', None, 'a' + 'b']"],
    'date': ['[date(2020,1,31), date(2021,3,1), None, date(2020,1,31)]',
             '[datetime(2020,1,31,0,0), date(2020,1,31), None, datetime(2020,1,31,0,0)]'],
}
BIG_SIZES_QUICK = [1001, 1024, 2000]
BIG_SIZES_MORE = [1000, 1023, 1025, 4097, 10001]


def big_expand(pool, n, layout):
    """cycle: the pool repeated up to n elements; tail: pool[0] repeated, the rest of the pool only at the end
    (the distinguishable partner appears after every plausible threshold)."""
    if layout == 'tail':
        k = len(pool) - 1
        return [pool[0]] * (n - k) + list(pool[1:]) if n >= len(pool) else list(pool[:n])
    return [pool[i % len(pool)] for i in range(n)]


def big_attributes(kname):
    if kname in EQ_KINDS:
        return [(name, prop, args, kw) for name, prop, args, kw in eq_attributes(kname)]
    return [(name, args is None, args, kw) for kn, name, args, kw, _ in method_table() if kn == kname]


def cases_big(tier):
    sizes = BIG_SIZES_QUICK + (BIG_SIZES_MORE if tier != 'quick' else [])
    layouts = ['cycle'] + (['tail'] if tier != 'quick' else [])
    # ---- broadcast attributes
    for kname, pools in BIG_POOLS.items():
        attrs = big_attributes(kname)
        for pool in pools:
            for n in sizes:
                for layout in layouts:
                    for dt in ((None,) if tier == 'quick' or kname not in EQ_KINDS else (None, kname)):
                        for name, prop, args, kw in attrs:
                            yield {'k': 'big', 'sub': 'meth', 'kind': kname, 'name': name, 'prop': prop, 'dtype': dt,
                                   'args': lit(tuple(args)) if args is not None else '()', 'kw': lit(kw or {}),
                                   'pool': pool, 'n': n, 'layout': layout}
    # ---- operators
    scalars = [-1.0, 2] if tier == 'quick' else [1, 1.0, -1.0, True, 0.0, NZ, 2, 1j]
    for kname in ('float', 'int', 'complex'):
        for pool in BIG_POOLS[kname]:
            for n in sizes:
                for layout in layouts:
                    base = {'k': 'big', 'pool': pool, 'n': n, 'layout': layout, 'kind': kname}
                    for op in UNOPS:
                        yield dict(base, sub='un', op=op)
                    if (tier == 'quick' and n == 1024) or layout != 'cycle':
                        continue
                    first = tier != 'quick' or n == 1001      # quick: the full form table at the first size only
                    for op in BINOPS:
                        for sc in scalars:
                            if first or sc == -1.0:
                                yield dict(base, sub='bin', op=op, form='vs', other=lit(sc))
                            if first:
                                yield dict(base, sub='bin', op=op, form='sv', other=lit(sc))
                        for form in ('vv', 'vl', 'lv'):
                            if first or form == 'vv':
                                yield dict(base, sub='bin', op=op, form=form, other='reversed')
                            if tier != 'quick' or (first and form == 'vv'):
                                yield dict(base, sub='bin', op=op, form=form, other='ones')
    # ---- dates + days
    for pool in BIG_POOLS['date'][:1]:      # pure date vectors: Python defines no datetime + int
        for n in sizes:
            for days in ('3', '[1, None, -3, 40, 0]'):
                yield {'k': 'big', 'sub': 'days', 'pool': pool, 'n': n, 'layout': 'cycle', 'kind': 'date', 'days': days}


def cases(tier, seed):
    yield from cases_base(tier, seed)
    yield from cases_strengthen(tier)
    yield from cases_big(tier)


def cases_base(tier, seed):
    fv = family_vectors(tier)
    # ---- binary, length 1: every ordered pair of the pool, every form
    for op in BINOPS:
        for form in FORMS:
            for a in POOL:
                for b in POOL:
                    if form in ('vs',) and b is None:
                        continue
                    if form in ('sv',) and a is None:
                        continue
                    A = lit(a) if form == 'sv' else lit([a])
                    B = lit(b) if form == 'vs' else lit([b])
                    yield {'k': 'bin', 'op': op, 'form': form, 'a': A, 'b': B}
            # ---- length 0
            if form in ('vv', 'vl', 'lv'):
                yield {'k': 'bin', 'op': op, 'form': form, 'a': '[]', 'b': '[]'}
            else:
                for s in SCALARS:
                    yield {'k': 'bin', 'op': op, 'form': form,
                           'a': lit(s) if form == 'sv' else '[]', 'b': lit(s) if form == 'vs' else '[]'}
            # ---- lengths 2, 3
            for ln in (2, 3):
                if form in ('vv', 'vl', 'lv'):
                    for a in fv[ln]:
                        for b in fv[ln]:
                            yield {'k': 'bin', 'op': op, 'form': form, 'a': lit(a), 'b': lit(b)}
                else:
                    for v in fv[ln]:
                        for s in SCALARS:
                            yield {'k': 'bin', 'op': op, 'form': form,
                                   'a': lit(s) if form == 'sv' else lit(v), 'b': lit(s) if form == 'vs' else lit(v)}
            # ---- unequal lengths must raise
            if form in ('vv', 'vl', 'lv'):
                seqs = {'int': [2, -3, 1], 'float': [2.5, 1.5, 0.5], 'str': ['a', 'bc', 'a'], 'nint': [None, None, None],
                        'date': [D, D2, D], 'td': [TD, TD, TD]}
                for fa, fb in [('int', 'int'), ('int', 'float'), ('float', 'int'), ('str', 'str'), ('str', 'int'), ('int', 'str'),
                               ('nint', 'int'), ('int', 'nint'), ('date', 'td'), ('td', 'date'), ('date', 'int'), ('date', 'date')]:
                    for la in range(4):
                        for lb in range(4):
                            if la != lb:
                                yield {'k': 'mismatch', 'op': op, 'form': form, 'a': lit(seqs[fa][:la]), 'b': lit(seqs[fb][:lb])}
    # ---- typed empty vectors (reachable e.g. through an all-False mask)
    for op in BINOPS:
        for ka in EMPTY_KINDS:
            for kb in [None] + EMPTY_KINDS:
                yield {'k': 'empty', 'op': op, 'form': 'vv', 'ka': ka, 'kb': kb}
            yield {'k': 'empty', 'op': op, 'form': 'vl', 'ka': ka, 'kb': None}
            yield {'k': 'empty', 'op': op, 'form': 'lv', 'ka': ka, 'kb': None}
        for kb in EMPTY_KINDS:
            yield {'k': 'empty', 'op': op, 'form': 'vv', 'ka': None, 'kb': kb}
    for op in UNOPS:
        for ka in EMPTY_KINDS:
            yield {'k': 'empty', 'op': op, 'form': 'un', 'ka': ka, 'kb': None}
    # ---- unary
    for op in UNOPS:
        yield {'k': 'un', 'op': op, 'a': '[]'}
        for a in POOL:
            yield {'k': 'un', 'op': op, 'a': lit([a])}
        for ln in (2, 3):
            for a in fv[ln]:
                yield {'k': 'un', 'op': op, 'a': lit(a)}
    # ---- dates + days
    day_vals = [0, 1, -3, 40]
    for ln in range(4):
        base = [D, D2, date(2019, 12, 31)][:ln]
        for mask in itertools.product([False, True], repeat=ln):
            dv = [None if m else x for x, m in zip(base, mask)]
            for k in day_vals:
                yield {'k': 'days', 'form': 'vs', 'a': lit(dv), 'b': lit(k)}
            for mask2 in itertools.product([False, True], repeat=ln):
                kv = [None if m else x for x, m in zip([1, -3, 40], mask2)]
                yield {'k': 'days', 'form': 'vv', 'a': lit(dv), 'b': lit(kv)}
    for la in range(1, 4):
        for lb in range(0, 4):
            if la != lb:
                yield {'k': 'days-mismatch', 'a': lit([D, D2, D][:la]), 'b': lit([1, 2, 3][:lb])}
    # ---- tables
    names = list(TABLE_COLS)
    widths = [1, 2]
    for rows in (0, 1, 2, 3):
        tabs = []
        for w in widths:
            for combo in itertools.product(names, repeat=w):
                tabs.append({f'c{j}': TABLE_COLS[c][:rows] for j, c in enumerate(combo)})
        tabs.append({'x': TABLE_COLS['int'][:rows], 'y': TABLE_COLS['float'][:rows], 'z': TABLE_COLS['nint'][:rows]})
        for op in BINOPS:
            for t in tabs:
                for s in SCALARS:
                    yield {'k': 'tab', 'op': op, 'bt': 's', 'a': lit(t), 'b': lit(s)}
        sub = ['int', 'nint', 'float', 'str', 'date']
        small = [{f'c{j}': TABLE_COLS[c][:rows] for j, c in enumerate(combo)} for combo in itertools.product(sub, repeat=2)]
        small += [{'q': TABLE_COLS[c][:rows]} for c in sub]
        for op in BINOPS:
            for t in small:
                for u in small:
                    if len(t) == len(u):
                        yield {'k': 'tab', 'op': op, 'bt': 't', 'a': lit(t), 'b': lit(u)}
    for op in BINOPS:
        one = {'a': [1, 2]}
        two = {'a': [1, 2], 'b': [3, 4]}
        three = {'a': [1, 2], 'b': [3, 4], 'c': [5, 6]}
        for t, u in [(one, two), (two, one), (two, three), (three, two), (three, one)]:
            yield {'k': 'tab-mismatch', 'op': op, 'a': lit(t), 'b': lit(u), 'why': 'width'}
        for ra in range(1, 4):
            for rb in range(1, 4):
                if ra != rb:
                    yield {'k': 'tab-mismatch', 'op': op, 'a': lit({'a': [1, 2, 3][:ra], 'b': [2.5, 1.5, 0.5][:ra]}),
                           'b': lit({'a': [1, 2, 3][:rb], 'b': [2.5, 1.5, 0.5][:rb]}), 'why': 'height'}
    # ---- broadcast methods / properties
    for kname, name, args, kw, samples in method_table():
        for ln in range(4):
            for mask in itertools.product([False, True], repeat=ln):
                vals = [None if m else x for x, m in zip(samples, mask)]
                yield {'k': 'meth', 'kind': kname, 'name': name, 'prop': args is None,
                       'args': lit(tuple(args)) if args is not None else '()', 'kw': lit(kw or {}), 'a': lit(vals)}


# --------------------------------------------------------------------------------------------
# oracle + evaluation
# --------------------------------------------------------------------------------------------

class Skip(Exception):
    pass


def scalar_results(f, xs, ys):
    out = []
    for x, y in zip(xs, ys):
        if x is None or y is None:
            out.append(None)
            continue
        try:
            out.append(f(x, y))
        except Exception:
            raise Skip()
    return out


def describe(a, b):
    def fam(xs):
        ks = sorted({type(x).__name__ for x in xs if x is not None})
        return '+'.join(ks) or 'none'
    return fam(a), fam(b)


def owner(v, dunder):
    for c in type(v).__mro__:
        if dunder in c.__dict__:
            return c.__name__
    return type(v).__name__


def apply_form(op, form, a, b):
    """Build the operands and run the real operator.  a is always the written-left operand."""
    f = BINOPS[op]
    if form == 'vv':
        va, vb = Vector(a), Vector(b)
        return f(va, vb), [va, vb], va
    if form == 'vs':
        va = Vector(a)
        return f(va, b), [va], va
    if form == 'vl':
        va = Vector(a)
        return f(va, b), [va], va
    if form == 'sv':
        vb = Vector(b)
        return f(a, vb), [vb], vb
    vb = Vector(b)
    return f(a, vb), [vb], vb


FORMNAME = {'vv': 'vector', 'vs': 'scalar', 'vl': 'list', 'sv': 'scalar', 'lv': 'list'}


def site(op, form, a, b):
    """Stable call-site name: owning class + dunder actually dispatched + operand form."""
    refl = form in ('sv', 'lv')
    dunder = '__' + ('r' if refl else '') + DUNDER[op] + '__'
    try:
        v = Vector(b if refl else a)
        cls = owner(v, dunder)
    except Exception:
        cls = 'Vector'
    return f'{cls}.{dunder}.{FORMNAME[form]}'


def check_values(fails, prefix, got_list, want, what):
    if len(got_list) != len(want):
        fails.append(Fail(f'{prefix}:wrong-length', what, want, got_list))
        return
    for g, w in zip(got_list, want):
        if not exact(g, w):
            if g is not None and w is not None and type(g) is not type(w) and g == w:
                cls = 'wrong-element-type'
            elif same(g, w):
                cls = 'wrong-zero-sign'
            elif w is None:
                cls = 'none-not-propagated'
            elif g is None:
                cls = 'spurious-none'
            else:
                cls = 'wrong-value'
            fails.append(Fail(f'{prefix}:{cls}', what, want, got_list))
            return


def strip_none(form, a, b):
    """Same operands with every None-bearing position removed (to classify a raise)."""
    if form in ('vv', 'vl', 'lv'):
        keep = [i for i in range(min(len(a), len(b))) if a[i] is not None and b[i] is not None]
        return [a[i] for i in keep], [b[i] for i in keep]
    if form == 'vs':
        return [x for x in a if x is not None], b
    return a, [x for x in b if x is not None]


def eval_bin(case):
    op, form = case['op'], case['form']
    a, b = cev(case['a']), cev(case['b'])
    f = BINOPS[op]
    # Python-level dispatch that never reaches serif: str % anything is string formatting
    if form == 'sv' and isinstance(a, (str, bytes)) and op == '%':
        return []
    xs = a if isinstance(a, list) else [a] * len(b)
    ys = b if isinstance(b, list) else [b] * len(a)
    try:
        want = scalar_results(f, xs, ys)
    except Skip:
        return []
    fails = []
    s = site(op, form, a, b)
    expr = {'vv': f'Vector({case["a"]}) {op} Vector({case["b"]})', 'vs': f'Vector({case["a"]}) {op} {case["b"]}',
            'vl': f'Vector({case["a"]}) {op} {case["b"]}', 'sv': f'{case["a"]} {op} Vector({case["b"]})',
            'lv': f'{case["a"]} {op} Vector({case["b"]})'}[form]
    a0, b0 = lit(a), lit(b)
    try:
        r, vecs, main_v = apply_form(op, form, a, b)
        before = None
    except Exception as e:
        has_none = any(x is None for x in xs) or any(y is None for y in ys)
        cls = f'raised-{type(e).__name__}'
        if has_none and isinstance(e, TypeError):      # "None op x" is a TypeError in Python
            a2, b2 = strip_none(form, a, b)
            try:
                apply_form(op, form, a2, b2)
                cls = 'none-element-raises'
            except Exception:
                pass
        fails.append(Fail(f'C05:{s}:{cls}', f'{expr} raised {type(e).__name__}: {e}; Python defines every element pair', want, repr(e)))
        return fails
    what = f'{expr}'
    if not isinstance(r, Vector) or isinstance(r, Table):
        fails.append(Fail(f'C05:{s}:not-a-vector', what, want, r))
        return fails
    if any(r is v for v in vecs):
        fails.append(Fail(f'C05:{s}:not-new', what + ' returned an operand object', None, None))
    check_values(fails, f'C05:{s}', list(r), want, what + f' = {list(r)!r}; Python elementwise = {want!r}')
    # operands unchanged
    if lit(a) != a0 or lit(b) != b0:
        fails.append(Fail(f'C05:{s}:operand-mutated', what, (a0, b0), (lit(a), lit(b))))
    for v, src in zip(vecs, ([a, b] if form == 'vv' else [a] if form in ('vs', 'vl') else [b])):
        if not exact(list(v), list(src)):
            fails.append(Fail(f'C05:{s}:operand-mutated', what, src, list(v)))
    m = truthful(r)
    if m:
        fails.append(Fail(f'C03:{s}:truthful', what + ': ' + m, None, repr(r.schema())))
    return fails


def eval_mismatch(case):
    op, form = case['op'], case['form']
    a, b = cev(case['a']), cev(case['b'])
    s = site(op, form, a, b)
    try:
        r, _, _ = apply_form(op, form, a, b)
    except Exception:
        return []
    obs = list(r) if isinstance(r, Vector) else r
    return [Fail(f'C05:{s}:length-mismatch-accepted', f'operands of lengths {len(a)} and {len(b)} ({case["a"]} {op} {case["b"]}, form {form}) did not raise',
                 'an error', obs)]


def eval_un(case):
    op = case['op']
    a = cev(case['a'])
    f = UNOPS[op]
    try:
        want = [None if x is None else f(x) for x in a]
    except Exception:
        return []
    fails = []
    try:
        v = Vector(a)
        cls = owner(v, f'__{op}__')
        s = f'{cls}.__{op}__'
        r = f(v)
    except Exception as e:
        key = f'raised-{type(e).__name__}'
        if any(x is None for x in a) and isinstance(e, TypeError):
            try:
                f(Vector([x for x in a if x is not None]))
                key = 'none-element-raises'
            except Exception:
                pass
        return [Fail(f'C05:Vector.__{op}__:{key}', f'{op} Vector({case["a"]}) raised {type(e).__name__}: {e}', want, repr(e))]
    what = f'{op} Vector({case["a"]})'
    if not isinstance(r, Vector):
        return [Fail(f'C05:{s}:not-a-vector', what, want, r)]
    if r is v:
        fails.append(Fail(f'C05:{s}:not-new', what, None, None))
    check_values(fails, f'C05:{s}', list(r), want, what + f' = {list(r)!r}; Python elementwise = {want!r}')
    if not exact(list(v), a):
        fails.append(Fail(f'C05:{s}:operand-mutated', what, a, list(v)))
    m = truthful(r)
    if m:
        fails.append(Fail(f'C03:{s}:truthful', what + ': ' + m, None, repr(r.schema())))
    return fails


def eval_days(case):
    a, b = cev(case['a']), cev(case['b'])
    form = case['form']
    ys = b if isinstance(b, list) else [b] * len(a)
    want = [None if (x is None or y is None) else x + timedelta(days=y) for x, y in zip(a, ys)]
    fails = []
    s = f'_Date.__add__.days-{FORMNAME[form]}'
    # a vector with no date element is not a date vector; keep the dtype explicit there
    def mk():
        if all(x is None for x in a):
            return Vector(a, dtype=DataType(date, nullable=bool(a)))
        return Vector(a)
    what = f'Vector({case["a"]}) + ' + (f'Vector({case["b"]})' if form == 'vv' else case['b'])
    def mkdays():
        if all(y is None for y in b):     # nothing to infer an int kind from: say so explicitly
            return Vector(b, dtype=DataType(int, nullable=bool(b)))
        return Vector(b)
    try:
        v = mk()
        r = v + (mkdays() if form == 'vv' else b)
    except Exception as e:
        return [Fail(f'C05:{s}:raised-{type(e).__name__}', what + f' raised {e!r}', want, repr(e))]
    if not isinstance(r, Vector):
        return [Fail(f'C05:{s}:not-a-vector', what, want, r)]
    check_values(fails, f'C05:{s}', list(r), want, what + f' = {list(r)!r}, expected {want!r}')
    if not exact(list(v), a):
        fails.append(Fail(f'C05:{s}:operand-mutated', what, a, list(v)))
    m = truthful(r)
    if m:
        fails.append(Fail(f'C03:{s}:truthful', what + ': ' + m, None, repr(r.schema())))
    return fails


def eval_days_mismatch(case):
    a, b = cev(case['a']), cev(case['b'])
    try:
        r = Vector(a) + Vector(b, dtype=int)
    except Exception:
        return []
    return [Fail('C05:_Date.__add__.days-vector:length-mismatch-accepted', f'Vector({case["a"]}) + Vector({case["b"]}) did not raise', 'an error', list(r))]


def mk_table(d):
    return Table({k: list(v) for k, v in d.items()})


def eval_tab(case):
    op = case['op']
    f = BINOPS[op]
    a, b = cev(case['a']), cev(case['b'])
    cols = list(a.values())
    rows = len(cols[0])
    try:
        if case['bt'] == 's':
            want = [scalar_results(f, c, [b] * len(c)) for c in cols]
        else:
            want = [scalar_results(f, c, d) for c, d in zip(cols, b.values())]
    except Skip:
        return []
    s = f'Table.__{DUNDER[op]}__.' + ('scalar' if case['bt'] == 's' else 'table')
    what = f'Table({case["a"]}) {op} ' + (case['b'] if case['bt'] == 's' else f'Table({case["b"]})')
    fails = []
    try:
        t = mk_table(a)
        before = view(t)
        other = b if case['bt'] == 's' else mk_table(b)
        ob = view(other) if case['bt'] == 't' else None
        r = f(t, other)
    except Exception as e:
        cls = f'raised-{type(e).__name__}'
        others = [b] * len(cols) if case['bt'] == 's' else list(b.values())
        for c, o in zip(cols, others):
            sub = eval_bin({'k': 'bin', 'op': op, 'form': 'vs' if case['bt'] == 's' else 'vv', 'a': lit(c), 'b': lit(o)})
            sub = [x for x in sub if x['key'].startswith('C05:') and (':raised-' in x['key'] or ':none-element-raises' in x['key'])]
            if sub:      # the column operation alone fails the same way: same defect, same key
                sub[0]['what'] = what + ' (column-level) ' + sub[0]['what']
                return [sub[0]]
        if rows == 0:
            cls += '-zero-rows'
        return [Fail(f'C05:{s}:{cls}', what + f' raised {e!r}', want, repr(e))]
    if not isinstance(r, Table):
        # a zero-row result may legitimately have lost its 2-D shape only if nothing is observable
        fails.append(Fail(f'C05:{s}:not-a-table' + ('-zero-rows' if rows == 0 else ''), what, want, r))
        return fails
    if r is t:
        fails.append(Fail(f'C05:{s}:not-new', what, None, None))
    got = [list(c) for c in r.cols()]
    if len(got) != len(want):
        fails.append(Fail(f'C05:{s}:wrong-width', what, want, got))
    else:
        for j, (g, w) in enumerate(zip(got, want)):
            sub = []
            check_values(sub, f'C05:{s}', g, w, what + f': column {j} = {g!r}, column-by-column Python result = {w!r}')
            if sub:
                fails.extend(sub)
                break
    if view(t) != before:
        fails.append(Fail(f'C05:{s}:operand-mutated', what, before, view(t)))
    if ob is not None and view(other) != ob:
        fails.append(Fail(f'C05:{s}:operand-mutated', what, ob, view(other)))
    m = truthful(r)
    if m:
        fails.append(Fail(f'C03:{s}:truthful', what + ': ' + m, None, None))
    return fails


def eval_tab_mismatch(case):
    op = case['op']
    a, b = cev(case['a']), cev(case['b'])
    try:
        r = BINOPS[op](mk_table(a), mk_table(b))
    except Exception:
        return []
    return [Fail(f'C05:Table.__{DUNDER[op]}__.table:{case["why"]}-mismatch-accepted', f'Table({case["a"]}) {op} Table({case["b"]}) did not raise',
                 'an error', [list(c) for c in r.cols()] if isinstance(r, Vector) else r)]


KIND = {'str': str, 'int': int, 'float': float, 'date': date, 'bool': bool, 'complex': complex}
EMPTY_KINDS = ['bool', 'int', 'float', 'complex', 'str', 'date']


def eval_empty(case):
    op, form = case['op'], case['form']
    ka, kb = case['ka'], case['kb']
    mk = lambda k: Vector([], dtype=KIND[k]) if k else Vector([])
    src = lambda k: f'Vector([], dtype={k})' if k else 'Vector([])'
    s, what = f'Vector.{op}', f'{op} on empty {ka}/{kb}'
    try:
        if form == 'un':
            v = mk(ka)
            s = f'{owner(v, "__" + op + "__")}.__{op}__'
            what = f'{op} {src(ka)}'
            r = UNOPS[op](v)
        else:
            f = BINOPS[op]
            if form == 'lv':
                v = mk(ka)
                s = f'{owner(v, "__r" + DUNDER[op] + "__")}.__r{DUNDER[op]}__.list'
                what = f'[] {op} {src(ka)}'
                r = f([], v)
            else:
                v = mk(ka)
                s = f'{owner(v, "__" + DUNDER[op] + "__")}.__{DUNDER[op]}__.{FORMNAME[form]}'
                what = f'{src(ka)} {op} ' + (src(kb) if form == 'vv' else '[]')
                r = f(v, mk(kb) if form == 'vv' else [])
    except Exception as e:
        return [Fail(f'C05:{s}:raised-{type(e).__name__}-empty', what + f' raised {e!r}; both operands have length 0', [], repr(e))]
    if not isinstance(r, Vector) or len(r) != 0:
        return [Fail(f'C05:{s}:wrong-length', what, [], r)]
    m = truthful(r)
    if m:
        return [Fail(f'C03:{s}:truthful', what + ': ' + m, None, None)]
    return []


def eval_meth(case):
    name, kname = case['name'], case['kind']
    a = cev(case['a'])
    args, kw = cev(case['args']), cev(case['kw'])
    try:
        if case['prop']:
            want = [None if e is None else getattr(e, name) for e in a]
        else:
            want = [None if e is None else getattr(e, name)(*args, **kw) for e in a]
    except Exception:
        return []                       # Python itself raises for an element: outside the rule
    call = f'.{name}' + ('' if case['prop'] else f'(*{case["args"]}, **{case["kw"]})')
    what = f'Vector({case["a"]}){call}'
    s = f'{kname}.{name}'
    dt = case.get('dtype')
    if all(e is None for e in a):
        mk = lambda: Vector(a, dtype=DataType(KIND[kname], nullable=bool(a)))
        what = f'Vector({case["a"]}, dtype=DataType({kname}, nullable={bool(a)})){call}'
    elif dt:
        nullable = any(e is None for e in a)
        mk = lambda: Vector(a, dtype=DataType(object if dt == 'object' else KIND[dt], nullable=nullable))
        what = f'Vector({case["a"]}, dtype=DataType({dt}, nullable={nullable})){call}'
    else:
        mk = lambda: Vector(a)
    fails = []
    try:
        v = mk()
    except Exception as e:
        if dt:
            return []                   # constructing with an explicit dtype is C04's business
        return [Fail(f'C05:broadcast.{s}:raised-{type(e).__name__}', what + f' raised {e!r}', want, repr(e))]
    try:
        attr = getattr(v, name)
        r = attr if case['prop'] else attr(*args, **kw)
    except Exception as e:
        if dt == 'object' and isinstance(e, AttributeError):
            return []                   # an object vector does not broadcast attributes: not reachable
        cls = f'raised-{type(e).__name__}'
        if not a:
            cls += '-empty'
        elif all(e is None for e in a):
            cls += '-all-none'
        return [Fail(f'C05:broadcast.{s}:{cls}', what + f' raised {e!r}', want, repr(e))]
    if not isinstance(r, Vector) or isinstance(r, Table):
        sub = 'not-a-vector'
        if isinstance(r, Table):
            sub = 'became-table'
        return [Fail(f'C05:broadcast.{s}:{sub}', what + f' returned {type(r).__name__}', want, r)]
    check_values(fails, f'C05:broadcast.{s}', list(r), want, what + f' = {list(r)!r}, expected {want!r}')
    if not exact(list(v), a):
        fails.append(Fail(f'C05:broadcast.{s}:operand-mutated', what, a, list(v)))
    m = truthful(r)
    if m:
        fails.append(Fail(f'C03:broadcast.{s}:truthful', what + ': ' + m, None, repr(r.schema())))
    return fails


def make_empty(mk, b):
    """An empty vector and its source text; None when it cannot be produced (not C05's business)."""
    try:
        if mk == 'untyped':
            v, src = Vector([]), 'Vector([])'
        elif mk.startswith('typed:'):
            v, src = Vector([], dtype=KIND[mk[6:]]), f'Vector([], dtype={mk[6:]})'
        elif mk == 'mask':
            v, src = Vector(b)[[False] * len(b)], f'Vector({lit(b)})[{[False] * len(b)}]'
        elif mk == 'slice':
            v, src = Vector(b)[0:0], f'Vector({lit(b)})[0:0]'
        else:
            w = Vector([1, 2])
            v, src = w[w > 5], 'Vector([1, 2])[Vector([1, 2]) > 5]'
    except Exception:
        return None, None
    if not isinstance(v, Vector) or isinstance(v, Table) or len(v) != 0:
        return None, None
    return v, src


def eval_mismatch0(case):
    op, form = case['op'], case['form']
    f = BINOPS[op]
    b = cev(case['b'])
    mk, _, cont = case['e'].partition('|')
    try:
        if form in ('ev', 've', 'el', 'lv-l'):
            e, esrc = make_empty(mk, b)
            if e is None:
                return []
        if form in ('ev', 've', 'le', 'lv-e'):
            vb = Vector(b)
            if len(vb) != len(b):
                return []
    except Exception:
        return []
    bsrc = case['b']
    try:
        if form == 'ev':
            s, what, left, right = f'{owner(e, "__" + DUNDER[op] + "__")}.__{DUNDER[op]}__.vector', f'{esrc} {op} Vector({bsrc})', e, vb
        elif form == 've':
            s, what, left, right = f'{owner(vb, "__" + DUNDER[op] + "__")}.__{DUNDER[op]}__.vector', f'Vector({bsrc}) {op} {esrc}', vb, e
        elif form == 'el':
            seq = tuple(b) if cont == 'tuple' else list(b)
            s, what, left, right = f'{owner(e, "__" + DUNDER[op] + "__")}.__{DUNDER[op]}__.list', f'{esrc} {op} {lit(seq)}', e, seq
        elif form == 'le':
            seq = () if mk == 'tuple' else []
            s, what, left, right = f'{owner(vb, "__" + DUNDER[op] + "__")}.__{DUNDER[op]}__.list', f'Vector({bsrc}) {op} {lit(seq)}', vb, seq
        elif form == 'lv-e':
            seq = () if mk == 'tuple' else []
            s, what, left, right = f'{owner(vb, "__r" + DUNDER[op] + "__")}.__r{DUNDER[op]}__.list', f'{lit(seq)} {op} Vector({bsrc})', seq, vb
        else:
            s, what, left, right = f'{owner(e, "__r" + DUNDER[op] + "__")}.__r{DUNDER[op]}__.list', f'{bsrc} {op} {esrc}', list(b), e
        r = f(left, right)
    except Exception:
        return []
    obs = list(r) if isinstance(r, Vector) else r
    return [Fail(f'C05:{s}:length-mismatch-accepted', f'{what}: operands of lengths {len(left)} and {len(right)} did not raise',
                 'an error', obs)]


def eval_tab_mismatch0(case):
    op, zm, n, other = case['op'], case['zm'], case['n'], case['other']
    f = BINOPS[op]
    spec = cev(case['spec'])
    full = {name: list(M0_SEQS[fam][:n]) for name, fam in spec.items()}
    first = list(full.values())[0]
    try:
        t = mk_table(full)
        if zm == 'untyped':
            z, zsrc = mk_table({name: [] for name in spec}), f'Table({lit({name: [] for name in spec})})'
        elif zm == 'slice':
            z, zsrc = t[0:0], f'Table({lit(full)})[0:0]'
        elif zm == 'mask':
            z, zsrc = t[[False] * n], f'Table({lit(full)})[{[False] * n}]'
        else:
            z, zsrc = None, None
        if zm != 'rows' and (not isinstance(z, Table) or len(z) != 0 or len(z.cols()) != len(spec)):
            return []
        if not isinstance(t, Table) or len(t) != n:
            return []
    except Exception:
        return []
    tsrc = f'Table({lit(full)})'
    d, rd = f'__{DUNDER[op]}__', f'__r{DUNDER[op]}__'
    try:
        if other == 'table':
            s, what, left, right = f'Table.{d}.table', f'{zsrc} {op} {tsrc}', z, t
        elif other == 'table-r':
            s, what, left, right = f'Table.{d}.table', f'{tsrc} {op} {zsrc}', t, z
        elif other in ('list', 'tuple'):
            seq = tuple(first) if other == 'tuple' else list(first)
            s, what, left, right = f'Table.{d}.list', f'{zsrc} {op} {lit(seq)}', z, seq
        elif other == 'vector':
            s, what, left, right = f'Table.{d}.vector', f'{zsrc} {op} Vector({lit(first)})', z, Vector(first)
        elif other == 'list-r':
            s, what, left, right = f'Table.{rd}.list', f'{lit(first)} {op} {zsrc}', list(first), z
        elif other == 'vector-r':
            s, what, left, right = f'Vector.{d}.table', f'Vector({lit(first)}) {op} {zsrc}', Vector(first), z
        elif other in ('empty-list', 'empty-tuple'):
            seq = () if other == 'empty-tuple' else []
            s, what, left, right = f'Table.{d}.list', f'{tsrc} {op} {lit(seq)}', t, seq
        elif other == 'empty-vector':
            s, what, left, right = f'Table.{d}.vector', f'{tsrc} {op} Vector([])', t, Vector([])
        elif other == 'empty-int-vector':
            s, what, left, right = f'Table.{d}.vector', f'{tsrc} {op} Vector([], dtype=int)', t, Vector([], dtype=int)
        elif other == 'empty-list-r':
            s, what, left, right = f'Table.{rd}.list', f'[] {op} {tsrc}', [], t
        else:
            s, what, left, right = f'Vector.{d}.table', f'Vector([]) {op} {tsrc}', Vector([]), t
        r = f(left, right)
    except Exception:
        return []
    obs = [list(c) for c in r.cols()] if isinstance(r, Table) else (list(r) if isinstance(r, Vector) else r)
    return [Fail(f'C05:{s}:height-mismatch-accepted', f'{what}: a zero-row operand against {n} row(s) did not raise (column by column the lengths differ)',
                 'an error', obs)]


def big_mismatch(got, want):
    """(index, class) of the first element that is not exactly the Python result, or None."""
    if len(got) != len(want):
        return -1, 'wrong-length'
    for i, (g, w) in enumerate(zip(got, want)):
        if not exact(g, w):
            if g is not None and w is not None and type(g) is not type(w) and g == w:
                return i, 'wrong-element-type'
            if same(g, w):
                return i, 'wrong-zero-sign'
            if w is None:
                return i, 'none-not-propagated'
            if g is None:
                return i, 'spurious-none'
            return i, 'wrong-value'
    return None


def big_report(fails, prefix, what, a, got, want):
    bad = big_mismatch(got, want)
    if bad is None:
        return
    i, cls = bad
    if i < 0:
        fails.append(Fail(f'{prefix}:large:{cls}', f'{what}: length {len(got)}, expected {len(want)}', len(want), len(got)))
        return
    n_bad = sum(1 for g, w in zip(got, want) if not exact(g, w))
    fails.append(Fail(f'{prefix}:large:{cls}', f'{what}: {n_bad} of {len(want)} elements differ from the Python result, first at i={i}: '
                      f'element {a[i]!r} -> {got[i]!r}, Python gives {want[i]!r}', want[i], got[i]))


def eval_big(case):
    pool = cev(case['pool'])
    n, layout, sub = case['n'], case['layout'], case['sub']
    a = big_expand(pool, n, layout)
    vsrc = f'Vector({layout}({case["pool"]}, n={n}))'
    fails = []
    if sub == 'meth':
        name, kname, dt = case['name'], case['kind'], case.get('dtype')
        args, kw = cev(case['args']), cev(case['kw'])
        try:
            if case['prop']:
                want = [None if e is None else getattr(e, name) for e in a]
            else:
                want = [None if e is None else getattr(e, name)(*args, **kw) for e in a]
        except Exception:
            return []
        what = vsrc + f'.{name}' + ('' if case['prop'] else f'(*{case["args"]}, **{case["kw"]})')
        s = f'C05:broadcast.{kname}.{name}'
        try:
            if dt:
                v = Vector(a, dtype=DataType(KIND[dt], nullable=any(e is None for e in a)))
            else:
                v = Vector(a)
        except Exception as e:
            if dt:
                return []
            return [Fail(f'{s}:large:raised-{type(e).__name__}', what + f' raised {e!r}', None, repr(e))]
        try:
            attr = getattr(v, name)
            r = attr if case['prop'] else attr(*args, **kw)
        except Exception as e:
            return [Fail(f'{s}:large:raised-{type(e).__name__}', what + f' raised {e!r}', None, repr(e))]
        if not isinstance(r, Vector) or isinstance(r, Table):
            return [Fail(f'{s}:large:not-a-vector', what + f' returned {type(r).__name__}', 'Vector', type(r).__name__)]
        big_report(fails, s, what, a, list(r), want)
        if not exact(list(v), a):
            fails.append(Fail(f'{s}:large:operand-mutated', what, None, None))
        m = truthful(r)
        if m:
            fails.append(Fail(f'C03:broadcast.{kname}.{name}:truthful', what + ': ' + m[:300], None, repr(r.schema())))
        return fails
    if sub == 'un':
        op = case['op']
        f = UNOPS[op]
        try:
            want = [None if x is None else f(x) for x in a]
        except Exception:
            return []
        what = f'{op} {vsrc}'
        try:
            v = Vector(a)
            s = f'C05:{owner(v, "__" + op + "__")}.__{op}__'
            r = f(v)
        except Exception as e:
            return [Fail(f'C05:Vector.__{op}__:large:raised-{type(e).__name__}', what + f' raised {e!r}', None, repr(e))]
        if not isinstance(r, Vector):
            return [Fail(f'{s}:large:not-a-vector', what, 'Vector', type(r).__name__)]
        big_report(fails, s, what, a, list(r), want)
        if not exact(list(v), a):
            fails.append(Fail(f'{s}:large:operand-mutated', what, None, None))
        m = truthful(r)
        if m:
            fails.append(Fail(f'C03:{s[4:]}:truthful', what + ': ' + m[:300], None, repr(r.schema())))
        return fails
    if sub == 'bin':
        op, form, other = case['op'], case['form'], case['other']
        f = BINOPS[op]
        if other == 'reversed':
            o, osrc = list(reversed(a)), 'reversed(same)'
        elif other == 'ones':
            o, osrc = [1] * n, f'[1] * {n}'
        else:
            o, osrc = cev(other), other
        left, right = (o, a) if form in ('sv', 'lv') else (a, o)
        xs = left if isinstance(left, list) else [left] * n
        ys = right if isinstance(right, list) else [right] * n
        try:
            want = scalar_results(f, xs, ys)
        except Skip:
            return []
        s = 'C05:' + site(op, form, left, right)
        lsrc = osrc if form in ('sv', 'lv') else vsrc
        rsrc = vsrc if form in ('sv', 'lv') else (f'Vector({osrc})' if form == 'vv' else osrc)
        what = f'{lsrc} {op} {rsrc}'
        try:
            r, vecs, _ = apply_form(op, form, left, right)
        except Exception as e:
            return [Fail(f'{s}:large:raised-{type(e).__name__}', what + f' raised {e!r}; Python defines every element pair', None, repr(e))]
        if not isinstance(r, Vector) or isinstance(r, Table):
            return [Fail(f'{s}:large:not-a-vector', what, 'Vector', type(r).__name__)]
        big_report(fails, s, what, xs if form not in ('sv', 'lv') else ys, list(r), want)
        for v, src in zip(vecs, ([left, right] if form == 'vv' else [left] if form in ('vs', 'vl') else [right])):
            if not exact(list(v), list(src)):
                fails.append(Fail(f'{s}:large:operand-mutated', what, None, None))
        m = truthful(r)
        if m:
            fails.append(Fail(f'C03:{s[4:]}:truthful', what + ': ' + m[:300], None, repr(r.schema())))
        return fails
    # dates + days
    days = cev(case['days'])
    ys = [days[i % len(days)] for i in range(n)] if isinstance(days, list) else [days] * n
    want = [None if (x is None or y is None) else x + timedelta(days=y) for x, y in zip(a, ys)]
    isvec = isinstance(days, list)
    s = 'C05:_Date.__add__.days-' + ('vector' if isvec else 'scalar')
    what = f'{vsrc} + ' + (f'Vector(cycle({case["days"]}, n={n}))' if isvec else case['days'])
    try:
        v = Vector(a)
        r = v + (Vector(ys) if isvec else days)
    except Exception as e:
        return [Fail(f'{s}:large:raised-{type(e).__name__}', what + f' raised {e!r}', None, repr(e))]
    if not isinstance(r, Vector):
        return [Fail(f'{s}:large:not-a-vector', what, 'Vector', type(r).__name__)]
    big_report(fails, s, what, a, list(r), want)
    m = truthful(r)
    if m:
        fails.append(Fail(f'C03:{s[4:]}:truthful', what + ': ' + m[:300], None, repr(r.schema())))
    return fails


EVAL = {'bin': eval_bin, 'mismatch': eval_mismatch, 'un': eval_un, 'days': eval_days, 'days-mismatch': eval_days_mismatch,
        'tab': eval_tab, 'tab-mismatch': eval_tab_mismatch, 'meth': eval_meth, 'empty': eval_empty,
        'mismatch0': eval_mismatch0, 'tab-mismatch0': eval_tab_mismatch0,
        'big': eval_big}


def evaluate(case):
    try:
        return EVAL[case['k']](case)
    except Exception as e:      # never raise: an oracle crash is reported, not propagated
        return [Fail(f'C05:harness:{case["k"]}:oracle-crash', f'{type(e).__name__}: {e}', None, None)]


def nontrivial(case):
    k = case['k']
    if k == 'big':
        return (k, case['sub'], case['kind'], case.get('name') or case.get('op') or 'days', case.get('form'), case['pool'],
                case['n'] > 1000, case['layout'])
    if k in ('bin', 'mismatch'):
        a, b = cev(case['a']), cev(case['b'])
        xs = a if isinstance(a, list) else [a]
        ys = b if isinstance(b, list) else [b]
        fa, fb = describe(xs, ys)
        return (k, case['op'], case['form'], fa, fb, len(xs) if isinstance(a, list) else len(ys),
                any(x is None for x in xs + ys))
    if k == 'un':
        a = cev(case['a'])
        return (k, case['op'], describe(a, [])[0], len(a), any(x is None for x in a))
    if k == 'meth':
        if case.get('eq'):
            a = cev(case['a'])
            return (k, 'eq', case['kind'], case['name'], case['args'], case['kw'], case.get('dtype'), describe(a, [])[0])
        return (k, case['kind'], case['name'], case['args'], case['kw'])
    if k == 'mismatch0':
        return (k, case['op'], case['form'], case['e'], case['fam'])
    if k == 'tab-mismatch0':
        return (k, case['op'], case['zm'], case['other'], case['spec'])
    if k in ('tab', 'tab-mismatch'):
        a = cev(case['a'])
        return (k, case['op'], case.get('bt'), tuple(describe(c, [])[0] for c in a.values()), len(list(a.values())[0]))
    if k == 'empty':
        return (k, case['op'], case['form'], case['ka'], case['kb'])
    return (k, case.get('form'), len(cev(case['a'])))


if __name__ == '__main__':
    main('C05', cases, evaluate,
         rule='every operator (+,-,*,/,//,%,**, unary -,+,abs, reflected forms) x operand form (vector, scalar, list, reflected scalar, '
              'reflected list): all ordered pairs of a 13-value pool at length 1, empty operands, per-dtype-family sequences at lengths 2,3 '
              'with None at every subset of positions, every unequal length pair; Table op scalar / Table op Table up to 3x3; every public '
              'str/int/float/date attribute from dir(kind) through attribute broadcasting at lengths 0..3 with None at every subset; '
              'dates + int / timedelta; size thresholds x equal-but-distinct elements: vectors of length 1001, 1024, 2000 (thorough also 1000, 1023, 1025, 4097, 10001) '
              'repeating pools with 0.0/-0.0, 1/True/1.0, 2/2.0, IntEnum/int, equal strings, date/datetime, None: every broadcast attribute of the kind, the binary operators in '
              'five forms, unary operators, dates + days, element by element type- and sign-exactly.  Oracle: Python list comprehension over the scalars in written order; cases where Python raises are skipped. '
              'distinct = (operator, form, operand type families, length, has-None)',
         bound=lambda tier: {'pool': 13, 'max_len': 3, 'table': '3x3', 'large_sizes': BIG_SIZES_QUICK + ([] if tier == 'quick' else BIG_SIZES_MORE),
                             'large_pools': BIG_POOLS, 'len3': 'pattern+None-subsets' if tier == 'quick' else 'all sequences over family pools'},
         nontrivial=nontrivial)

"""C14 bounded stand-in: sort_by is a stable permutation with direction-independent None placement.

Table.sort_by: tables of <= 4 rows with 1-3 key columns over {None,0,1} and a 'pos' column that
holds each row's original position (so the permutation is observable and cells that drift apart
are caught), keys by name / by the table's own column vector / by an external vector, every
`reverse` (bool, and per-key list) and both na_last.
Vector.sort_by: every vector of length <= 4 over {None,0,1,2} (plus a {None,1,1.0,2} pool in which
equal keys of different type make stability observable), both `reverse`, both na_last.

Oracle (pairwise form of the statement): positions sorted with a comparator that goes through the
keys in order - None after every value (before, if not na_last) whatever the direction, otherwise
ascending / descending as requested - and falls back to the original position on a full tie.
Also: input not modified; sorting the sorted result again with the same arguments changes nothing.

Keys given as DERIVED or EXTERNAL vectors that carry a column's name (op 'derived'): `-t.age`,
`abs(t.age)` (both are named 'age'), an external Vector named 'age' with other values, and either of
two columns that share a name, passed as the vector object t.cols()[i]: the rows must be ordered by
the values of the vector actually passed, never by the stored column of that name.
Tie blocks (op 'table', keys without None): multi-key sorts in which a key that is not the last one
has ties, under every per-key direction combination, so that the later keys must break the ties
of a DESCENDING earlier key in their own direction.
Sort, write, sort again (op 'resort'): s = t.sort_by(spec); one or two cells of a KEY column of s are then
rewritten in place - through the column view (s.k0[i] = v, a view held since before the write, s['k0'][i] = v,
slice and mask writes of the view) or through table cell assignment (s[i, 'k0'] = v) - or the names of two key
columns are swapped through their views; s.sort_by(spec) with the very same spec must then be the contract's
sort of the NEW contents of s (and leave s alone), for one and two keys, every direction setting, both na_last,
keys by name and by s's own column vectors.  A result is only reported when a freshly built table with the new
contents is sorted correctly (i.e. when the outcome depends on the history).
Key named like an earlier column's sanitised twin (op 'twin'): the table holds, BEFORE each key column, a decoy
column whose name only sanitises to the key's exact name ('Score' / 'score', 'unit price' / 'unit_price',
'count' / 'count_', 'Key-3' / 'key_3') and holds other values; sort_by(<exact name>) must order the rows by the
column that bears exactly that name (one and two keys, every direction setting, both na_last).
"""
from relational_common import *  # noqa

PID = 'C14'
KEYVALS = [None, 0, 1]
VEC_POOLS = [('int', [None, 0, 1, 2]), ('mixed', [None, 1, 1.0, 2])]


def rev_settings(nk):
    out = [False, True]
    out += [list(c) for c in itertools.product([False, True], repeat=nk)]
    return out


def table_blocks(tier):
    """(nk, min_rows, max_rows, plan) - plan 'all': every (reverse, na_last, mode-rotating);
    'rot<k>': k settings per table, rotating with the table index."""
    if tier == 'quick':
        return [(1, 0, 4, 'all'), (2, 0, 3, 'all'), (2, 4, 4, 'rot1'), (3, 0, 1, 'all'), (3, 2, 2, 'rot6')]
    return [(1, 0, 4, 'all'), (2, 0, 4, 'all'), (3, 0, 2, 'all'), (3, 3, 3, 'rot4')]


MODES3 = ['name', 'col', 'ext']

# ---- keys that are derived / external vectors named like a column ----
DERIVED_VALS = [None, -2, -1, 1]
DERIVED_FORMS = ['neg', 'abs', 'ext-named', 'dup-second', 'dup-first']


def derived_cases(tier):
    settings = [(rev, nl, il) for rev in (False, True) for nl in (True, False) for il in (False, True)]
    full_hi = 3 if tier == 'quick' else 4
    top = 4 if tier == 'quick' else 5
    idx = 0
    for n in range(0, top + 1):
        for combo in itertools.product(DERIVED_VALS, repeat=n):
            for fi, form in enumerate(DERIVED_FORMS):
                idx += 1
                chosen = settings if n <= full_hi else [settings[(idx * 2 + j) % len(settings)] for j in range(2)]
                for rev, nl, il in chosen:
                    yield {'op': 'derived', 'form': form, 'vals': list(combo), 'reverse': rev, 'na_last': nl, 'in_list': il}


def tie_cases(tier):
    """Keys without None; only tables in which a key that is not the last one has a tie."""
    blocks = [(2, [0, 1, 2], 3, 3), (2, [0, 1], 4, 4), (3, [0, 1], 3, 3)] if tier == 'quick' else \
             [(2, [0, 1, 2], 3, 4), (2, [0, 1], 5, 5), (3, [0, 1], 3, 4)]
    for nk, vals, lo, hi in blocks:
        per_row = [list(k) for k in itertools.product(vals, repeat=nk)]
        revs = [list(c) for c in itertools.product([False, True], repeat=nk)]
        idx = 0
        for n in range(lo, hi + 1):
            for combo in itertools.product(per_row, repeat=n):
                rows = [list(r) for r in combo]
                if not any(len({r[j] for r in rows}) < n for j in range(nk - 1)):
                    continue
                idx += 1
                for ri, rev in enumerate(revs):
                    yield {'op': 'table', 'nk': nk, 'rows': rows, 'reverse': rev, 'na_last': bool((idx + ri) % 2),
                           'mode': MODES3[(idx + ri) % 3], 'block': 'ties'}


# ---- sort, write, sort again ----
RESORT_HOWS = ['view-cell', 'held-view-cell', 'getitem-cell', 'table-cell', 'view-slice', 'view-mask']
RESORT_POOL = {1: [None, 0, 1, 2], 2: [None, 0, 1]}


def _resort_writes(sorted_col, pool, i, r, how):
    """Cells (row in the SORTED table, new value) of one write; new values differ from the current ones."""
    n = len(sorted_col)

    def other(cur, r):
        rest = [x for x in pool if x != cur or (x is None) != (cur is None)]
        return rest[r % len(rest)]
    if how == 'view-slice':
        rows_ = [i, i + 1] if i + 1 < n else [i]
        return [[p, other(sorted_col[p], r + q)] for q, p in enumerate(rows_)]
    if how == 'view-mask':
        new = other(sorted_col[i], r)
        return [[p, new] for p in range(n) if p == i or (p == (i + 2) % n and sorted_col[p] != new)]
    return [[i, other(sorted_col[i], r)]]


def resort_cases(tier):
    for nk in (1, 2):
        pool = RESORT_POOL[nk]
        per_row = [list(k) for k in itertools.product(pool, repeat=nk)]
        settings = [(r, nl) for r in ([False, True] if nk == 1 else [list(c) for c in itertools.product([False, True], repeat=2)])
                    for nl in (True, False)]
        lo, hi = (1, 3) if nk == 1 else (2, 3)
        idx = 0
        for n in range(lo, hi + 1):
            for combo in itertools.product(per_row, repeat=n):
                rows = [list(r) for r in combo]
                keycols = [[r[j] for r in rows] for j in range(nk)]
                idx += 1
                if tier == 'quick':
                    chosen = settings if nk == 1 else [settings[idx % len(settings)]]
                else:
                    chosen = settings
                for si, (rev, nl) in enumerate(chosen):
                    order = sort_oracle(keycols, rev_list(rev, nk), nl)
                    if tier == 'quick':
                        picks = [(idx + si + q * 3) for q in range(2 if nk == 1 else 1)]
                    else:
                        picks = list(range(len(RESORT_HOWS) * 2))
                    for c in picks:
                        how = RESORT_HOWS[c % len(RESORT_HOWS)]
                        j = (c // 2) % nk
                        i = (c + idx) % n
                        sorted_col = [keycols[j][p] for p in order]
                        yield {'op': 'resort', 'nk': nk, 'rows': rows, 'reverse': rev, 'na_last': nl, 'mode': ['name', 'col'][(idx + c) % 2],
                               'how': how, 'col': j, 'writes': lit(_resort_writes(sorted_col, pool, i, c // len(RESORT_HOWS) + idx, how))}
                    if nk == 2 and (tier != 'quick' or idx % 4 == 0):
                        yield {'op': 'resort', 'nk': nk, 'rows': rows, 'reverse': rev, 'na_last': nl, 'mode': 'name',
                               'how': 'key-names-swapped-through-views', 'col': 0, 'writes': '[]'}


def _apply_write(s, case, held):
    name, how, writes = f"k{case['col']}", case['how'], ev(case['writes'])
    if how == 'key-names-swapped-through-views':
        s.k0.rename('tmp_name')
        s.k1.rename('k0')
        s.tmp_name.rename('k1')
    elif how == 'view-slice':
        lo = writes[0][0]
        getattr(s, name)[lo:lo + len(writes)] = [w[1] for w in writes]
    elif how == 'view-mask':
        hit = [w[0] for w in writes]
        getattr(s, name)[Vector([p in hit for p in range(len(s))])] = writes[0][1]
    else:
        for p, new in writes:
            if how == 'view-cell':
                getattr(s, name)[p] = new
            elif how == 'held-view-cell':
                held[p] = new
            elif how == 'getitem-cell':
                s[name][p] = new
            else:
                s[p, name] = new


def check_sorted_rows(site, descr, in_rows, names, res, keycols, revs, na_last, fails, classify=None):
    """`res` against the contract for a table whose rows are `in_rows` (cell 0 of a row = a unique row tag)."""
    m = truthful(res)
    if m:
        fails.append(Fail('C03:sort_by:truthful', f'{descr}: {m}', None, m))
    n = len(in_rows)
    try:
        got_rows = rows_of(res)
    except AssertionError as e:
        fails.append(Fail(f'{PID}:{site}:ragged-result', f'{descr}: {e}', None, str(e)))
        return
    if list(res.column_names()) != list(names):
        fails.append(Fail(f'{PID}:{site}:column-names', f'{descr}: columns changed', list(names), list(res.column_names())))
        return
    tags = [r[0] for r in in_rows]
    got_tags = [r[0] for r in got_rows]
    if sorted(map(repr, got_tags)) != sorted(map(repr, tags)):
        fails.append(Fail(fail_key(site, 'not-a-permutation', revs), f'{descr}: the pos column of the result is not a permutation of the input\'s',
                          tags, got_tags, f'{PID}:sort_by:gather'))
        return
    got_pos = [tags.index(g) for g in got_tags]
    if any(not same(tuple(r), tuple(in_rows[p])) for r, p in zip(got_rows, got_pos)):
        fails.append(Fail(fail_key(site, 'cells-not-kept-together', revs), f'{descr}: an output row is not the input row its pos cell came from',
                          [in_rows[p] for p in got_pos], got_rows, f'{PID}:sort_by:gather'))
        return
    want_pos = sort_oracle(keycols, revs, na_last)
    if got_pos != want_pos:
        cls = (classify(got_pos) if classify else None) or classify_sort(got_pos, want_pos, keycols, na_last)
        fails.append(Fail(fail_key(site, cls, revs), f'{descr}: row order (positions in the table that was sorted) differs from the contract',
                          want_pos, got_pos, f'{PID}:sort_by:loop[keys]:inv'))


def _resort_table(rows, nk, names=None):
    n = len(rows)
    names = names or [f'k{j}' for j in range(nk)]
    return Table([Vector([r[0] for r in rows], name='pos')] + [Vector([r[1 + j] for r in rows], dtype=DataType(int, True), name=names[j]) for j in range(nk)]
                 + [Vector([r[1 + nk] for r in rows], name='tag')])


def eval_resort(case):
    nk, rows, rev, na_last, mode, how = case['nk'], case['rows'], case['reverse'], case['na_last'], case['mode'], case['how']
    n = len(rows)
    revs = rev_list(rev, nk)
    site = f'Table.sort_by-after-write:{how}'
    descr = (f's = Table(pos, keys={rows}, tag).sort_by({mode} x{nk}, reverse={rev}, na_last={na_last}); key column k{case["col"]} of s written '
             f'({how}: {case["writes"]}); s.sort_by(same arguments)')

    def spec(table):
        by = [f'k{j}' for j in range(nk)] if mode == 'name' else [table.cols()[1 + j] for j in range(nk)]
        return by[0] if nk == 1 else by
    try:
        t = _resort_table([[i] + list(r) + [f'r{i}'] for i, r in enumerate(rows)], nk)
        s = t.sort_by(spec(t), reverse=rev, na_last=na_last)
        first = rows_of(s)
        order = sort_oracle([[r[j] for r in rows] for j in range(nk)], revs, na_last)
        if [r[0] for r in first] != order:
            return []                  # the first sort is wrong: a single-call defect (other blocks)
        held = s.cols()[1 + case['col']]
        _apply_write(s, case, held)
        # what s must hold now
        model = [list(r) for r in first]
        for p, new in ev(case['writes']):
            model[p][1 + case['col']] = new
        if how == 'key-names-swapped-through-views':
            if list(s.column_names()) != ['pos', 'k1', 'k0', 'tag']:
                return []              # the rename did not take: not this property's business
        elif list(s.column_names()) != ['pos'] + [f'k{j}' for j in range(nk)] + ['tag']:
            return []
        if not rows_same(rows_of(s), [tuple(r) for r in model]):
            return []                  # the write did not take: not this property's business
    except Exception:
        return []
    in_rows = rows_of(s)
    names = list(s.column_names())
    by_name = {nm: [r[c] for r in in_rows] for c, nm in enumerate(names)}
    keycols = [by_name[f'k{j}'] for j in range(nk)] if mode == 'name' else [[r[1 + j] for r in in_rows] for j in range(nk)]
    before = view(s)
    fails = []
    try:
        res = s.sort_by(spec(s), reverse=rev, na_last=na_last)
    except Exception as e:
        return [Fail(f'{PID}:{site}:raises:{type(e).__name__}', f'{descr}: raised {e!r}', None, repr(e), f'{PID}:sort_by:post')]
    mine = []
    check_sorted_rows(site, descr, in_rows, names, res, keycols, revs, na_last, mine,
                      classify=lambda got: 'not-sorted-again' if got == list(range(n)) else None)
    if view(s) != before:
        mine.append(Fail(f'{PID}:{site}:input-modified', f'{descr}: the second sort changed s', before, view(s)))
    if any(f['key'].startswith(PID) for f in mine):
        # history-dependent?  a freshly built table with the same contents and names
        try:
            order_names = [nm for nm in names if nm.startswith('k')]
            f = _resort_table([list(r) for r in in_rows], nk, order_names)
            by = [f'k{j}' for j in range(nk)] if mode == 'name' else [f.cols()[1 + j] for j in range(nk)]
            chk = []
            check_sorted_rows(site, descr, rows_of(f), names, f.sort_by(by[0] if nk == 1 else by, reverse=rev, na_last=na_last), keycols, revs, na_last, chk)
            if chk:
                return fails           # wrong on a fresh table as well: a single-call defect (other blocks)
        except Exception:
            return fails
    return fails + mine


# ---- key given by the exact name of a column that stands AFTER its sanitised twin ----
SORT_TWIN_PAIRS = [('Score', 'score'), ('unit price', 'unit_price'), ('count', 'count_'), ('Key-3', 'key_3')]
_TWIN_CYCLE = [None, 0, 1]


def twin_sort_cases(tier):
    for nk in (1, 2):
        per_row = [list(k) for k in itertools.product(KEYVALS, repeat=nk)]
        settings = [(r, nl) for r in rev_settings(nk) for nl in (True, False)]
        hi = (4 if nk == 1 else 3) if tier == 'quick' else (5 if nk == 1 else 3)
        idx = 0
        for n in range(1, hi + 1):
            for combo in itertools.product(per_row, repeat=n):
                idx += 1
                rows = [list(r) for r in combo]
                if tier == 'quick' and (nk == 2 or n == 4):
                    chosen = [settings[(idx * 2 + q) % len(settings)] for q in range(2)]
                else:
                    chosen = settings
                for si, (rev, nl) in enumerate(chosen):
                    yield {'op': 'twin', 'nk': nk, 'rows': rows, 'reverse': rev, 'na_last': nl, 'pair_off': (idx + si) % len(SORT_TWIN_PAIRS),
                           'layout': ['decoys-first', 'interleaved', 'one-twin-one-plain'][(idx + si) % 3] if nk == 2 else 'decoys-first'}


def eval_twin(case):
    nk, rows, rev, na_last = case['nk'], case['rows'], case['reverse'], case['na_last']
    n = len(rows)
    revs = rev_list(rev, nk)
    site = 'Table.sort_by:key-named-like-an-earlier-sanitised-twin'
    pairs = [SORT_TWIN_PAIRS[(case['pair_off'] + j) % len(SORT_TWIN_PAIRS)] for j in range(nk)]
    keycols = [[r[j] for r in rows] for j in range(nk)]
    decoys = [[_TWIN_CYCLE[(_TWIN_CYCLE.index(x) + 1 + j) % 3] for x in keycols[j]] for j in range(nk)]
    try:
        pos = Vector(list(range(n)), name='pos')
        tag = Vector([f'r{i}' for i in range(n)], name='tag')
        kv = [Vector(list(keycols[j]), dtype=DataType(int, True), name=pairs[j][1]) for j in range(nk)]
        dv = [Vector(list(decoys[j]), dtype=DataType(int, True), name=pairs[j][0]) for j in range(nk)]
        if case['layout'] == 'one-twin-one-plain':
            kv[1] = Vector(list(keycols[1]), dtype=DataType(int, True), name='g')
            cols = [pos, dv[0], kv[1], kv[0], tag]
            by = [pairs[0][1], 'g']
        elif case['layout'] == 'interleaved':
            cols = [pos, dv[0], kv[0], dv[1], kv[1], tag]
            by = [p[1] for p in pairs]
        else:
            cols = [pos] + dv + kv + [tag]
            by = [p[1] for p in pairs]
        t = Table(cols)
        names = [c._name for c in cols]
        if nk == 1 and isinstance(rev, bool):
            by = by[0]
        in_rows = rows_of(t)
    except Exception as e:
        return [Fail(f'{PID}:setup:raises:{type(e).__name__}', f'twin-name table {rows}: building the table raised {e!r}', None, repr(e))]
    descr = f'Table(columns {names}, key rows {rows}, decoy columns {decoys}).sort_by({by!r}, reverse={rev}, na_last={na_last})'
    before = view(t)
    fails = []
    try:
        res = t.sort_by(by, reverse=rev, na_last=na_last)
    except Exception as e:
        return [Fail(f'{PID}:{site}:raises:{type(e).__name__}', f'{descr}: raised {e!r}', None, repr(e), f'{PID}:sort_by:post')]
    decoy_keycols = [decoys[j] if not (case['layout'] == 'one-twin-one-plain' and j == 1) else keycols[j] for j in range(nk)]
    by_decoy = sort_oracle(decoy_keycols, revs, na_last)
    check_sorted_rows(site, descr, in_rows, names, res, keycols, revs, na_last, fails,
                      classify=lambda got: 'ordered-by-the-twin-column' if got == by_decoy else None)
    if view(t) != before:
        fails.append(Fail(f'{PID}:{site}:input-modified', f'{descr}: the table changed', before, view(t)))
    return fails


def cases(tier, seed):
    for nk, lo, hi, plan in table_blocks(tier):
        per_row = [list(k) for k in itertools.product(KEYVALS, repeat=nk)]
        settings = [(r, nl) for r in rev_settings(nk) for nl in (True, False)]
        idx = 0
        for n in range(lo, hi + 1):
            for combo in itertools.product(per_row, repeat=n):
                idx += 1
                rows = [list(r) for r in combo]
                if plan == 'all':
                    chosen = list(enumerate(settings))
                else:
                    k = int(plan[3:])
                    chosen = [((idx * k + j) % len(settings), settings[(idx * k + j) % len(settings)]) for j in range(k)]
                for si, (rev, nl) in chosen:
                    yield {'op': 'table', 'nk': nk, 'rows': rows, 'reverse': rev, 'na_last': nl,
                           'mode': MODES3[(idx + si) % 3]}
    for label, pool in VEC_POOLS:
        for n in range(0, 5):
            for combo in itertools.product(range(len(pool)), repeat=n):
                for rev in (False, True):
                    for nl in (True, False):
                        yield {'op': 'vector', 'pool': label, 'vals': lit([pool[i] for i in combo]), 'reverse': rev, 'na_last': nl}
    yield from derived_cases(tier)
    yield from tie_cases(tier)
    yield from resort_cases(tier)
    yield from twin_sort_cases(tier)
    yield from typed_key_cases(tier)


def rev_list(rev, nk):
    return [bool(rev)] * nk if isinstance(rev, bool) else [bool(x) for x in rev]


def fail_key(site, cls, revs):
    # the failure class plus whether any descending key is involved (never the concrete values)
    return f'{PID}:{site}:{cls}:' + ('reverse' if any(revs) else 'forward')


# Key columns of other kinds than int (the statement says "all tables"): the same key patterns with the
# two non-None key values mapped into bool, str, float and date columns (class suffix ':<kind>-keys').
import datetime as _dt
KEY_KINDS = {'bool': {0: False, 1: True}, 'str': {0: 'a', 1: 'b'}, 'float': {0: 0.5, 1: 1.5},
             'date': {0: _dt.date(2020, 1, 1), 1: _dt.date(2021, 6, 30)}}


def typed_key_cases(tier):
    kinds = list(KEY_KINDS)
    for nk, top in ((1, 3 if tier == 'quick' else 4), (2, 2 if tier == 'quick' else 3)):
        per_row = [list(k) for k in itertools.product(KEYVALS, repeat=nk)]
        settings = [(r, nl) for r in rev_settings(nk) for nl in (True, False)]
        idx = 0
        for n in range(1, top + 1):
            for combo in itertools.product(per_row, repeat=n):
                idx += 1
                for ki, kind in enumerate(kinds):
                    if nk == 2 and (idx + ki) % 2:
                        continue
                    for si, (rev, nl) in enumerate(settings):
                        if nk == 2 and (idx + si) % 3:
                            continue
                        yield {'op': 'table', 'nk': nk, 'rows': [list(r) for r in combo], 'reverse': rev, 'na_last': nl,
                               'mode': MODES3[(idx + si) % 3], 'kind': kind}


def eval_table(case):
    nk, rows, rev, na_last, mode = case['nk'], case['rows'], case['reverse'], case['na_last'], case['mode']
    if case.get('kind'):
        km = KEY_KINDS[case['kind']]
        rows = [[None if x is None else km[x] for x in r] for r in rows]
    n = len(rows)
    descr = f'Table(keys={rows}, pos=0..{n - 1}).sort_by({mode} x{nk}, reverse={rev}, na_last={na_last})'
    keycols = [[r[j] for r in rows] for j in range(nk)]
    revs = rev_list(rev, nk)
    site = 'Table.sort_by'
    try:
        kvecs = [Vector(list(keycols[j]), name=f'k{j}') for j in range(nk)]
        pos = Vector(list(range(n)), name='pos')
        tag = Vector([f'r{i}' for i in range(n)], name='tag')
        if mode == 'ext':
            t = Table([pos, tag])
            by = kvecs
        else:
            t = Table([pos] + kvecs + [tag])
            by = [f'k{j}' for j in range(nk)] if mode == 'name' else [t.cols()[1 + j] for j in range(nk)]
        if nk == 1 and isinstance(rev, bool):
            by = by[0]                      # a single key passed bare
        elif mode == 'col' and nk > 1 and na_last:
            by = tuple(by)                  # documented: a tuple of keys is accepted as well
        in_rows = rows_of(t)
    except Exception as e:
        return [Fail(f'{PID}:setup:raises:{type(e).__name__}', f'{descr}: building the table raised {e!r}', None, repr(e))]
    before = (view(t), tuple(view(b) for b in (by if isinstance(by, (list, tuple)) else [by]) if isinstance(b, Vector)))
    fails = []
    try:
        res = t.sort_by(by, reverse=rev, na_last=na_last)
    except Exception as e:
        return [Fail(f'{PID}:{site}:raises:{type(e).__name__}', f'{descr}: raised {e!r}', None, repr(e), f'{PID}:sort_by:post')]
    m = truthful(res)
    if m:
        fails.append(Fail('C03:sort_by:truthful', f'{descr}: {m}', None, m))
    want_pos = sort_oracle(keycols, revs, na_last)
    try:
        got_rows = rows_of(res)
    except AssertionError as e:
        return fails + [Fail(f'{PID}:{site}:ragged-result', f'{descr}: {e}', None, str(e))]
    names = list(res.column_names())
    if names != list(t.column_names()):
        fails.append(Fail(f'{PID}:{site}:column-names', f'{descr}: columns changed', list(t.column_names()), names))
        return fails
    got_pos = [r[0] for r in got_rows]
    if sorted(map(repr, got_pos)) != sorted(map(repr, range(n))):
        fails.append(Fail(fail_key(site, 'not-a-permutation', revs), f'{descr}: the pos column of the result is not a permutation of 0..{n - 1}',
                          list(range(n)), got_pos, f'{PID}:sort_by:gather'))
        return fails
    if any(not same(tuple(r), tuple(in_rows[r[0]])) for r in got_rows):
        fails.append(Fail(fail_key(site, 'cells-not-kept-together', revs), f'{descr}: an output row is not the input row its pos cell came from',
                          [in_rows[p] for p in got_pos], got_rows, f'{PID}:sort_by:gather'))
        return fails
    if got_pos != want_pos:
        cls = classify_sort(got_pos, want_pos, keycols, na_last)
        fails.append(Fail(fail_key(site, cls, revs), f'{descr}: row order (original positions) differs from the contract', want_pos, got_pos,
                          f'{PID}:sort_by:loop[keys]:inv'))
    after = (view(t), tuple(view(b) for b in (by if isinstance(by, (list, tuple)) else [by]) if isinstance(b, Vector)))
    if after != before:
        fails.append(Fail(f'{PID}:{site}:input-modified', f'{descr}: the table or a key vector changed', before, after))
    # idempotence: sort the result again by the same keys (taken from the result itself)
    try:
        if mode == 'ext':
            by2 = [Vector([keycols[j][p] for p in got_pos], name=f'k{j}') for j in range(nk)]
        elif mode == 'name':
            by2 = [f'k{j}' for j in range(nk)]
        else:
            by2 = [res.cols()[1 + j] for j in range(nk)]
        if nk == 1 and isinstance(rev, bool):
            by2 = by2[0]
        again = res.sort_by(by2, reverse=rev, na_last=na_last)
        if not rows_same(rows_of(again), got_rows):
            fails.append(Fail(fail_key(site, 'not-idempotent', revs), f'{descr}: sorting the sorted table again changed it', got_rows,
                              rows_of(again), f'{PID}:lemma:idempotent'))
    except Exception as e:
        fails.append(Fail(f'{PID}:{site}:resort-raises:{type(e).__name__}', f'{descr}: sorting the sorted table again raised {e!r}', got_rows, repr(e)))
    return fails


def eval_vector(case):
    vals, rev, na_last = ev(case['vals']), case['reverse'], case['na_last']
    descr = f"Vector({case['vals']}).sort_by(reverse={rev}, na_last={na_last})"
    site = 'Vector.sort_by'
    revs = [bool(rev)]
    try:
        v = Vector(list(vals), name='x')
        stored = list(v._underlying)          # what the vector actually holds (after any coercion)
    except Exception as e:
        return [Fail(f'{PID}:setup:raises:{type(e).__name__}', f'{descr}: building the vector raised {e!r}', None, repr(e))]
    before = view(v)
    fails = []
    try:
        res = v.sort_by(reverse=rev, na_last=na_last)
    except Exception as e:
        return [Fail(f'{PID}:{site}:raises:{type(e).__name__}', f'{descr}: raised {e!r}', None, repr(e), f'{PID}:Vector.sort_by:post')]
    m = truthful(res)
    if m:
        fails.append(Fail('C03:Vector.sort_by:truthful', f'{descr}: {m}', None, m))
    got = list(res._underlying)
    want_pos = sort_oracle([stored], revs, na_last)
    want = [stored[p] for p in want_pos]
    if not same(got, want):
        if Counter(rkey(got)) != Counter(rkey(want)):      # rkey: per-element (type name, repr)
            cls = 'not-a-permutation'
        elif [x is None for x in got] != [x is None for x in want]:
            cls = 'none-placement'
        elif got == want:
            cls = 'stability'                 # equal keys of different type swapped
        else:
            cls = 'order'
        fails.append(Fail(fail_key(site, cls, revs), f'{descr} = {got!r}, contract gives {want!r}', want, got,
                          f'{PID}:Vector.sort_by:key:none-placement' if cls == 'none-placement' else f'{PID}:Vector.sort_by:post'))
    if view(v) != before:
        fails.append(Fail(f'{PID}:{site}:input-modified', f'{descr}: the vector changed', before, view(v)))
    try:
        again = list(res.sort_by(reverse=rev, na_last=na_last)._underlying)
        if not same(again, got):
            fails.append(Fail(fail_key(site, 'not-idempotent', revs), f'{descr}: sorting the sorted vector again gives {again!r} instead of {got!r}',
                              got, again, f'{PID}:lemma:idempotent'))
    except Exception as e:
        fails.append(Fail(f'{PID}:{site}:resort-raises:{type(e).__name__}', f'{descr}: sorting the sorted vector again raised {e!r}', got, repr(e)))
    return fails


def eval_derived(case):
    form, vals, rev, na_last, in_list = case['form'], case['vals'], case['reverse'], case['na_last'], case['in_list']
    n = len(vals)
    other = list(reversed(vals))            # the stored column of the same name holds OTHER values
    src = {'neg': '-t.age', 'abs': 'abs(t.age)', 'ext-named': f"Vector({other}, name='age')",
           'dup-second': 't.cols()[2] (second of two columns named x)', 'dup-first': 't.cols()[1] (first of two columns named x)'}[form]
    site = 'Table.sort_by:duplicate-name-column-key' if form.startswith('dup') else 'Table.sort_by:named-vector-key'
    revs = [False, bool(rev)] if in_list else [bool(rev)]
    try:
        pos = Vector(list(range(n)), name='pos')
        g = Vector([0] * n, name='g')
        tag = Vector([f'r{i}' for i in range(n)], name='tag')
        if form.startswith('dup'):
            t = Table([pos, Vector(other, name='x'), Vector(list(vals), name='x'), g, tag])
            key_vec = t.cols()[2] if form == 'dup-second' else t.cols()[1]
            want_key = list(vals) if form == 'dup-second' else other
            shown = f"Table(pos=0..{n - 1}, x={other}, x={vals}, g, tag)"
        else:
            t = Table([pos, Vector(list(vals), name='age'), g, tag])
            shown = f"Table(pos=0..{n - 1}, age={vals}, g, tag)"
            if form == 'neg':
                key_vec = -t.age
                want_key = [None if v is None else -v for v in vals]
            elif form == 'abs':
                key_vec = abs(t.age)
                want_key = [None if v is None else abs(v) for v in vals]
            else:
                key_vec = Vector(other, name='age')
                want_key = other
        in_rows = rows_of(t)
        keyvals = list(key_vec._underlying)
    except Exception as e:
        # building the operands (table, negation, abs) is not the operation under test
        return [] if n == 0 else [Fail(f'{PID}:setup:raises:{type(e).__name__}', f'derived key {src} over {vals}: building the operands raised {e!r}', None, repr(e))]
    if keyvals != want_key:
        return []           # the derived vector itself is not what plain Python computes: not C14's subject
    by = ['g', key_vec] if in_list else key_vec
    rev_arg = list(revs) if in_list else rev
    descr = f'{shown}.sort_by({"[g, " + src + "]" if in_list else src}, reverse={rev_arg}, na_last={na_last}); the key vector is named {key_vec._name!r} and holds {keyvals}'
    before = (view(t), view(key_vec))
    fails = []
    try:
        res = t.sort_by(by, reverse=rev_arg, na_last=na_last)
    except Exception as e:
        return [Fail(f'{PID}:{site}:raises:{type(e).__name__}', f'{descr}: raised {e!r}', None, repr(e), f'{PID}:sort_by:post')]
    m = truthful(res)
    if m:
        fails.append(Fail('C03:sort_by:truthful', f'{descr}: {m}', None, m))
    keycols = [[0] * n, keyvals] if in_list else [keyvals]
    want_pos = sort_oracle(keycols, revs, na_last)
    try:
        got_rows = rows_of(res)
    except AssertionError as e:
        return fails + [Fail(f'{PID}:{site}:ragged-result', f'{descr}: {e}', None, str(e))]
    if list(res.column_names()) != list(t.column_names()):
        return fails + [Fail(f'{PID}:{site}:column-names', f'{descr}: columns changed', list(t.column_names()), list(res.column_names()))]
    got_pos = [r[0] for r in got_rows]
    if sorted(map(repr, got_pos)) != sorted(map(repr, range(n))):
        return fails + [Fail(fail_key(site, 'not-a-permutation', revs), f'{descr}: the pos column of the result is not a permutation of 0..{n - 1}',
                             list(range(n)), got_pos, f'{PID}:sort_by:gather')]
    if any(not same(tuple(r), tuple(in_rows[r[0]])) for r in got_rows):
        return fails + [Fail(fail_key(site, 'cells-not-kept-together', revs), f'{descr}: an output row is not the input row its pos cell came from',
                             [in_rows[p] for p in got_pos], got_rows, f'{PID}:sort_by:gather')]
    if got_pos != want_pos:
        by_stored = sort_oracle(([[0] * n] if in_list else []) + [list(vals) if not form.startswith('dup') else (other if form == 'dup-second' else list(vals))],
                                revs, na_last)
        cls = 'ordered-by-the-stored-column-of-that-name' if got_pos == by_stored else classify_sort(got_pos, want_pos, keycols, na_last)
        fails.append(Fail(fail_key(site, cls, revs), f'{descr}: row order (original positions) is not the order of the key vector that was passed',
                          want_pos, got_pos, f'{PID}:sort_by:loop[keys]:inv'))
    if (view(t), view(key_vec)) != before:
        fails.append(Fail(f'{PID}:{site}:input-modified', f'{descr}: the table or the key vector changed', before, (view(t), view(key_vec))))
    return fails


def evaluate(case):
    if case['op'] == 'derived':
        return eval_derived(case)
    if case['op'] == 'resort':
        return eval_resort(case)
    if case['op'] == 'twin':
        return eval_twin(case)
    return eval_table(case) if case['op'] == 'table' else eval_vector(case)


def nontrivial(case):
    if case['op'] == 'resort':
        return ('resort', case['nk'], case['mode'], case['how'], len(case['rows']), repr(case['reverse']), case['na_last'], case['col'])
    if case['op'] == 'twin':
        return ('twin', case['nk'], case['layout'], case['pair_off'], len(case['rows']), repr(case['reverse']), case['na_last'])
    if case['op'] == 'vector':
        vals = ev(case['vals'])
        if len(vals) < 2:
            return None
        return ('v', case['pool'], len(vals), sum(x is None for x in vals), len({repr(x) for x in vals}) < len(vals),
                case['reverse'], case['na_last'])
    if case['op'] == 'derived':
        vals = case['vals']
        if len(vals) < 2:
            return None
        return ('d', case['form'], len(vals), sum(x is None for x in vals), len(set(vals)) < len(vals), vals != vals[::-1],
                case['reverse'], case['na_last'], case['in_list'])
    rows = [tuple(r) for r in case['rows']]
    if case.get('kind'):
        rows = [tuple((case['kind'], x) for x in r) for r in rows]
    if len(rows) < 2:
        return None
    return ('t', case['nk'], case['mode'], len(rows), repr(case['reverse']), case['na_last'],
            len(set(rows)) < len(rows), any(None in r for r in rows),
            any(a[0] == b[0] and a != b for a in rows for b in rows)) + (('ties',) if case.get('block') == 'ties' else ())


def bound(tier):
    return {'table_blocks': [{'key_columns': b[0], 'rows': [b[1], b[2]], 'settings': b[3]} for b in table_blocks(tier)],
            'key_values': '{None,0,1}', 'reverse': 'False, True and every per-key list', 'na_last': [True, False],
            'key_modes': MODES3, 'vector_pools': [[repr(x) for x in p] for _, p in VEC_POOLS], 'vector_max_len': 4,
            'derived_key_forms': DERIVED_FORMS, 'derived_key_values': repr(DERIVED_VALS),
            'derived_rows': 'all settings up to %d rows, 2 rotating settings up to %d rows' % ((3, 4) if tier == 'quick' else (4, 5)),
            'resort_writes': RESORT_HOWS + ['key-names-swapped-through-views'], 'resort_tables': '1 key <=3 rows over {None,0,1,2}; 2 keys 2..3 rows over {None,0,1}',
            'twin_name_pairs': SORT_TWIN_PAIRS, 'twin_tables': '1 key <=%d rows, 2 keys <=3 rows over {None,0,1}' % (4 if tier == 'quick' else 5),
            'tie_blocks(nk, values, min_rows, max_rows)': [(2, [0, 1, 2], 3, 3), (2, [0, 1], 4, 4), (3, [0, 1], 3, 3)] if tier == 'quick'
            else [(2, [0, 1, 2], 3, 4), (2, [0, 1], 5, 5), (3, [0, 1], 3, 4)]}


if __name__ == '__main__':
    main(PID, cases, evaluate,
         rule='every table of each block (key rows over {None,0,1} + position and tag columns), settings in full or rotating with the '
              'table index as stated, key mode rotating; every vector of length <=4 over the pools x reverse x na_last; compared with '
              'the pairwise stable-lexicographic contract; permutation / cells together / input unchanged / idempotent; plus keys passed as '
              'derived / external vectors that carry a column name (-t.age, abs(t.age), external Vector named like a column, either of two '
              'same-named columns as vector object) ordered by the passed vector, and None-free multi-key tables with ties in a non-last '
              'key under every direction list; plus sort / write a key cell of the result (views, slice, mask, table cell assignment, key names swapped) / '
              'sort again by the same spec vs the contract on the new contents; plus keys given by the exact name of a column standing after a column '
              'whose name only sanitises to it. distinct = '
              'distinct (kind, nk, mode, rows, reverse, na_last, duplicate rows, None key, first-key tie) signatures',
         bound=bound, nontrivial=nontrivial)

"""C14 bounded stand-in: sort_by is a stable permutation with direction-independent None placement.

Table.sort_by: tables of <= 4 rows with 1-3 key columns over {None,0,1} and a 'pos' column that
holds each row's original position (so the permutation is observable and cells that drift apart
are caught), keys by name / by the table's own column vector / by an external vector, every
`reverse` (bool, and per-key list) and both na_last.
Vector.sort_by: every vector of length <= 4 over {None,0,1,2} (plus a {None,1,1.0,2} pool in which
equal keys of different type make stability observable), both `reverse`, both na_last.

Oracle (pairwise form of the statement): positions sorted with a comparator that goes through the
keys in order - None after every value (before, if not na_last) whatever the direction, otherwise
ascending / descending as requested - and falls back to the original position on a full tie.
Also: input not modified; sorting the sorted result again with the same arguments changes nothing.

Keys given as DERIVED or EXTERNAL vectors that carry a column's name (op 'derived'): `-t.age`,
`abs(t.age)` (both are named 'age'), an external Vector named 'age' with other values, and either of
two columns that share a name, passed as the vector object t.cols()[i]: the rows must be ordered by
the values of the vector actually passed, never by the stored column of that name.
Tie blocks (op 'table', keys without None): multi-key sorts in which a key that is not the last one
has ties, under every per-key direction combination, so that the later keys must break the ties
of a DESCENDING earlier key in their own direction.
"""
from relational_common import *  # noqa

PID = 'C14'
KEYVALS = [None, 0, 1]
VEC_POOLS = [('int', [None, 0, 1, 2]), ('mixed', [None, 1, 1.0, 2])]


def rev_settings(nk):
    out = [False, True]
    out += [list(c) for c in itertools.product([False, True], repeat=nk)]
    return out


def table_blocks(tier):
    """(nk, min_rows, max_rows, plan) - plan 'all': every (reverse, na_last, mode-rotating);
    'rot<k>': k settings per table, rotating with the table index."""
    if tier == 'quick':
        return [(1, 0, 4, 'all'), (2, 0, 3, 'all'), (2, 4, 4, 'rot1'), (3, 0, 1, 'all'), (3, 2, 2, 'rot6')]
    return [(1, 0, 4, 'all'), (2, 0, 4, 'all'), (3, 0, 2, 'all'), (3, 3, 3, 'rot4')]


MODES3 = ['name', 'col', 'ext']

# ---- keys that are derived / external vectors named like a column ----
DERIVED_VALS = [None, -2, -1, 1]
DERIVED_FORMS = ['neg', 'abs', 'ext-named', 'dup-second', 'dup-first']


def derived_cases(tier):
    settings = [(rev, nl, il) for rev in (False, True) for nl in (True, False) for il in (False, True)]
    full_hi = 3 if tier == 'quick' else 4
    top = 4 if tier == 'quick' else 5
    idx = 0
    for n in range(0, top + 1):
        for combo in itertools.product(DERIVED_VALS, repeat=n):
            for fi, form in enumerate(DERIVED_FORMS):
                idx += 1
                chosen = settings if n <= full_hi else [settings[(idx * 2 + j) % len(settings)] for j in range(2)]
                for rev, nl, il in chosen:
                    yield {'op': 'derived', 'form': form, 'vals': list(combo), 'reverse': rev, 'na_last': nl, 'in_list': il}


def tie_cases(tier):
    """Keys without None; only tables in which a key that is not the last one has a tie."""
    blocks = [(2, [0, 1, 2], 3, 3), (2, [0, 1], 4, 4), (3, [0, 1], 3, 3)] if tier == 'quick' else \
             [(2, [0, 1, 2], 3, 4), (2, [0, 1], 5, 5), (3, [0, 1], 3, 4)]
    for nk, vals, lo, hi in blocks:
        per_row = [list(k) for k in itertools.product(vals, repeat=nk)]
        revs = [list(c) for c in itertools.product([False, True], repeat=nk)]
        idx = 0
        for n in range(lo, hi + 1):
            for combo in itertools.product(per_row, repeat=n):
                rows = [list(r) for r in combo]
                if not any(len({r[j] for r in rows}) < n for j in range(nk - 1)):
                    continue
                idx += 1
                for ri, rev in enumerate(revs):
                    yield {'op': 'table', 'nk': nk, 'rows': rows, 'reverse': rev, 'na_last': bool((idx + ri) % 2),
                           'mode': MODES3[(idx + ri) % 3], 'block': 'ties'}


def cases(tier, seed):
    for nk, lo, hi, plan in table_blocks(tier):
        per_row = [list(k) for k in itertools.product(KEYVALS, repeat=nk)]
        settings = [(r, nl) for r in rev_settings(nk) for nl in (True, False)]
        idx = 0
        for n in range(lo, hi + 1):
            for combo in itertools.product(per_row, repeat=n):
                idx += 1
                rows = [list(r) for r in combo]
                if plan == 'all':
                    chosen = list(enumerate(settings))
                else:
                    k = int(plan[3:])
                    chosen = [((idx * k + j) % len(settings), settings[(idx * k + j) % len(settings)]) for j in range(k)]
                for si, (rev, nl) in chosen:
                    yield {'op': 'table', 'nk': nk, 'rows': rows, 'reverse': rev, 'na_last': nl,
                           'mode': MODES3[(idx + si) % 3]}
    for label, pool in VEC_POOLS:
        for n in range(0, 5):
            for combo in itertools.product(range(len(pool)), repeat=n):
                for rev in (False, True):
                    for nl in (True, False):
                        yield {'op': 'vector', 'pool': label, 'vals': lit([pool[i] for i in combo]), 'reverse': rev, 'na_last': nl}
    yield from derived_cases(tier)
    yield from tie_cases(tier)


def rev_list(rev, nk):
    return [bool(rev)] * nk if isinstance(rev, bool) else [bool(x) for x in rev]


def fail_key(site, cls, revs):
    # the failure class plus whether any descending key is involved (never the concrete values)
    return f'{PID}:{site}:{cls}:' + ('reverse' if any(revs) else 'forward')


def eval_table(case):
    nk, rows, rev, na_last, mode = case['nk'], case['rows'], case['reverse'], case['na_last'], case['mode']
    n = len(rows)
    descr = f'Table(keys={rows}, pos=0..{n - 1}).sort_by({mode} x{nk}, reverse={rev}, na_last={na_last})'
    keycols = [[r[j] for r in rows] for j in range(nk)]
    revs = rev_list(rev, nk)
    site = 'Table.sort_by'
    try:
        kvecs = [Vector(list(keycols[j]), name=f'k{j}') for j in range(nk)]
        pos = Vector(list(range(n)), name='pos')
        tag = Vector([f'r{i}' for i in range(n)], name='tag')
        if mode == 'ext':
            t = Table([pos, tag])
            by = kvecs
        else:
            t = Table([pos] + kvecs + [tag])
            by = [f'k{j}' for j in range(nk)] if mode == 'name' else [t.cols()[1 + j] for j in range(nk)]
        if nk == 1 and isinstance(rev, bool):
            by = by[0]                      # a single key passed bare
        elif mode == 'col' and nk > 1 and na_last:
            by = tuple(by)                  # documented: a tuple of keys is accepted as well
        in_rows = rows_of(t)
    except Exception as e:
        return [Fail(f'{PID}:setup:raises:{type(e).__name__}', f'{descr}: building the table raised {e!r}', None, repr(e))]
    before = (view(t), tuple(view(b) for b in (by if isinstance(by, (list, tuple)) else [by]) if isinstance(b, Vector)))
    fails = []
    try:
        res = t.sort_by(by, reverse=rev, na_last=na_last)
    except Exception as e:
        return [Fail(f'{PID}:{site}:raises:{type(e).__name__}', f'{descr}: raised {e!r}', None, repr(e), f'{PID}:sort_by:post')]
    m = truthful(res)
    if m:
        fails.append(Fail('C03:sort_by:truthful', f'{descr}: {m}', None, m))
    want_pos = sort_oracle(keycols, revs, na_last)
    try:
        got_rows = rows_of(res)
    except AssertionError as e:
        return fails + [Fail(f'{PID}:{site}:ragged-result', f'{descr}: {e}', None, str(e))]
    names = list(res.column_names())
    if names != list(t.column_names()):
        fails.append(Fail(f'{PID}:{site}:column-names', f'{descr}: columns changed', list(t.column_names()), names))
        return fails
    got_pos = [r[0] for r in got_rows]
    if sorted(map(repr, got_pos)) != sorted(map(repr, range(n))):
        fails.append(Fail(fail_key(site, 'not-a-permutation', revs), f'{descr}: the pos column of the result is not a permutation of 0..{n - 1}',
                          list(range(n)), got_pos, f'{PID}:sort_by:gather'))
        return fails
    if any(not same(tuple(r), tuple(in_rows[r[0]])) for r in got_rows):
        fails.append(Fail(fail_key(site, 'cells-not-kept-together', revs), f'{descr}: an output row is not the input row its pos cell came from',
                          [in_rows[p] for p in got_pos], got_rows, f'{PID}:sort_by:gather'))
        return fails
    if got_pos != want_pos:
        cls = classify_sort(got_pos, want_pos, keycols, na_last)
        fails.append(Fail(fail_key(site, cls, revs), f'{descr}: row order (original positions) differs from the contract', want_pos, got_pos,
                          f'{PID}:sort_by:loop[keys]:inv'))
    after = (view(t), tuple(view(b) for b in (by if isinstance(by, (list, tuple)) else [by]) if isinstance(b, Vector)))
    if after != before:
        fails.append(Fail(f'{PID}:{site}:input-modified', f'{descr}: the table or a key vector changed', before, after))
    # idempotence: sort the result again by the same keys (taken from the result itself)
    try:
        if mode == 'ext':
            by2 = [Vector([keycols[j][p] for p in got_pos], name=f'k{j}') for j in range(nk)]
        elif mode == 'name':
            by2 = [f'k{j}' for j in range(nk)]
        else:
            by2 = [res.cols()[1 + j] for j in range(nk)]
        if nk == 1 and isinstance(rev, bool):
            by2 = by2[0]
        again = res.sort_by(by2, reverse=rev, na_last=na_last)
        if not rows_same(rows_of(again), got_rows):
            fails.append(Fail(fail_key(site, 'not-idempotent', revs), f'{descr}: sorting the sorted table again changed it', got_rows,
                              rows_of(again), f'{PID}:lemma:idempotent'))
    except Exception as e:
        fails.append(Fail(f'{PID}:{site}:resort-raises:{type(e).__name__}', f'{descr}: sorting the sorted table again raised {e!r}', got_rows, repr(e)))
    return fails


def eval_vector(case):
    vals, rev, na_last = ev(case['vals']), case['reverse'], case['na_last']
    descr = f"Vector({case['vals']}).sort_by(reverse={rev}, na_last={na_last})"
    site = 'Vector.sort_by'
    revs = [bool(rev)]
    try:
        v = Vector(list(vals), name='x')
        stored = list(v._underlying)          # what the vector actually holds (after any coercion)
    except Exception as e:
        return [Fail(f'{PID}:setup:raises:{type(e).__name__}', f'{descr}: building the vector raised {e!r}', None, repr(e))]
    before = view(v)
    fails = []
    try:
        res = v.sort_by(reverse=rev, na_last=na_last)
    except Exception as e:
        return [Fail(f'{PID}:{site}:raises:{type(e).__name__}', f'{descr}: raised {e!r}', None, repr(e), f'{PID}:Vector.sort_by:post')]
    m = truthful(res)
    if m:
        fails.append(Fail('C03:Vector.sort_by:truthful', f'{descr}: {m}', None, m))
    got = list(res._underlying)
    want_pos = sort_oracle([stored], revs, na_last)
    want = [stored[p] for p in want_pos]
    if not same(got, want):
        if Counter(rkey(got)) != Counter(rkey(want)):      # rkey: per-element (type name, repr)
            cls = 'not-a-permutation'
        elif [x is None for x in got] != [x is None for x in want]:
            cls = 'none-placement'
        elif got == want:
            cls = 'stability'                 # equal keys of different type swapped
        else:
            cls = 'order'
        fails.append(Fail(fail_key(site, cls, revs), f'{descr} = {got!r}, contract gives {want!r}', want, got,
                          f'{PID}:Vector.sort_by:key:none-placement' if cls == 'none-placement' else f'{PID}:Vector.sort_by:post'))
    if view(v) != before:
        fails.append(Fail(f'{PID}:{site}:input-modified', f'{descr}: the vector changed', before, view(v)))
    try:
        again = list(res.sort_by(reverse=rev, na_last=na_last)._underlying)
        if not same(again, got):
            fails.append(Fail(fail_key(site, 'not-idempotent', revs), f'{descr}: sorting the sorted vector again gives {again!r} instead of {got!r}',
                              got, again, f'{PID}:lemma:idempotent'))
    except Exception as e:
        fails.append(Fail(f'{PID}:{site}:resort-raises:{type(e).__name__}', f'{descr}: sorting the sorted vector again raised {e!r}', got, repr(e)))
    return fails


def eval_derived(case):
    form, vals, rev, na_last, in_list = case['form'], case['vals'], case['reverse'], case['na_last'], case['in_list']
    n = len(vals)
    other = list(reversed(vals))            # the stored column of the same name holds OTHER values
    src = {'neg': '-t.age', 'abs': 'abs(t.age)', 'ext-named': f"Vector({other}, name='age')",
           'dup-second': 't.cols()[2] (second of two columns named x)', 'dup-first': 't.cols()[1] (first of two columns named x)'}[form]
    site = 'Table.sort_by:duplicate-name-column-key' if form.startswith('dup') else 'Table.sort_by:named-vector-key'
    revs = [False, bool(rev)] if in_list else [bool(rev)]
    try:
        pos = Vector(list(range(n)), name='pos')
        g = Vector([0] * n, name='g')
        tag = Vector([f'r{i}' for i in range(n)], name='tag')
        if form.startswith('dup'):
            t = Table([pos, Vector(other, name='x'), Vector(list(vals), name='x'), g, tag])
            key_vec = t.cols()[2] if form == 'dup-second' else t.cols()[1]
            want_key = list(vals) if form == 'dup-second' else other
            shown = f"Table(pos=0..{n - 1}, x={other}, x={vals}, g, tag)"
        else:
            t = Table([pos, Vector(list(vals), name='age'), g, tag])
            shown = f"Table(pos=0..{n - 1}, age={vals}, g, tag)"
            if form == 'neg':
                key_vec = -t.age
                want_key = [None if v is None else -v for v in vals]
            elif form == 'abs':
                key_vec = abs(t.age)
                want_key = [None if v is None else abs(v) for v in vals]
            else:
                key_vec = Vector(other, name='age')
                want_key = other
        in_rows = rows_of(t)
        keyvals = list(key_vec._underlying)
    except Exception as e:
        # building the operands (table, negation, abs) is not the operation under test
        return [] if n == 0 else [Fail(f'{PID}:setup:raises:{type(e).__name__}', f'derived key {src} over {vals}: building the operands raised {e!r}', None, repr(e))]
    if keyvals != want_key:
        return []           # the derived vector itself is not what plain Python computes: not C14's subject
    by = ['g', key_vec] if in_list else key_vec
    rev_arg = list(revs) if in_list else rev
    descr = f'{shown}.sort_by({"[g, " + src + "]" if in_list else src}, reverse={rev_arg}, na_last={na_last}); the key vector is named {key_vec._name!r} and holds {keyvals}'
    before = (view(t), view(key_vec))
    fails = []
    try:
        res = t.sort_by(by, reverse=rev_arg, na_last=na_last)
    except Exception as e:
        return [Fail(f'{PID}:{site}:raises:{type(e).__name__}', f'{descr}: raised {e!r}', None, repr(e), f'{PID}:sort_by:post')]
    m = truthful(res)
    if m:
        fails.append(Fail('C03:sort_by:truthful', f'{descr}: {m}', None, m))
    keycols = [[0] * n, keyvals] if in_list else [keyvals]
    want_pos = sort_oracle(keycols, revs, na_last)
    try:
        got_rows = rows_of(res)
    except AssertionError as e:
        return fails + [Fail(f'{PID}:{site}:ragged-result', f'{descr}: {e}', None, str(e))]
    if list(res.column_names()) != list(t.column_names()):
        return fails + [Fail(f'{PID}:{site}:column-names', f'{descr}: columns changed', list(t.column_names()), list(res.column_names()))]
    got_pos = [r[0] for r in got_rows]
    if sorted(map(repr, got_pos)) != sorted(map(repr, range(n))):
        return fails + [Fail(fail_key(site, 'not-a-permutation', revs), f'{descr}: the pos column of the result is not a permutation of 0..{n - 1}',
                             list(range(n)), got_pos, f'{PID}:sort_by:gather')]
    if any(not same(tuple(r), tuple(in_rows[r[0]])) for r in got_rows):
        return fails + [Fail(fail_key(site, 'cells-not-kept-together', revs), f'{descr}: an output row is not the input row its pos cell came from',
                             [in_rows[p] for p in got_pos], got_rows, f'{PID}:sort_by:gather')]
    if got_pos != want_pos:
        by_stored = sort_oracle(([[0] * n] if in_list else []) + [list(vals) if not form.startswith('dup') else (other if form == 'dup-second' else list(vals))],
                                revs, na_last)
        cls = 'ordered-by-the-stored-column-of-that-name' if got_pos == by_stored else classify_sort(got_pos, want_pos, keycols, na_last)
        fails.append(Fail(fail_key(site, cls, revs), f'{descr}: row order (original positions) is not the order of the key vector that was passed',
                          want_pos, got_pos, f'{PID}:sort_by:loop[keys]:inv'))
    if (view(t), view(key_vec)) != before:
        fails.append(Fail(f'{PID}:{site}:input-modified', f'{descr}: the table or the key vector changed', before, (view(t), view(key_vec))))
    return fails


def evaluate(case):
    if case['op'] == 'derived':
        return eval_derived(case)
    return eval_table(case) if case['op'] == 'table' else eval_vector(case)


def nontrivial(case):
    if case['op'] == 'vector':
        vals = ev(case['vals'])
        if len(vals) < 2:
            return None
        return ('v', case['pool'], len(vals), sum(x is None for x in vals), len({repr(x) for x in vals}) < len(vals),
                case['reverse'], case['na_last'])
    if case['op'] == 'derived':
        vals = case['vals']
        if len(vals) < 2:
            return None
        return ('d', case['form'], len(vals), sum(x is None for x in vals), len(set(vals)) < len(vals), vals != vals[::-1],
                case['reverse'], case['na_last'], case['in_list'])
    rows = [tuple(r) for r in case['rows']]
    if len(rows) < 2:
        return None
    return ('t', case['nk'], case['mode'], len(rows), repr(case['reverse']), case['na_last'],
            len(set(rows)) < len(rows), any(None in r for r in rows),
            any(a[0] == b[0] and a != b for a in rows for b in rows)) + (('ties',) if case.get('block') == 'ties' else ())


def bound(tier):
    return {'table_blocks': [{'key_columns': b[0], 'rows': [b[1], b[2]], 'settings': b[3]} for b in table_blocks(tier)],
            'key_values': '{None,0,1}', 'reverse': 'False, True and every per-key list', 'na_last': [True, False],
            'key_modes': MODES3, 'vector_pools': [[repr(x) for x in p] for _, p in VEC_POOLS], 'vector_max_len': 4,
            'derived_key_forms': DERIVED_FORMS, 'derived_key_values': repr(DERIVED_VALS),
            'derived_rows': 'all settings up to %d rows, 2 rotating settings up to %d rows' % ((3, 4) if tier == 'quick' else (4, 5)),
            'tie_blocks(nk, values, min_rows, max_rows)': [(2, [0, 1, 2], 3, 3), (2, [0, 1], 4, 4), (3, [0, 1], 3, 3)] if tier == 'quick'
            else [(2, [0, 1, 2], 3, 4), (2, [0, 1], 5, 5), (3, [0, 1], 3, 4)]}


if __name__ == '__main__':
    main(PID, cases, evaluate,
         rule='every table of each block (key rows over {None,0,1} + position and tag columns), settings in full or rotating with the '
              'table index as stated, key mode rotating; every vector of length <=4 over the pools x reverse x na_last; compared with '
              'the pairwise stable-lexicographic contract; permutation / cells together / input unchanged / idempotent; plus keys passed as '
              'derived / external vectors that carry a column name (-t.age, abs(t.age), external Vector named like a column, either of two '
              'same-named columns as vector object) ordered by the passed vector, and None-free multi-key tables with ties in a non-last '
              'key under every direction list. distinct = '
              'distinct (kind, nk, mode, rows, reverse, na_last, duplicate rows, None key, first-key tie) signatures',
         bound=bound, nontrivial=nontrivial)

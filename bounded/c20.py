"""C20 bounded stand-in: repr never fails and never misstates shape, dtype or data.

Scope
-----
vec     : every dtype (int, float, str, bool, date, datetime, complex, bytes, object and the nullable variant of
          each) x every length 0..limit+3 x set_repr_rows limit in {None (=12), 0, 1, 2, 3, 4, 5} x names
          {None, 'v', 'a b', '', 0, 5};
vec-sp  : special values (None, nan, inf, -inf, -0.0, 1e300, 10**30, multi-line / blank / very long strings, the
          string '...', nested list, user object) alone, and placed at the head / hidden middle / tail of a
          vector longer than the limit, for limits {None, 2};
tab     : tables of width 0..12 x 0..14 rows x name patterns
          (plain, all None, 'a b' / '' / None mix, repeated, non-str 0, non-str 5) x dtype patterns (all int,
          cycling through every dtype, nullable cycle, all int? with None in the last row) x limits {None, 0, 1, 2, 3, 4, 5} with rows 0..limit+3.
          Column 0 always is an int marker column 7000+i so that body lines can be told from header lines
          without knowing the layout.
tab-odd : tables of 11..14 columns (wider than the column limit) that are all int (or all int? ending in None) except ONE column
          - at every elided position, all elided positions at once, and two visible controls - which differs in kind
          (float, str, bool, date?, object / float?, str?) or only in nullability (int? among int, int among int?);
          rows 1, 3, 14 at the default limit, 5 rows at limit 2, 2 rows at limit 0; plain and absent names.
          The footer must not claim one homogeneous dtype.
tab-sp  : two-column tables whose second column carries one special value (alone, after a plain value, at the
          head / hidden middle / tail of a column longer than the limit), limits {None, 2}.
rewrite : repr, write, repr again (ops 'vec-rw' / 'tab-rw').  A vector / a table column (int, float, object, str, bool, date) of
          1, 3 or limit+3 elements is printed, ONE element (head, middle - hidden when truncated - or tail) is then replaced in
          place, and the object is printed again; a second replacement of the same cell by a third value and a third repr follow.
          Writes: v[i] = x, one-cell slice and mask writes; for tables t[i, 'a'] = x, t.a[i] = x, a view held since before
          the first repr, t['a'][i] = x, slice and mask writes of the view.  Replacements: ordinary ones (5 -> 6, 'a' -> 'b',
          1.5 -> 2.5, a date, True -> False) and values that are different but EQUAL IN HASH (and mostly ==) to the value they
          replace: -1 / -2, 0 / 2**61-1, 0.0 / -0.0, -1.0 / -2.0, 2.0 -> 2, and 1 / True / 1.0, 0 / False in object columns.
          Limits {None, 2}.  After every write repr must be exactly the repr of a FRESHLY BUILT object (same values as now
          stored, same dtype, same names), must leave the object unchanged, and a vector's text is parsed as in 'vec'.
Both tiers run the same lattice (it takes seconds); thorough adds the limits 6, 13, 20 for vectors.

Oracle (statement only): repr returns a str, `view(x)` is unchanged; the last line is the footer and states
len(x) (vectors: `# N element vector <kind[?]>`) or rows×cols and the true dtype(s) with `?` when nullable
(tables: one token for all columns, the per-column list, or `<mixed>` with a `[kind]` header row); data longer
than the limit shows first rows, ONE ellipsis line, last rows, at most `limit` rows in all; shorter data shows
every row in order, no ellipsis; length == limit is not decided by the statement and is accepted either way.
A body line shows element x when its stripped text is one of str(x), repr(x), '%g' / '%.1f' of a float,
isoformat of a date.  Header lines have to contain the stored names of the displayed columns, in order.
"""
import itertools
import re
from datetime import date, datetime, timedelta

from harness import *  # noqa
from serif import set_repr_rows

LIMITS = [None, 0, 1, 2, 3, 4, 5]
VEC_NAMES = [None, 'v', 'a b', '', 0, 5]


def elem(kind, i):
    if kind == 'int':
        return 100 + i
    if kind == 'float':
        return 100.5 + i
    if kind == 'str':
        return f's{i}'
    if kind == 'bool':
        return i % 2 == 0
    if kind == 'date':
        return date(2020, 1, 1) + timedelta(days=i)
    if kind == 'datetime':
        return datetime(2020, 1, 1, 0, 0) + timedelta(days=i)
    if kind == 'complex':
        return complex(i, 1)
    if kind == 'bytes':
        return b'b%d' % i
    if kind == 'object':
        return [100 + i, f's{i}', 2.5 + i][i % 3] if i else 100
    raise AssertionError(kind)


KINDS = ['int', 'float', 'str', 'bool', 'date', 'datetime', 'complex', 'bytes', 'object']
PYKIND = {'int': int, 'float': float, 'str': str, 'bool': bool, 'date': date, 'datetime': datetime, 'complex': complex,
          'bytes': bytes, 'object': object}


def values(kind, n, nullable):
    vals = [elem(kind, i) for i in range(n)]
    if nullable and n:
        vals[n // 2] = None
    if kind == 'object' and n == 1 and not nullable:
        pass
    return vals


def acceptable(x):
    if x is None:
        return {'None'}
    acc = {str(x), repr(x)}
    if isinstance(x, (int, float)) and not isinstance(x, bool):
        try:
            acc |= {f'{x:g}', f'{x:.1f}'}          # an int stored in a float column may be shown as 100.0
        except (OverflowError, ValueError):
            pass
    if isinstance(x, (date, datetime)):
        acc.add(x.isoformat())
    return acc


def dtype_token(dt):
    return dt.kind.__name__ + ('?' if dt.nullable else '')


def limit_value(limit):
    return 12 if limit is None else limit


class ReprGuard:
    def __init__(self, limit):
        self.limit = limit

    def __enter__(self):
        set_repr_rows(self.limit)

    def __exit__(self, *a):
        set_repr_rows(None)
        return False


def safe_repr(x, limit):
    with ReprGuard(limit):
        return repr(x)


# ---------------------------------------------------------------------------------------------
# body check shared by vectors (elements) and tables (marker column)
# ---------------------------------------------------------------------------------------------
def check_body(prefix, shown, elems, L, desc, multiline, is_ellipsis=lambda s: s == '...'):
    F = _check_body(prefix, shown, elems, L, desc, is_ellipsis)
    if F and multiline:
        # an embedded newline splits one row over several lines: the row is still shown (the statement
        # asks that every row is shown, not that it occupies one line), so the line count is not failed
        return []
    return F


def _check_body(prefix, shown, elems, L, desc, is_ellipsis):
    """shown: stripped body lines; elems: the true elements (or marker values)."""
    N = len(elems)
    F = []

    def matches(line, x):
        return line in {a.strip() for a in acceptable(x)}

    if L < 2 and N >= 1 and len(shown) == N + 1 and is_ellipsis(shown[0]) and all(matches(s, x) for s, x in zip(shown[1:], elems)) \
            and not (isinstance(elems[0], str) and elems[0] == '...'):
        return [Fail(f'{prefix}:limit-below-2:ellipsis-then-every-row', f'{desc}: an ellipsis line followed by all {N} rows', f'<= {L} rows',
                     shown)]

    full_ok = len(shown) == N and all(matches(s, x) for s, x in zip(shown, elems))
    if N <= L or N == 0:
        if full_ok:
            return F
        if N == L and N > 0:
            pass          # equality: truncated display accepted too, fall through to the truncated check
        else:
            if len(shown) != N:
                ell = [i for i, s in enumerate(shown) if is_ellipsis(s)]
                if ell and len(shown) == N + 1 and L < 2:
                    F.append(Fail(f'{prefix}:ellipsis-when-complete:limit-below-2', f'{desc}: ellipsis line although nothing is hidden', N, shown))
                elif ell and len(shown) == N + len(ell):
                    F.append(Fail(f'{prefix}:ellipsis-when-complete', f'{desc}: ellipsis line although all {N} rows fit the limit {L}', N, shown))
                else:
                    F.append(Fail(f'{prefix}:body-line-count', f'{desc}: {len(shown)} body lines for {N} rows (limit {L})', N, shown))
            else:
                bad = next(i for i, (s, x) in enumerate(zip(shown, elems)) if not matches(s, x))
                if is_ellipsis(shown[bad]) and isinstance(elems[bad], str):
                    F.append(Fail(f'{prefix}:element-shown-as-ellipsis', f'{desc}: row {bad} holds {elems[bad]!r} and is printed as the '
                                  f'bare ellipsis', repr(elems[bad]), shown[bad]))
                else:
                    F.append(Fail(f'{prefix}:row-content', f'{desc}: row {bad} holds {elems[bad]!r}, line shows {shown[bad]!r}',
                                  sorted(acceptable(elems[bad])), shown[bad]))
            return F
    # truncated display expected (or allowed at equality)
    cands = [i for i, s in enumerate(shown) if is_ellipsis(s)]
    best = None
    for h in cands:
        head, tail = shown[:h], shown[h + 1:]
        k = len(tail)
        if h + k > N:
            continue
        if all(matches(s, x) for s, x in zip(head, elems[:h])) and all(matches(s, x) for s, x in zip(tail, elems[N - k:] if k else [])):
            best = (h, k)
            break
    sub = ':limit-below-2' if L < 2 else ''
    if best is None:
        if not cands:
            if full_ok:
                F.append(Fail(f'{prefix}:limit-ignored{sub}', f'{desc}: all {N} rows shown although the limit is {L}', f'<= {L} rows', len(shown)))
            else:
                F.append(Fail(f'{prefix}:missing-ellipsis',
                              f'{desc}: {N} rows exceed the limit {L} but there is no ellipsis line', 'ellipsis', shown))
        else:
            F.append(Fail(f'{prefix}:preview-rows-wrong',
                          f'{desc}: the lines around the ellipsis are not the first / last rows', None, shown))
        return F
    h, k = best
    if h + k > L:
        F.append(Fail(f'{prefix}:preview-limit-exceeded{sub}', f'{desc}: {h}+{k} rows shown around the ellipsis, limit is {L} '
                      f'({N} rows in all)', f'<= {L}', h + k))
    elif L >= 2 and (h == 0 or k == 0):
        F.append(Fail(f'{prefix}:head-or-tail-missing', f'{desc}: {h} head rows and {k} tail rows', 'first and last rows', (h, k)))
    elif h + k == N:
        F.append(Fail(f'{prefix}:ellipsis-hides-nothing{sub}', f'{desc}: ellipsis line shown but every one of the {N} rows is printed', None, shown))
    return F


# ---------------------------------------------------------------------------------------------
# vectors
# ---------------------------------------------------------------------------------------------
VFOOT = re.compile(r'^# (\d+) element vector <([^<>]+)>$')


def raise_cause_vec(vals, dtype_kw, name, limit):
    def ok(vs, nm):
        try:
            safe_repr(Vector(list(vs), name=nm, **dtype_kw), limit)
            return True
        except Exception:
            return False
    if name is not None and ok(vals, None):
        return 'name:non-str' if not isinstance(name, str) else 'name'
    nonfinite = lambda x: isinstance(x, float) and (x != x or x in (float('inf'), float('-inf')))
    if any(nonfinite(x) for x in vals) and ok([1.0 if nonfinite(x) else x for x in vals], None):
        return 'non-finite-float'
    return 'values'


def check_vector(v, vals, name, limit, desc, dtype_kw):
    fails = []
    L = limit_value(limit)
    before = view(v)
    try:
        r = safe_repr(v, limit)
    except Exception as e:
        cause = raise_cause_vec(vals, dtype_kw, name, limit)
        return [Fail(f'C20:Vector.repr:raises:{cause}', f'repr({desc}) raised {type(e).__name__}: {e}', 'a string', type(e).__name__)]
    if not isinstance(r, str):
        return [Fail('C20:Vector.repr:not-a-string', desc, 'str', type(r).__name__)]
    if view(v) != before:
        fails.append(Fail('C20:Vector.repr:mutates', f'repr({desc}) changed the vector', before, view(v)))
    m = truthful(v)
    if m:
        fails.append(Fail('C03:Vector.ctor:truthful', m))
    lines = r.split('\n')
    N = len(vals)
    mo = VFOOT.match(lines[-1])
    if not mo:
        key = 'C20:Vector.repr:empty-vector-footer' if N == 0 else 'C20:Vector.repr:footer-format'
        return fails + [Fail(key, f'repr({desc}) ends with {lines[-1]!r}; no `# N element vector <kind>` footer stating the count {N}',
                             f'# {N} element vector <...>', lines[-1])]
    if int(mo.group(1)) != N:
        fails.append(Fail('C20:Vector.repr:footer-count', f'repr({desc}) footer {lines[-1]!r}', N, mo.group(1)))
    dt = v.schema()
    if dt is not None and mo.group(2) != dtype_token(dt):
        fails.append(Fail('C20:Vector.repr:footer-dtype', f'repr({desc}) footer {lines[-1]!r}, schema {dt!r}', dtype_token(dt), mo.group(2)))
    body = lines[:-1]
    if body and body[-1].strip() == '':
        body = body[:-1]
    # optional name header
    if name is not None and name != '':
        if not body or body[0].strip() not in (str(name), repr(name)):
            fails.append(Fail('C20:Vector.repr:header-missing-name' + ('' if isinstance(name, str) else ':non-str-name'),
                              f'repr({desc}): first line {body[0] if body else None!r} does not show the name {name!r}', name, body[:1]))
        else:
            body = body[1:]
    elif name == '' and body and body[0].strip() in ("''", '""') and len(body) > min(N, L + 1):
        body = body[1:]
    shown = [b.strip() for b in body]
    multiline = any(isinstance(x, str) and '\n' in x for x in vals)
    body_fails = check_body('C20:Vector.repr', shown, list(vals), L, f'repr({desc}) at limit {L}', multiline)
    fails += body_fails
    if not body_fails and len(shown) == N and dt is not None and dt.kind is object:
        # in an object vector strings are told from other values by quoting; a string that is printed bare AND looks
        # like the ellipsis marker misstates the data
        quoted = any(isinstance(x, str) and x != '...' and s_ == repr(x) for s_, x in zip(shown, vals))
        for i, (s_, x) in enumerate(zip(shown, vals)):
            if quoted and isinstance(x, str) and x == '...' and s_ == '...':
                fails.append(Fail('C20:Vector.repr:element-shown-as-ellipsis', f'repr({desc}): row {i} holds the string \'...\' and is printed '
                                  f'as the bare ellipsis while other strings are quoted', repr(x), s_))
                break
    return fails


def eval_vec(case):
    vals = ev(case['values'])
    name = ev(case['name'])
    dtype_kw = {}
    if case.get('dtype'):
        dtype_kw = {'dtype': DataType(PYKIND[case['dtype']], bool(case.get('nullable')))}
    desc = f'Vector({case["values"]}, name={name!r}' + (f', dtype={dtype_kw["dtype"]!r})' if dtype_kw else ')')
    try:
        v = Vector(list(vals), name=name, **dtype_kw)
    except Exception:
        return []
    if not isinstance(v, Vector) or isinstance(v, Table):
        return []
    return check_vector(v, vals, name, case['limit'], desc, dtype_kw)


# ---------------------------------------------------------------------------------------------
# tables
# ---------------------------------------------------------------------------------------------
TFOOT = re.compile(r'^# (\d+)×(\d+) table(?: <(.*)>)?$')
NAME_PATTERNS = ['plain', 'none', 'mixed', 'repeat', 'zero', 'five']
DTYPE_PATTERNS = ['int', 'cycle', 'cycle?', 'int?all']


def table_names(pattern, w):
    if pattern == 'plain':
        return [f'n{j}' for j in range(w)]
    if pattern == 'none':
        return [None] * w
    if pattern == 'mixed':
        return [['a b', '', None, 'x'][j % 4] for j in range(w)]
    if pattern == 'repeat':
        return ['a'] * w
    if pattern == 'zero':
        return [0 if j == 0 else f'n{j}' for j in range(w)]
    if pattern == 'five':
        return [f'n{j}' if j != w - 1 else 5 for j in range(w)]
    raise AssertionError(pattern)


ODD_KINDS = {'int': ['float', 'int?', 'str', 'bool', 'date?', 'object'], 'int?': ['int', 'float?', 'str?']}


def odd_positions(dpat, w):
    """'odd:<base>:<token>:<pos>' -> the columns that differ from the base dtype (pos 'all' = every elided column)."""
    pos = dpat.split(':')[3]
    return list(range(5, w - 5)) if pos == 'all' else [int(pos)]


def table_columns(dpat, w, n):
    if dpat.startswith('odd:'):
        # every column int (base 'int') or int? ending in None (base 'int?') except the odd one(s), which differ in kind
        # or only in nullability; column 0 stays the marker column
        _, base, token, _pos = dpat.split(':')
        odd = odd_positions(dpat, w)
        cols = []
        for j in range(w):
            if j in odd and j != 0:
                kind, nullable = token.rstrip('?'), token.endswith('?')
                vals = [elem(kind, i) for i in range(n)]
                if nullable and n:
                    vals[-1] = None
                cols.append(vals)
            else:
                first = 7000 if j == 0 else j * 10
                cols.append([first + i if (base == 'int' or i < n - 1) else None for i in range(n)])
        return cols
    cols = []
    for j in range(w):
        if dpat == 'int?all':
            # homogeneous nullable table: every column (the marker column too) ends with None
            cols.append([(7000 if j == 0 else j * 10) + i if i < n - 1 else None for i in range(n)])
        elif j == 0:
            cols.append([7000 + i for i in range(n)])
        elif dpat == 'int':
            cols.append([j * 10 + i for i in range(n)])
        else:
            kind = KINDS[(j - 1) % len(KINDS)]
            cols.append(values(kind, n, dpat.endswith('?') and j % 2 == 1))
    return cols


def raise_cause_tab(names, cols, limit):
    def ok(nms):
        try:
            safe_repr(Table([Vector(list(c), name=nm) for c, nm in zip(cols, nms)]), limit)
            return True
        except Exception:
            return False
    if any(nm is not None and not isinstance(nm, str) for nm in names) and ok([None if not isinstance(nm, str) else nm for nm in names]):
        return 'name:non-str'
    if ok([None] * len(names)):
        return 'name'
    nonfinite = lambda x: isinstance(x, float) and (x != x or x in (float('inf'), float('-inf')))
    if any(nonfinite(x) for c in cols for x in c):
        try:
            safe_repr(Table([Vector([1.0 if nonfinite(x) else x for x in c], name=nm) for c, nm in zip(cols, names)]), limit)
            return 'non-finite-float'
        except Exception:
            pass
    return 'values'


def eval_tab(case):
    w, n, limit = case['w'], case['n'], case['limit']
    L = limit_value(limit)
    if case['op'] == 'tab-sp':
        names = ['m', 's']
        cols = [[7000 + i for i in range(n)], ev(case['values'])]
        desc = f'Table(m=7000.., s={case["values"]})'
    else:
        names = table_names(case['names'], w)
        cols = table_columns(case['dtypes'], w, n)
        desc = f'Table({w} columns named {names!r}, {n} rows, dtypes {case["dtypes"]})'
    try:
        t = Table([Vector(list(c), name=nm) for c, nm in zip(cols, names)]) if w else Table()
    except Exception:
        return []
    if not isinstance(t, Table) or len(t.cols()) != w:
        return []
    fails = []
    before = view(t)
    try:
        r = safe_repr(t, limit)
    except Exception as e:
        return [Fail(f'C20:Table.repr:raises:{raise_cause_tab(names, cols, limit)}', f'repr({desc}) raised {type(e).__name__}: {e}',
                     'a string', type(e).__name__)]
    if not isinstance(r, str):
        return [Fail('C20:Table.repr:not-a-string', desc, 'str', type(r).__name__)]
    if view(t) != before:
        fails.append(Fail('C20:Table.repr:mutates', f'repr({desc}) changed the table', before, view(t)))
    m = truthful(t)
    if m:
        fails.append(Fail('C03:Table.ctor:truthful', m))
    lines = r.split('\n')
    mo = TFOOT.match(lines[-1])
    if not mo:
        return fails + [Fail('C20:Table.repr:footer-format', f'repr({desc}) ends with {lines[-1]!r}', f'# {n}×{w} table <...>', lines[-1])]
    rows_true = n if w else 0
    if (int(mo.group(1)), int(mo.group(2))) != (rows_true, w):
        fails.append(Fail('C20:Table.repr:footer-shape', f'repr({desc}) footer {lines[-1]!r}', f'{rows_true}×{w}', f'{mo.group(1)}×{mo.group(2)}'))
    if w == 0:
        return fails
    top = lines[:-1]
    if top and top[-1].strip() == '':
        top = top[:-1]
    is_marker = lambda s: bool(re.match(r'^(7\d\d\d|None)\b', s))
    is_ell = lambda s: bool(s) and all(tok == '...' for tok in s.split())
    first_body = next((i for i, ln in enumerate(top) if is_marker(ln.strip()) or is_ell(ln.strip())), len(top))
    header, body = top[:first_body], top[first_body:]

    # ---- dtypes ----
    shown_idx = list(range(w)) if w <= 10 else list(range(5)) + list(range(w - 5, w))
    true_tokens = [None if c.schema() is None else dtype_token(c.schema()) for c in t.cols()]
    known = [tk for tk in true_tokens if tk is not None]
    foot = mo.group(3)
    if known:
        ok = False
        if foot is not None and foot != 'mixed':
            parts = [p.strip() for p in foot.split(',')]
            if len(parts) == 1:
                ok = all(tk == parts[0] for tk in known)
            elif '...' in parts:
                i = parts.index('...')
                ok = (parts[:i] == [tk for tk in true_tokens[:i]] and parts[i + 1:] == true_tokens[w - (len(parts) - i - 1):])
            else:
                ok = parts == true_tokens
        elif foot == 'mixed':
            for ln in header:
                toks = ln.split()
                if toks and all(re.fullmatch(r'\[[^\]]+\]', tk) or tk == '...' for tk in toks):
                    got = [tk[1:-1] for tk in toks if tk != '...']
                    ok = got == [true_tokens[j] for j in shown_idx]
                    break
        if not ok:
            fails.append(Fail('C20:Table.repr:dtype-misstated', f'repr({desc}): footer {lines[-1]!r} / header {header!r} do not state the '
                              f'column dtypes {true_tokens!r}', true_tokens, foot))

    # ---- header names ----
    need = [(j, names[j]) for j in shown_idx if names[j] is not None and names[j] != '']
    if need:
        found = False
        tokenise = lambda ln: re.findall(r"'(?:[^'\\]|\\.)*'|\"(?:[^\"\\]|\\.)*\"|\S+", ln)
        for ln in header:
            toks, pos, good = tokenise(ln), 0, True
            for j, nm in need:
                nxt = next((i for i in range(pos, len(toks)) if toks[i] in (str(nm), repr(nm))), None)
                if nxt is None:
                    good = False
                    break
                pos = nxt + 1
            if good:
                found = True
                break
        if not found:
            nonstr = [nm for _, nm in need if not isinstance(nm, str)]
            strs_ok = any(all(any(tk in (str(nm), repr(nm)) for tk in tokenise(ln)) for _, nm in need if isinstance(nm, str))
                          for ln in header) or not [1 for _, nm in need if isinstance(nm, str)]
            sub = ':non-str-name' if nonstr and strs_ok else ''
            fails.append(Fail('C20:Table.repr:header-missing-name' + sub, f'repr({desc}): header lines {header!r} do not show the stored '
                              f'names {[nm for _, nm in need]!r} in order', [nm for _, nm in need], header))

    # ---- body rows (marker column) ----
    shown = []
    for ln in body:
        s = ln.strip()
        shown.append('...' if is_ell(s) else (s.split()[0] if s else ''))
    multiline = any(isinstance(x, str) and '\n' in x for c in cols for x in c)
    fails += check_body('C20:Table.repr', shown, list(cols[0]), L, f'repr({desc}) at limit {L}', multiline)
    return fails


# ---------------------------------------------------------------------------------------------
SPECIALS = [None, float('nan'), float('inf'), float('-inf'), -0.0, 1e300, 10 ** 30, -10 ** 30, 'x\ny', '', ' ', 'z' * 200, '...',
            [1, 2], Opaque(1), True, 1j, b'\x00']


def companion(x):
    """A plain value of the same dtype family, used to pad a special value to a longer vector."""
    if x is None or isinstance(x, bool):
        return [True, False]
    if isinstance(x, int):
        return [1, 2]
    if isinstance(x, float):
        return [1.5, 2.5]
    if isinstance(x, str):
        return ['p', 'q']
    if isinstance(x, complex):
        return [2j, 3j]
    if isinstance(x, bytes):
        return [b'p', b'q']
    if isinstance(x, list):
        return [[3], [4]]
    return [Opaque(2), Opaque(3)]


# ---------------------------------------------------------------------------------------------
# repr, write, repr again
# ---------------------------------------------------------------------------------------------
M61 = 2 ** 61 - 1
assert hash(-1) == hash(-2) and hash(0) == hash(M61) and hash(0.0) == hash(-0.0) and hash(-1.0) == hash(-2.0) and hash(1) == hash(True)
# (family, filler values, [(old, new, newer)]): `old` sits in the cell, is replaced by `new`, then by `newer`
RW_FAMILIES = [
    ('int', [7, 8, 9], [(-1, -2, -1), (-2, -1, 3), (0, M61, 0), (M61, 0, M61), (5, 6, 5)]),
    ('float', [7.5, 8.5, 9.5], [(0.0, -0.0, 0.0), (-0.0, 0.0, 1.5), (-1.0, -2.0, -1.0), (2.0, 2, 2.0), (1.5, 2.5, 1.5)]),
    ('object', ['s', 2.5, 'u'], [(1, True, 1), (True, 1, 1.0), (1, 1.0, True), (0, False, 0), ('a', 'b', 'a'), (-1, -2, None)]),
    ('str', ['p', 'q', 'r'], [('a', 'b', 'a')]),
    ('bool', [True, False, True], [(True, False, True)]),
    ('date', [date(2020, 1, 1), date(2020, 1, 2), date(2020, 1, 3)], [(date(2021, 5, 5), date(2021, 5, 6), date(2021, 5, 5))]),
]
RW_VEC_HOWS = ['cell', 'slice', 'mask']
RW_TAB_HOWS = ['table-cell', 'view-cell', 'held-view-cell', 'getitem-cell', 'view-slice', 'view-mask']


def hash_equal(a, b):
    try:
        return hash(a) == hash(b)
    except TypeError:
        return False


def rw_cases(tier):
    idx = 0
    for limit in (None, 2):
        L = limit_value(limit)
        for fam, filler, triples in RW_FAMILIES:
            for old, new, newer in triples:
                for n in (1, 3, L + 3):
                    for posn in sorted({0, n // 2, n - 1}):
                        vals = [filler[i % len(filler)] for i in range(n)]
                        vals[posn] = old
                        for shape, hows in (('vec-rw', RW_VEC_HOWS), ('tab-rw', RW_TAB_HOWS)):
                            for hi, how in enumerate(hows):
                                idx += 1
                                if tier == 'quick' and shape == 'tab-rw' and not hash_equal(old, new) and (idx + hi) % 3:
                                    continue
                                yield {'op': shape, 'family': fam, 'values': lit(vals), 'pos': posn, 'steps': lit([new, newer]), 'how': how,
                                       'limit': limit, 'name': lit([None, 'v'][idx % 2]), 'hash_equal': hash_equal(old, new)}


def fresh_vector(c):
    dt = c.schema()
    return Vector(list(c._underlying), name=c._name, **({'dtype': dt} if dt is not None else {}))


def rw_write(x, held, how, i, val):
    n = len(x)
    if how == 'cell':
        x[i] = val
    elif how == 'slice':
        x[i:i + 1] = [val]
    elif how == 'mask':
        x[Vector([j == i for j in range(n)])] = val
    elif how == 'table-cell':
        x[i, 'a'] = val
    elif how == 'view-cell':
        x.a[i] = val
    elif how == 'held-view-cell':
        held[i] = val
    elif how == 'getitem-cell':
        x['a'][i] = val
    elif how == 'view-slice':
        x.a[i:i + 1] = [val]
    elif how == 'view-mask':
        x.a[Vector([j == i for j in range(n)])] = val
    else:
        raise AssertionError(how)


def eval_rw(case):
    vals, i, limit, how = ev(case['values']), case['pos'], case['limit'], case['how']
    is_tab = case['op'] == 'tab-rw'
    cls_name = 'Table' if is_tab else 'Vector'
    name = ev(case['name'])
    n = len(vals)
    try:
        if is_tab:
            x = Table([Vector([7000 + j for j in range(n)], name='m'), Vector(list(vals), name='a'), Vector([f't{j}' for j in range(n)], name='b')])
            held = x.a
            col = lambda: x.cols()[1]            # noqa: E731
        else:
            x = Vector(list(vals), name=name)
            held = None
            col = lambda: x                      # noqa: E731
        if isinstance(x, Table) != is_tab:
            return []
    except Exception:
        return []
    desc0 = (f"Table(m=7000.., a={case['values']}, b='t0'..)" if is_tab else f"Vector({case['values']}, name={name!r})") + f' at limit {limit_value(limit)}'
    try:
        texts = [safe_repr(x, limit)]
    except Exception:
        return []                  # totality of a first repr: the other blocks
    fails = []
    current = list(vals)
    for step, val in enumerate(ev(case['steps'])):
        try:
            rw_write(x, held, how, i, val)
            stored = list(col()._underlying)
        except Exception:
            return fails           # the write was refused: not this property's business
        want_now = list(current)
        want_now[i] = val
        if [(type(a).__name__, repr(a)) for a in stored] != [(type(a).__name__, repr(a)) for a in want_now]:
            return fails           # the write converted / did not store the value: repr is judged on what IS stored only when it took
        replaced, current = current[i], want_now
        kind = 'hash-equal-replacement' if hash_equal(replaced, val) else 'ordinary-replacement'
        desc = f'{desc0}: repr, then cell {i} {replaced!r} -> {val!r} ({how})' + (f' [write #{step + 1}]' if step else '') + ', then repr'
        site = f'C20:{cls_name}.repr-after-write:{how}'
        before = view(x)
        try:
            r = safe_repr(x, limit)
        except Exception as e:
            fails.append(Fail(f'{site}:raises:{kind}', f'{desc}: raised {type(e).__name__}: {e}', 'a string', type(e).__name__))
            return fails
        if view(x) != before:
            fails.append(Fail(f'{site}:mutates', f'{desc}: repr changed the object', before, view(x)))
        try:
            fresh = Table([fresh_vector(c) for c in x.cols()]) if is_tab else fresh_vector(x)
            want = safe_repr(fresh, limit)
        except Exception:
            want = None
        if want is not None and r != want:
            cls = 'shows-the-text-of-before-the-write' if r == texts[-1] else 'shows-an-earlier-text' if r in texts else 'differs-from-fresh-object'
            fails.append(Fail(f'{site}:{cls}:{kind}', f'{desc}: the text differs from the repr of a freshly built {cls_name} holding the same values '
                              f'{stored!r}', want, r))
        elif not is_tab and not (x.schema() is not None and x.schema().kind in (int, float, complex) and any(isinstance(a, bool) for a in stored)):
            # the text of the written vector, parsed against the statement like any other vector.  (Not parsed: a bool that sits in an
            # int / float column after the writes - Vector([1.5, True]) prints it in the column's format, '1.0', on a fresh object as
            # well; whether that misstates the data is not a matter of the write history and is left to the fresh-object comparison.)
            for f in check_vector(x, stored, name, limit, desc, {}):
                if f['key'].startswith('C20:') and not f['key'].startswith(site):
                    f['key'] = f['key'].replace('C20:Vector.repr', site, 1)
                fails.append(f)
        texts.append(r)
        if fails:
            return fails
    return fails


def cases(tier, seed):
    q = tier == 'quick'
    yield from rw_cases(tier)
    # vectors: dtype x length x limit x name
    for limit in (LIMITS if q else LIMITS + [6, 13, 20]):
        L = limit_value(limit)
        for kind in KINDS:
            for nullable in (False, True):
                for n in range(0, L + 4):
                    if nullable and n == 0:
                        continue
                    for name in VEC_NAMES:
                        yield {'op': 'vec', 'values': lit(values(kind, n, nullable)), 'name': lit(name), 'limit': limit}
                    if n == 0:
                        yield {'op': 'vec', 'values': '[]', 'name': 'None', 'limit': limit, 'dtype': kind, 'nullable': nullable}
    # special values
    for limit in (None, 2):
        L = limit_value(limit)
        for x in SPECIALS:
            yield {'op': 'vec', 'values': lit([x]), 'name': 'None', 'limit': limit}
            yield {'op': 'vec', 'values': lit([x]), 'name': lit('v'), 'limit': limit}
            p, r_ = companion(x)
            yield {'op': 'vec', 'values': lit([p, x]), 'name': 'None', 'limit': limit}
            yield {'op': 'vec', 'values': lit([x, p, None]), 'name': 'None', 'limit': limit}
            if not isinstance(x, (str, type(None))):
                yield {'op': 'vec', 'values': lit(['s', x]), 'name': 'None', 'limit': limit}      # inside an object vector
            else:
                yield {'op': 'vec', 'values': lit([1, x]), 'name': 'None', 'limit': limit}
                yield {'op': 'vec', 'values': lit([1, 's', x]), 'name': 'None', 'limit': limit}
            n = L + 3
            for posn in (0, n // 2, n - 1):
                vals = [p if i % 2 else r_ for i in range(n)]
                vals[posn] = x
                yield {'op': 'vec', 'values': lit(vals), 'name': 'None', 'limit': limit}
    # tables with a special value in a cell
    for limit in (None, 2):
        L = limit_value(limit)
        for x in SPECIALS:
            p, r_ = companion(x)
            yield {'op': 'tab-sp', 'w': 2, 'n': 1, 'values': lit([x]), 'limit': limit}
            yield {'op': 'tab-sp', 'w': 2, 'n': 2, 'values': lit([p, x]), 'limit': limit}
            n = L + 3
            for posn in (0, n // 2, n - 1):
                vals = [p if i % 2 else r_ for i in range(n)]
                vals[posn] = x
                yield {'op': 'tab-sp', 'w': 2, 'n': n, 'values': lit(vals), 'limit': limit}
    # tables
    widths = list(range(0, 13))
    rows_default = list(range(0, 15))
    for limit in LIMITS:
        L = limit_value(limit)
        rows = rows_default if limit is None else list(range(0, L + 4))
        for w in widths:
            for n in (rows if w else [0]):
                for npat in NAME_PATTERNS:
                    if w == 0 and npat != 'plain':
                        continue
                    for dpat in DTYPE_PATTERNS:
                        yield {'op': 'tab', 'w': w, 'n': n, 'names': npat, 'dtypes': dpat, 'limit': limit}
    # tables wider than the column limit whose odd column (other kind / other nullability) is elided, with visible controls
    for w in (11, 12, 13, 14):
        hidden = list(range(5, w - 5))
        for base, tokens in ODD_KINDS.items():
            for token in tokens:
                for pos in hidden + ['all', 2, w - 1]:
                    for npat in ('plain', 'none'):
                        for limit, n in ((None, 1), (None, 3), (None, 14), (2, 5), (0, 2)):
                            if base == 'int?' and n == 1 and token.endswith('?'):
                                continue                                       # a one-row column cannot be both <kind> and None
                            yield {'op': 'tab', 'w': w, 'n': n, 'names': npat, 'dtypes': f'odd:{base}:{token}:{pos}', 'limit': limit}


def evaluate(case):
    try:
        if case['op'] in ('vec-rw', 'tab-rw'):
            return eval_rw(case)
        return eval_vec(case) if case['op'] == 'vec' else eval_tab(case)
    finally:
        set_repr_rows(None)


def nontrivial(case):
    L = limit_value(case['limit'])
    if case['op'] in ('vec-rw', 'tab-rw'):
        n = len(ev(case['values']))
        return (case['op'], case['family'], case['how'], case['hash_equal'], case['limit'], n > L, case['pos'] == 0, case['pos'] == n - 1)
    if case['op'] == 'vec':
        vals = ev(case['values'])
        rel = 'empty' if not vals else ('below' if len(vals) < L else 'equal' if len(vals) == L else 'above')
        return ('vec', tuple(sorted({type(x).__name__ for x in vals})), rel, case['limit'], case['name'])
    if case['op'] == 'tab-sp':
        vals = ev(case['values'])
        return ('tab-sp', tuple(sorted({type(x).__name__ for x in vals})), len(vals) > L, case['limit'])
    n = case['n']
    rel = 'empty' if not n else ('below' if n < L else 'equal' if n == L else 'above')
    if case['dtypes'].startswith('odd:'):
        _, base, token, pos = case['dtypes'].split(':')
        where = 'all-hidden' if pos == 'all' else ('hidden' if 5 <= int(pos) < case['w'] - 5 else 'visible')
        return ('tab-odd', case['w'], base, token, where, rel, case['limit'], case['names'])
    return ('tab', case['w'] > 10, case['w'] == 0, rel, case['limit'], case['names'], case['dtypes'])


if __name__ == '__main__':
    main('C20', cases, evaluate,
         rule='every dtype x nullable x length 0..limit+3 x limit in {12(default),0,1,2,3,4,5} x 6 names for vectors; 18 special values '
              'alone / paired / inside object vectors / at head, hidden middle and tail of a vector longer than the limit; tables of '
              'width 0..12 x rows 0..14 x 6 name patterns x 4 dtype patterns x 7 limits; tables of width 11..14 whose only odd-typed / '
              'odd-nullability column sits at each elided position (and visible controls); two-column tables with a special cell; '
              'repr / in-place write of one cell (cell, slice, mask; table cell assignment and column views) / repr again, twice, with ordinary and '
              'hash-equal replacement values (-1/-2, 0/2**61-1, 0.0/-0.0, 1/True/1.0 in object columns) vs the repr of a freshly built object. '
              'repr is parsed for footer, header names, dtype tokens and body lines; distinct = (types, length vs limit, limit, names)',
         bound=lambda tier: {'limits': [12, 0, 1, 2, 3, 4, 5], 'max_len': 15, 'max_width': 12, 'max_rows': 14, 'kinds': len(KINDS),
                             'odd_column_widths': [11, 12, 13, 14],
                             'specials': len(SPECIALS), 'rewrite_families': [f for f, _, _ in RW_FAMILIES], 'rewrite_writes': RW_VEC_HOWS + RW_TAB_HOWS,
                             'rewrite_lengths': '1, 3, limit+3 at limits 12 and 2', 'extra_vector_limits': [] if tier == 'quick' else [6, 13, 20]},
         nontrivial=nontrivial)

"""C15 bounded stand-in: alias tracking is exact - no leaked write, no spurious refusal.

A case is a HISTORY of <= 3 (quick) / <= 4 (thorough) statements over the handles x, y, z
(vectors), t, u (tables) and tup (a caller-supplied tuple): creation from a fresh list, two / three
vectors over ONE shared tuple, copy, slice, operation result, tables built by >> / dict / Table([..]),
row slice, row mask, widening by >>, attribute assignment of a column, plain writes, promoting writes,
writes through table columns and table cells, rebinding, and `del handle; gc.collect()`.

Shadow model = the TRUE sharing relation among the live vectors (handles and the columns of live
tables): two vectors share iff they stand over the same non-empty storage tuple.  For every write:
  * if no other live vector shares the target's storage the write must NOT raise AliasError
    (spurious refusal);
  * whatever happens, no other live vector may show different contents afterwards (leaked write);
  * if another live vector does share the storage and the write is not refused, that is recorded
    under its own key (the statement only demands that nothing leaks; see report).
On top of the TRUE relation there is a SPEC relation: only vectors built over one caller tuple may share
(until written / dropped); copies, slices (also whole-vector slices), `<<` with an empty operand, .T,
operation results and table columns are fresh by the statement.  An AliasError on a vector that is fresh
by the spec is a failure even when the implementation really made it share storage with its operand
(key names the operation that produced the unintended sharing).
Two directed families complete the exhaustive histories: D (every derivation that could accidentally
hand back the operand's storage, from a fresh vector / from one of two sharers / from a table column,
followed by every <= 2 (quick) / <= 3 writes, promotions and drops of result and operand) and T (two
vectors over one tuple, for three ladder kinds, followed by every history of <= 5 / <= 6 promoting and
plain writes, drops of either sharer / of the tuple, and NEW vectors over the same tuple: a former sharer
must not stay registered under storage it has left).
Identity-reuse stress after every history: brand-new 2- and 3-element vectors are built from fresh
lists (kept alive so that freed identities are actually recycled) and each is written twice; a fresh
vector shares storage with nothing, so any AliasError there is a spurious refusal.  The key names the
operation that left the live registration under which the refusal happened (the tracker is looked
at only AFTER a refusal, to NAME the culprit; pass / fail is decided by the refused write alone).
"""
import gc

from harness import *  # noqa

_FROZEN = 0

# (name, source, needs, defines, drops, kind)   kind: 'make' | 'write' | 'del'
OPS = [
    ('Vector.new', "x = Vector([1, 2, 3], name='a')", (), ('x',), 'make'),
    ('Vector.new', "y = Vector([4, 5, 6], name='b')", (), ('y',), 'make'),
    ('Vector.shared-tuple', "tup = (1, 2, 3); x = Vector(tup, name='a'); y = Vector(tup, name='b')", (), ('tup', 'x', 'y'), 'make'),
    ('Vector.shared-tuple-third', 'z = Vector(tup)', ('tup',), ('z',), 'make'),
    ('Vector.copy', 'y = x.copy()', ('x',), ('y',), 'make'),
    ('Vector.getitem-slice', 'y = x[0:2]', ('x',), ('y',), 'make'),
    ('Vector.getitem-slice-full', 'z = x[:]', ('x',), ('z',), 'make'),
    ('Vector.add-scalar', 'y = x + 1', ('x',), ('y',), 'make'),
    ('Vector.rshift-vector', 't = x >> y', ('x', 'y'), ('t',), 'make'),
    ('Table.ctor-dict', "t = Table({'a': [1, 2, 3], 'b': [4, 5, 6]})", (), ('t',), 'make'),
    ('Table.ctor-list', 't = Table([x, y])', ('x', 'y'), ('t',), 'make'),
    ('Vector.ctor-nested', 't = Vector([x, y])', ('x', 'y'), ('t',), 'make'),
    ('Table.getitem-slice', 'u = t[0:2]', ('t',), ('u',), 'make'),
    ('Table.getitem-mask', 'u = t[[True, False, True]]', ('t',), ('u',), 'make'),
    ('Table.rshift-vector', 'u = t >> x', ('t', 'x'), ('u',), 'make'),
    ('Table.rshift-dict', "u = t >> {'c': [7, 8, 9]}", ('t',), ('u',), 'make'),
    ('Table.lshift-row', 'u = t << [7, 8]', ('t',), ('u',), 'make'),
    ('Table.getitem-select', "u = t['b', 'a']", ('t',), ('u',), 'make'),
    ('Table.sort_by', "u = t.sort_by('a')", ('t',), ('u',), 'make'),
    ('Table.setattr', 't.a = x', ('t', 'x'), (), 'make'),
    ('Table.setattr-list', 't.b = [7, 8, 9]', ('t',), (), 'make'),
    ('Vector.setitem-int', 'x[0] = 9', ('x',), (), 'write'),
    ('Vector.setitem-int', 'y[0] = 9', ('y',), (), 'write'),
    ('Vector.setitem-int', 'z[0] = 9', ('z',), (), 'write'),
    ('Vector.setitem-slice', 'x[0:2] = [7, 8]', ('x',), (), 'write'),
    ('Vector.setitem-promote', 'x[0] = 1.5', ('x',), (), 'write'),
    ('Vector.setitem-promote', 'y[0] = 1.5', ('y',), (), 'write'),
    ('Table.column-setitem', 't.a[0] = 9', ('t',), (), 'write'),
    ('Table.setitem-cell', 't[0, 1] = 9', ('t',), (), 'write'),
    ('Table.setitem-cell-promote', 't[0, 0] = 1.5', ('t',), (), 'write'),
    ('Table.column-setitem', 'u.a[0] = 9', ('u',), (), 'write'),
    ('del', 'del x; gc.collect()', ('x',), ('-x',), 'del'),
    ('del', 'del y; gc.collect()', ('y',), ('-y',), 'del'),
    ('del', 'del z; gc.collect()', ('z',), ('-z',), 'del'),
    ('del', 'del t; gc.collect()', ('t',), ('-t',), 'del'),
    ('del', 'del u; gc.collect()', ('u',), ('-u',), 'del'),
    ('del', 'del tup; gc.collect()', ('tup',), ('-tup',), 'del'),
]
# statements used only by the directed families D and T (never in the exhaustive alphabet)
DERIVE_FROM_X = [
    ('Vector.lshift-empty-list', 'y = x << []'),
    ('Vector.rlshift-empty-list', 'y = [] << x'),
    ('Vector.lshift-empty-vector', 'y = x << Vector([])'),
    ('Vector.getitem-slice-full', 'y = x[:]'),
    ('Vector.getitem-slice-from0', 'y = x[0:]'),
    ('Vector.getitem-slice-to-n', 'y = x[:3]'),
    ('Vector.getitem-slice-neg-n', 'y = x[-3:]'),
    ('Vector.getitem-slice-over', 'y = x[0:100]'),
    ('Vector.getitem-mask-all', 'y = x[[True, True, True]]'),
    ('Vector.getitem-index-all', 'y = x[[0, 1, 2]]'),
    ('Vector.copy', 'y = x.copy()'),
    ('Vector.T', 'y = x.T'),
    ('Vector.add-zero', 'y = x + 0'),
    ('Vector.pos', 'y = +x'),
    ('Vector.sort_by', 'y = x.sort_by()'),
    ('Vector.cast-same', 'y = x.cast(int)'),
    ('Vector.fillna', 'y = x.fillna(0)'),
    ('Vector.dropna', 'y = x.dropna()'),
]
DERIVE_FROM_T = [
    ('Table.column-slice-to-n', 'y = t.a[:3]'),
    ('Table.column-slice-full', 'y = t.a[:]'),
    ('Table.column-copy', 'y = t.a.copy()'),
    ('Table.column-T', 'y = t.a.T'),
    ('Table.column-lshift-empty', 'y = t.a << []'),
    ('Table.getitem-rows-col', "y = t[0:3, 'a']"),
]
# ladder kinds for family T: kind -> (tuple literal, promoting value, plain value)
# (the tuples are built at run time: a literal of constants would be owned by the compiled statement and never be freed,
#  so `del tup` could not hand its identity to a later object)
KINDS = {
    'int': ('tuple([1, 2, 3])', '1.5', '9'),
    'bool': ('tuple([True, False, True])', '2', 'False'),
    'date': ('(date(2020,1,1), date(2020,1,2), date(2021,5,5))', 'datetime(2022,3,4,5,6)', 'date(2000,1,1)'),
}
EXTRA_OPS = [(n, src, ('x',), ('y',), 'make') for n, src in DERIVE_FROM_X] + \
            [(n, src, ('t',), ('y',), 'make') for n, src in DERIVE_FROM_T] + [
    ('Vector.shared-tuple', "tup = (1, 2, 3); x = Vector(tup, name='a'); z = Vector(tup, name='b')", (), ('tup', 'x', 'z'), 'make'),
    ('Vector.setitem-promote', 'z[0] = 1.5', ('z',), (), 'write'),
    # dropping the tuple WITHOUT a full collection: its identity goes straight back to the interpreter's tuple free list
    # and the next 3-element storage gets it (a full gc.collect() empties the free lists, which makes reuse rare)
    ('del', 'del tup', ('tup',), ('-tup',), 'del'),
]
for _k, (_tup, _p, _q) in KINDS.items():
    EXTRA_OPS.append(('Vector.shared-tuple', f"tup = {_tup}; x = Vector(tup, name='a'); y = Vector(tup, name='b')", (), ('tup', 'x', 'y'), 'make'))
    for _h in 'xyz':
        EXTRA_OPS.append(('Vector.setitem-promote', f'{_h}[0] = {_p}', (_h,), (), 'write'))
        EXTRA_OPS.append(('Vector.setitem-int', f'{_h}[0] = {_q}', (_h,), (), 'write'))
BY_SRC = {o[1]: o for o in EXTRA_OPS}
BY_SRC.update({o[1]: o for o in OPS})
# which vector a write statement goes through (evaluated in the history's namespace, before the write)
WRITE_TARGET = {
    'x[0] = 9': 'x', 'y[0] = 9': 'y', 'z[0] = 9': 'z', 'x[0:2] = [7, 8]': 'x', 'x[0] = 1.5': 'x', 'y[0] = 1.5': 'y',
    't.a[0] = 9': "t['a']", 't[0, 1] = 9': 't.cols()[1]', 't[0, 0] = 1.5': 't.cols()[0]', 'u.a[0] = 9': "u['a']",
}




def _write_target(src):
    if src in WRITE_TARGET:
        return WRITE_TARGET[src]
    return src.split('[')[0]          # handle-level write `h[...] = ...`


CORE_DROP = {"t = Vector([x, y])", "u = t << [7, 8]", "u = t['b', 'a']", "u = t.sort_by('a')", "t.b = [7, 8, 9]", "z = x[:]",
             "x[0:2] = [7, 8]", "t[0, 0] = 1.5", "del tup; gc.collect()", "y = x + 1", "u = t >> {'c': [7, 8, 9]}",
             "y = Vector([4, 5, 6], name='b')", "t[0, 1] = 9", "del z; gc.collect()"}
CORE = [o for o in OPS if o[1] not in CORE_DROP]


def _histories(n, ops, only_len=None):
    def rec(live, k, prefix):
        for name, src, needs, defs, kind in ops:
            if any(x not in live for x in needs):
                continue
            h = prefix + [src]
            if only_len is None or k == only_len:
                yield h
            if k < n:
                l2 = set(live)
                for d in defs:
                    if d.startswith('-'):
                        l2.discard(d[1:])
                    else:
                        l2.add(d)
                yield from rec(l2, k + 1, h)
    yield from rec(set(), 1, [])


def _follow(prefix, live, srcs, n, only_len=None):
    """prefix + every applicable history of 1..n statements drawn from srcs (every prefix is a case)."""
    ops = [BY_SRC[s] for s in srcs]

    def rec(live, k, h):
        for name, src, needs, defs, kind in ops:
            if any(x not in live for x in needs):
                continue
            h2 = h + [src]
            if only_len is None or k == only_len:
                yield h2
            if k < n:
                l2 = set(live)
                for d in defs:
                    if d.startswith('-'):
                        l2.discard(d[1:])
                    else:
                        l2.add(d)
                yield from rec(l2, k + 1, h2)
    yield from rec(set(live), 1, list(prefix))


DEL = {h: f'del {h}; gc.collect()' for h in ('x', 'y', 'z', 't', 'u', 'tup')}


def _family_d(tier):
    n = 2 if tier == 'quick' else 3
    vec_follow = ['y[0] = 9', 'x[0] = 9', 'y[0] = 1.5', 'x[0] = 1.5', DEL['x'], DEL['y']]
    tab_follow = ['y[0] = 9', 't.a[0] = 9', 't[0, 0] = 1.5', 'y[0] = 1.5', DEL['t'], DEL['y']]
    fresh = "x = Vector([1, 2, 3], name='a')"
    shared = "tup = (1, 2, 3); x = Vector(tup, name='a'); z = Vector(tup, name='b')"
    table = "t = Table({'a': [1, 2, 3], 'b': [4, 5, 6]})"
    for _, d in DERIVE_FROM_X:
        yield from _follow([fresh, d], {'x', 'y'}, vec_follow, n)
        yield from _follow([shared, d], {'x', 'y', 'z', 'tup'}, vec_follow + ['z[0] = 9', DEL['z']], n)
    for _, d in DERIVE_FROM_T:
        yield from _follow([table, d], {'t', 'y'}, tab_follow, n)


def _family_t(tier):
    for kind, (tup, p, q) in KINDS.items():
        n = 4 if tier == 'quick' else 5
        prefix = f"tup = {tup}; x = Vector(tup, name='a'); y = Vector(tup, name='b')"
        narrow = [f'x[0] = {p}', DEL['y'], DEL['x'], 'z = Vector(tup)', f'z[0] = {q}', 'del tup']
        follow = narrow + [f'y[0] = {q}', f'z[0] = {p}', DEL['tup']]
        if tier != 'quick':
            follow += [f'x[0] = {q}', DEL['z']]
        yield [prefix]
        yield from _follow([prefix], {'x', 'y', 'tup'}, follow, n)
        # one statement deeper over the statements of the scenario `refused promotion; drop the partner; promotion;
        # new vector over the tuple (or: drop the tuple); write`
        if tier != 'quick' or kind != 'bool':
            yield from _follow([prefix], {'x', 'y', 'tup'}, narrow, n + 1, only_len=n + 1)


def cases(tier, seed):
    # every prefix of a history is itself a case, so the stress runs after every step of every history
    full_n, core_n = (3, 4) if tier == 'quick' else (4, 5)
    for h in _histories(full_n, OPS):
        yield {'hist': h}
    for h in _histories(core_n, CORE, only_len=core_n):
        yield {'hist': h}
    for h in _family_d(tier):
        yield {'hist': h, 'fam': 'D'}
    for h in _family_t(tier):
        yield {'hist': h, 'fam': 'T'}


# --------------------------------------------------------------------------------------------
_CODE = {}
_G = dict(NS)
_G['gc'] = gc


def _compiled(src, mode='exec'):
    c = _CODE.get((src, mode))
    if c is None:
        c = _CODE[(src, mode)] = compile(src, '<history>', mode)
    return c


def _truthful(o):
    try:
        return truthful(o)
    except Exception as e:
        return f'dtype does not describe the contents (rendering the offending value raised {type(e).__name__})'


def _leaves(env):
    """Every live plain vector reachable from the handles: [(label, vector)], one entry per object."""
    out = []
    seen = set()
    for n, o in env.items():
        if isinstance(o, Table):
            for i, c in enumerate(o._underlying):
                if isinstance(c, Vector) and not isinstance(c, Table) and id(c) not in seen:
                    seen.add(id(c))
                    out.append((f'{n}.col{i}', c))
        elif isinstance(o, Vector) and id(o) not in seen:
            seen.add(id(o))
            out.append((n, o))
    return out


def _sharers(target, leaves):
    st = target._underlying
    if len(st) == 0:
        return None           # all empty vectors stand over the interned (): refusing is allowed there
    return [lab for lab, v in leaves if v is not target and v._underlying is st]


def _culprits(storage_id, me, env, origin, replaced):
    """NAMING ONLY: which operation left the live registration found under this storage identity."""
    try:
        from serif.alias_tracker import _ALIAS_TRACKER
        refs = list(_ALIAS_TRACKER._registry.get(storage_id, []))
    except Exception:
        return ['unattributed']
    names = []
    for r in refs:
        o = r()
        if o is None or o is me:
            continue
        lab = None
        for n, h in env.items():
            if h is o:
                # storage replaced later without moving the registration -> that op; else the creating op
                lab = replaced.get(n, {}).get(storage_id) or origin.get(n, n)
            elif isinstance(h, Table) and any(c is o for c in h._underlying):
                lab = origin.get(n, n) + '.column'
        names.append(lab or ('untracked-' + type(o).__name__))
    return sorted(set(names)) or ['unattributed']


def _stress(env, origin, replaced, hist, fails, n, sizes=(2, 3)):
    """Brand-new vectors over fresh lists, all kept alive (so that freed identities are really handed out
    again), each written twice (the second write probes the identities handed out by the first)."""
    reported = set()
    for size in sizes:
        hold = [Vector([1000 + i + j for j in range(size)]) for i in range(n)]
        for rnd in (1, 2):
            for w in hold:
                sid = id(w._underlying)
                try:
                    w[0] = -rnd
                except AliasError:
                    who = '+'.join(_culprits(sid, w, env, origin, replaced))
                    key = f'C15:fresh-vector:spurious-refusal:{who}'
                    if key not in reported:
                        reported.add(key)
                        fails.append(Fail(key, f'{hist}; then a brand-new {size}-element vector Vector([..fresh list..]) '
                                               f'refuses its write #{rnd} `w[0] = {-rnd}` with AliasError although nothing shares its '
                                               f'storage (a live object is still registered under that recycled identity, left by: {who})',
                                          'write succeeds', 'AliasError'))
                except Exception as e:
                    fails.append(Fail('C15:fresh-vector:write-raised', f'{hist}; fresh vector write raised {type(e).__name__}: {e}'))
        del hold


def _note_replaced(env, st0, replaced, name):
    for n, (oid, sid) in st0.items():
        o = env.get(n)
        if o is not None and id(o) == oid and id(o._underlying) != sid:
            replaced.setdefault(n, {})[sid] = name


class _Spec:
    """SPEC sharing relation: which vector handles stand (by the statement) over one caller tuple."""

    def __init__(self):
        self.group = {}       # vector handle -> token of the caller tuple it still stands over (None: fresh)
        self.born = {}        # handle -> sequence number of the statement that (re)bound it
        self.tuptoken = None
        self.clock = 0

    def made(self, name, defs, env):
        self.clock += 1
        if 'tup' in defs:
            # token = identity of the tuple (a literal of constants is owned by the compiled statement: re-running the
            # statement binds the SAME object again; a run-time tuple stays alive as long as a member stands over it)
            self.tuptoken = id(env['tup'])
        for d in defs:
            if d.startswith('-'):
                self.group.pop(d[1:], None)
                self.born.pop(d[1:], None)
                if d == '-tup':
                    self.tuptoken = None      # nobody can join any more; present members still share
            elif d != 'tup':
                self.born[d] = self.clock
                if d in ('x', 'y', 'z'):
                    self.group[d] = self.tuptoken if name.startswith('Vector.shared-tuple') else None

    def sharers(self, handle, env):
        tok = self.group.get(handle)
        if handle is None or tok is None:
            return []
        return [h for h, t in self.group.items() if h != handle and t == tok and h in env]


def _make_step(env, src, name, defs, origin, replaced, hist, fails):
    """Creation / derivation / del step.  Returns False when the rest of the history is undefined.
    (All temporaries live in this frame only: the monitor must not keep dropped objects alive.)"""
    st0 = {n: (id(o), id(o._underlying)) for n, o in env.items() if isinstance(o, Vector)}   # identities only, no references
    try:
        exec(_compiled(src), _G, env)
    except Exception:
        return False          # derivation not available on these operands
    ok = True
    for d in defs:
        if d.startswith('-'):
            origin.pop(d[1:], None)
            replaced.pop(d[1:], None)
        elif d != 'tup':
            origin[d] = name
            replaced.pop(d, None)
            m = _truthful(env.get(d))
            if m:
                fails.append(Fail(f'C03:{name}:truthful', f'{hist}: {m}'))
            if d in ('t', 'u') and not isinstance(env.get(d), Table):
                ok = False
    _note_replaced(env, st0, replaced, name)
    return ok


def _write_step(env, src, name, origin, replaced, hist, fails, spec):
    tname = _write_target(src)
    handle = tname if tname in ('x', 'y', 'z') else None        # None: a table column (fresh by the statement)
    spec_sharers = spec.sharers(handle, env)
    try:
        target = eval(_compiled(_write_target(src), 'eval'), _G, env)
    except Exception:
        return False
    if not isinstance(target, Vector) or isinstance(target, Table):
        return False
    leaves = _leaves(env)
    shared = _sharers(target, leaves)
    before = [(lab, v, tuple(map(repr, v._underlying))) for lab, v in leaves if v is not target]
    sid = id(target._underlying)
    exc = None
    try:
        exec(_compiled(src), _G, env)
    except Exception as e:
        exc = type(e)         # (the exception object itself would keep this frame and the history alive)
    for lab, v, snap in before:
        nowv = tuple(map(repr, v._underlying))
        if nowv != snap:
            rel = 'sharer' if shared and lab in shared else 'non-sharer'
            fails.append(Fail(f'C15:{name}:leaked-write:{rel}', f'{hist}: the write changed the other live vector {lab}', snap, nowv))
    if exc is not None and issubclass(exc, AliasError):
        if shared is not None and not shared:
            who = '+'.join(_culprits(sid, target, env, origin, replaced))
            fails.append(Fail(f'C15:fresh-vector:spurious-refusal:{who}',
                              f'{hist}: AliasError although no other live vector shares the storage of the written vector '
                              f'(a live object is still registered under that identity, left by: {who})', 'write succeeds', 'AliasError'))
        elif shared and not spec_sharers:
            # really shares, but with vectors that are fresh by the statement (copy / slice / operation result /
            # table column ...): the youngest object involved was produced by the operation that made them share
            owner = handle or tname.split('.')[0].split('[')[0]
            involved = [owner] + [lab.split('.')[0] for lab in shared]
            young = max(involved, key=lambda h: spec.born.get(h, 0))
            culprit = origin.get(young, young) + ('.column' if isinstance(env.get(young), Table) else '')
            fails.append(Fail(f'C15:{culprit}:result-shares-operand-storage:refused',
                              f'{hist}: AliasError, the written vector really shares storage with {shared}, but by the statement it is '
                              f'fresh (only vectors built over one caller tuple may share): a copy / slice / operation result / table '
                              f'column must be writable while its operand is alive, and the operand too', 'write succeeds', 'AliasError'))
    elif exc is None:
        if handle is not None:
            spec.group[handle] = None         # a written vector has left the shared storage
        if shared:
            fails.append(Fail(f'C15:{name}:shared-write-not-refused',
                              f'{hist}: the written vector shares storage with {shared} but the write was accepted '
                              f'(copy-on-write kept it local)', 'AliasError', 'accepted'))
        m = _truthful(target)
        if m:
            fails.append(Fail(f'C03:{name}:truthful', f'{hist}: {m}'))
    return True


def evaluate(case):
    global _FROZEN
    _FROZEN += 1
    if _FROZEN % 1000 == 1:
        # park everything allocated so far (interpreter, serif, the driver's own bookkeeping) in the permanent
        # generation so that the histories' own gc.collect() calls stay cheap; semantics unchanged
        gc.collect()
        gc.freeze()
    fails = []
    env = {}
    spec = _Spec()
    origin = {}               # handle -> operation that created the object
    replaced = {}             # handle -> {former storage identity: operation that replaced the storage}
    done = []
    for src in case['hist']:
        name, _, needs, defs, kind = BY_SRC[src]
        if any(n not in env for n in needs):
            break
        done.append(src)
        hist = '; '.join(done)
        if kind != 'write':
            if not _make_step(env, src, name, defs, origin, replaced, hist, fails):
                break
            spec.made(name, defs, env)
        elif not _write_step(env, src, name, origin, replaced, hist, fails, spec):
            break
    hist = '; '.join(done)
    if case.get('fam') == 'T':
        _stress(env, origin, replaced, hist, fails, 6, (3, 2))     # the storage dropped in these histories has 3 elements
    else:
        _stress(env, origin, replaced, hist, fails, 6 if case.get('fam') else 12)
    return fails


def nontrivial(case):
    h = case['hist']
    kinds = [BY_SRC[s][4] for s in h]
    if 'write' in kinds or 'del' in kinds:
        return tuple(h)
    return None


if __name__ == '__main__':
    main('C15', cases, evaluate,
         rule='every applicable history over a 37-statement alphabet (fresh vectors, 2-3 vectors over one shared tuple, copy, '
              'slice, op result, tables by >> / dict / Table([..]) / Vector([..]), row slice, mask, >> widening, << row, select, '
              'sort, attribute assignment, plain / slice / promoting writes, writes through table columns and cells, del + '
              'gc.collect of every handle and of the shared tuple); monitor = true sharing relation among live vectors; after '
              'every history an identity-reuse stress on brand-new 2- and 3-element vectors (held alive, written twice). '
              'Plus a SPEC sharing relation (only vectors over one caller tuple may share; derivations and table columns are '
              'fresh): a refusal on a spec-fresh vector fails even if it really shares. Family D: 18 vector derivations that '
              'could hand back the operand storage (<< with an empty operand both ways, whole-vector slices [:], [0:], [:n], [-n:], '
              '[0:100], all-true mask, copy, T, +0, unary +, sort_by, cast, fillna, dropna) from a fresh vector and from one of two '
              'sharers, 6 table-column derivations, each followed by every history of writes / promotions / drops of result and '
              'operand. Family T: two vectors over one tuple (int, bool, date ladders) followed by every history of promoting / '
              'plain writes, drops of sharers and of the tuple, and new vectors over the same tuple. '
              'distinct = distinct histories containing a write or a del',
         bound=lambda tier: {'max_steps_full_alphabet': 3 if tier == 'quick' else 4,
                             'max_steps_core_alphabet(23 statements)': 4 if tier == 'quick' else 5,
                             'vector_len': 3, 'handles': 'x,y,z,t,u,tup',
                             'stress_vectors_per_size': '12 (families D, T: 6), all held alive, each written twice',
                             'family_D_follow_steps': 2 if tier == 'quick' else 3,
                             'family_T_follow_steps': '4 (9 statements) + 5 (6 scenario statements; int, date)' if tier == 'quick'
                             else '5 (11 statements) + 6 (6 scenario statements)'},
         nontrivial=nontrivial)

"""C13 bounded stand-in: window() keeps every row in place and agrees with aggregate().

For every table of the C12 enumerator (smaller budget: two serif calls per case):
  * the result has the same number of rows as the input, in the same order;
  * the partition key columns come first and equal the input key columns cell by cell;
  * every row holds, for every requested aggregate (and the apply column), the value that
    aggregate() with the same arguments computes for that row's group - looked up through the
    row's key tuple in aggregate()'s output - and the value of the hand-written oracle
    (relational_common.textbook over the hand-grouped rows); hence rows of one group agree;
  * the input is not modified.
Output columns are located by their documented names ('v_<fn>', the apply dict key).
The enumerator includes (relational_common.extra_agg_blocks): keys that differ but collide in hash,
over=[] (zero partition keys: one whole-table partition - window keeps the row count and gives
every row the grand total, consistent with aggregate), bool and all-None value columns with the
result-dtype check, and groups of exactly one row (a None value gives sum 0, count 0, others None,
as in aggregate).  Failure keys of the zero-key / hash-colliding families use the call sites
'window-zero-keys' / 'window-hash-colliding-keys'.
Histories (op 'repeat', see relational_common.repeat_cases) and stdev precision against an exact
Fraction reference (op 'precision') are run for window() as C12 runs them for aggregate().
Sequence-style apply functions (op 'seqapply': len(), indexing, slicing, reversed(), two passes over the
argument) and exact means of big-int / Fraction / Decimal / float columns (op 'exactmean') are run for
window() as in C12: every row gets what the function / Python's sum/len gives on the plain list of its
group's values, and window agrees with aggregate() called with the same arguments.
Key columns reproduced UNCHANGED, read strictly: every cell of the first nk result columns is the very same
value as the input key cell (type and repr: True is not 1 is not 1.0, -0.0 is not 0.0) and each key column
keeps the dtype of the input key column.  Blocks 'eqkeys-*' (relational_common) enumerate partitions whose
key cells are equal (one partition) but distinguishable - signed zeros, bool / int / float, 2 / 2.0 - in one
and two key columns, None keys included; failure keys '<site>:key-columns:cell-changed' / ':dtype-changed'.
Apply functions that modify their argument (op 'mutapply', see C12 / relational_common.mut_apply_cases): every
output column of one window() call holds what its function gives on a FRESH plain list of the row's group.
Same-name value vectors (op 'samename', relational_history, as in C12): two vectors named 'v' with different contents given to
different aggregate arguments of one window() call; every row gets the textbook value over the vector that was PASSED, and window
agrees with aggregate() called with the same arguments; failure keys 'window-same-name-vectors:...'.
Repeat the call after a write (op 'rewrite', relational_history, as in C12): window, rewrite one key cell (or value cell) in place
(column view, held view, t['k'][i], slice / mask write, table cell assignment; ordinary and hash-colliding old / new values
-1/-2, 0/2**61-1, -1.0/-2.0; one key column or one of two), window again: oracle on the NEW contents and agreement with aggregate()
on the rewritten table; failure keys 'window-after-write:<key|value>-cell-rewritten:<how>:stale-...'.
"""
from relational_common import *  # noqa
from relational_history import *  # noqa

PID = 'C13'
OP = 'window'


def cases(tier, seed):
    yield from agg_cases(tier, OP, heavy=True)
    yield from repeat_cases(tier, OP, variants=['ext', 'view-name'] if tier == 'quick' else None)
    yield from precision_cases(tier)
    yield from seq_apply_cases(tier, OP)
    yield from exactmean_cases(tier)
    yield from mut_apply_cases(tier, OP)
    yield from samename_cases(tier, OP)
    yield from rewrite_cases(tier, OP)


def descr_of(case):
    return f"window(over={case['mode']} x{case['nk']}, aggs={case['aggs']}, apply={case['apply']}) on rows(keys..., v)={case['rows']}"


def eval_precision(case):
    fails = []
    vals = case['vals']
    keys, grows = precision_groups(case)
    descr = f"stdev of {vals!r} ({case['family']}, {case['layout']})"
    per_group = [exact_stdev([vals[i] for i in rows]) for rows in grows]
    want = [None] * len(vals)
    for g, rows in enumerate(grows):
        for i in rows:
            want[i] = per_group[g]
    try:
        t = Table([Vector(list(keys), name='g'), Vector(list(vals), name='v')])
    except Exception as e:
        return [Fail(f'{PID}:setup:raises:{type(e).__name__}', f'{descr}: building the table raised {e!r}', None, repr(e))]
    try:
        res = t.window(over='g', stdev_over='v')
        col = out_column(res, 'v_stdev')
        m = truthful(res)
        if m:
            fails.append(Fail(f'C03:{OP}:truthful', f'{descr}: {m}', None, m))
        if col is None or len(col) != len(want) or not all(precise(a, b, vals) for a, b in zip(col, want)):
            fails.append(Fail(f'{PID}:{OP}:stdev:precision', f'{descr}: window(stdev_over) = {col!r}; exact sample standard deviation of each '
                                                              f'row\'s group = {want!r} (relative tolerance {REL_TOL})', want, col, f'{PID}:{OP}:stdev:elem'))
    except Exception as e:
        fails.append(Fail(f'{PID}:{OP}:stdev:precision-raises', f'{descr}: window(stdev_over) raised {e!r}', want, repr(e), f'{PID}:{OP}:stdev:elem'))
    return fails


def eval_seqapply(case):
    descr = f"window(over={case['mode']} x{case['nk']}, apply=<functions that use their argument as a list>) on rows(keys..., v)={case['rows']}"
    try:
        s = SeqApplySetup(case)
        s2 = SeqApplySetup(case)
    except Exception as e:
        return [Fail(f'{PID}:setup:raises:{type(e).__name__}', f'{descr}: building the table raised {e!r}', None, repr(e))]
    before = s.snapshot()
    site = agg_site(OP, case)
    fails = []
    expected = seq_apply_expected(OP, s.keys, s.vals)
    try:
        res = s.T.window(s.over, **s.kwargs)
    except Exception as e:
        name = s.running[0]
        cap = SEQ_APPLY[name][1] if name else 'outside-the-function'
        return [Fail(f'{PID}:{site}:apply-sequence-argument:{cap}:raises:{type(e).__name__}',
                     f'{descr}: raised {e!r}' + (f' while apply function {name!r} was using its argument as a list ({cap})' if name else ''),
                     expected, repr(e), f'{PID}:{OP}:apply')]
    try:
        m = truthful(res)
        if m:
            fails.append(Fail(f'C03:{OP}:truthful', f'{descr}: {m}', None, m))
        n, nk = len(s.keys), s.nk
        if len(res) != n or any(len(c._underlying) != n for c in res.cols()):
            return fails + [Fail(f'{PID}:{site}:row-count', f'{descr}: {len(res)} rows for an input of {n} rows', n, len(res), f'{PID}:{OP}:expand:post')]
        check_seq_apply(PID, OP, site, res, expected, fails, descr)
        # window = aggregate expanded back to the rows (same functions, fresh table)
        try:
            agg = s2.T.aggregate(s2.over, **s2.kwargs)
        except Exception as e:
            return fails + [Fail(f'{PID}:aggregate:apply-sequence-argument:raises:{type(e).__name__}', f'{descr}: the companion aggregate() call raised {e!r}',
                                 None, repr(e))]
        agg_keys = [tuple(list(c._underlying)[i] for c in agg.cols()[:nk]) for i in range(len(agg))]
        for name in SEQ_APPLY:
            col, acol = out_column(res, f'f_{name}'), out_column(agg, f'f_{name}')
            if col is None or acol is None:
                continue
            via = []
            for key in s.keys:
                hits = [acol[g] for g, k in enumerate(agg_keys) if k == key]
                via.append(hits[0] if len(hits) == 1 else ('<no unique aggregate row for key>', key))
            if not all(close(a, b) if isinstance(b, float) or b is None else a == b for a, b in zip(col, via)):
                fails.append(Fail(f'{PID}:{site}:apply-sequence-argument:differs-from-aggregate',
                                  f'{descr}: column f_{name} differs from aggregate() looked up through each row\'s key', via, col,
                                  f'{PID}:lemma:window=aggregate-join-rows'))
                break
    except Exception as e:
        fails.append(Fail(f'{PID}:{site}:malformed-result', f'{descr}: result could not be read: {e!r}', None, repr(e)))
    if s.snapshot() != before:
        fails.append(Fail(f'{PID}:{site}:input-modified', f'{descr}: the table or a key vector changed', before, s.snapshot()))
    return fails


def eval_exactmean(case):
    fails = []
    fam = case['family']
    vals = exactmean_vals(case)
    keys, grows = exactmean_groups(case)
    descr = f"mean of {vals!r} ({fam}, {case['layout']})"
    try:
        t = Table([Vector(list(keys), name='g'), Vector(list(vals), name='v')])
    except Exception as e:
        if all(x is None for x in vals):
            return []
        return [Fail(f'{PID}:setup:raises:{type(e).__name__}', f'{descr}: building the table raised {e!r}', None, repr(e))]
    try:
        res = t.window(over='g', mean_over='v')
        col = out_column(res, 'v_mean')
        m = truthful(res)
        if m:
            fails.append(Fail(f'C03:{OP}:truthful', f'{descr}: {m}', None, m))
        if col is None or len(col) != len(vals):
            return fails + [Fail(f'{PID}:{OP}:mean:{fam}:missing', f'{descr}: window(mean_over) gave column {col!r}', len(vals), col)]
        for g, rows in enumerate(grows):
            gv = [vals[i] for i in rows]
            bad = [(i, mean_verdict(fam, col[i], gv)) for i in rows]
            bad = [(i, b) for i, b in bad if b]
            if bad:
                i, b = bad[0]
                fails.append(Fail(f'{PID}:{OP}:mean:{fam}:{b[0]}', f'{descr}: window(mean_over) gives {col[i]!r} in row {i}, whose group holds {gv!r}; '
                                  f'sum/len of its non-None values is {b[1]!r}', b[1], col[i], f'{PID}:{OP}:mean:elem'))
                break
    except Exception as e:
        return fails + [Fail(f'{PID}:{OP}:mean:{fam}:raises:{type(e).__name__}', f'{descr}: window(mean_over) raised {e!r}', None, repr(e), f'{PID}:{OP}:mean:elem')]
    try:
        agg = t.aggregate(over='g', mean_over='v')
        acol, akeys = out_column(agg, 'v_mean'), out_column(agg, 'g')
        via = [acol[akeys.index(k)] for k in keys]
        def agree(a, b):
            if isinstance(a, float) and isinstance(b, float):
                return a == b or abs(a - b) <= MEAN_REL_TOL * max(abs(a), abs(b))
            return type(a) is type(b) and a == b
        if not all(agree(a, b) for a, b in zip(col, via)):
            fails.append(Fail(f'{PID}:{OP}:mean:{fam}:differs-from-aggregate', f'{descr}: window(mean_over) = {col!r}; aggregate(mean_over) looked up through '
                              f'each row\'s key = {via!r}', via, col, f'{PID}:lemma:window=aggregate-join-rows'))
    except Exception as e:
        fails.append(Fail(f'{PID}:aggregate:mean:{fam}:raises:{type(e).__name__}', f'{descr}: the companion aggregate() call raised {e!r}', None, repr(e)))
    return fails


def evaluate(case):
    if case['op'] == 'repeat':
        return eval_repeat(PID, case)
    if case['op'] == 'samename':
        return eval_samename(PID, case)
    if case['op'] == 'rewrite':
        return eval_rewrite(PID, case)
    if case['op'] == 'seqapply':
        return eval_seqapply(case)
    if case['op'] == 'exactmean':
        return eval_exactmean(case)
    if case['op'] == 'precision':
        return eval_precision(case)
    if case['op'] == 'mutapply':
        return eval_mutapply(PID, case)
    descr = descr_of(case)
    try:
        s = AggSetup(case)
    except Exception as e:
        return [Fail(f'{PID}:setup:raises:{type(e).__name__}', f'{descr}: building the table raised {e!r}', None, repr(e))]
    before = s.snapshot()
    fails = []
    site = agg_site(OP, case)
    try:
        key_sigs = [schema_sig(c) for c in input_key_columns(s)]
    except Exception:
        key_sigs = None
    try:
        res = s.T.window(s.over, **s.kwargs)
    except Exception as e:
        return [Fail(f'{PID}:{site}:raises:{type(e).__name__}', f'{descr}: raised {e!r}', None, repr(e), f'{PID}:{OP}:post')]
    try:
        _check(case, s, res, fails, descr, site, key_sigs)
    except Exception as e:      # malformed result -> failure, never a harness crash
        fails.append(Fail(f'{PID}:{site}:malformed-result', f'{descr}: result could not be read: {e!r}', None, repr(e)))
    if s.snapshot() != before:
        fails.append(Fail(f'{PID}:{site}:input-modified', f'{descr}: the table or a key vector changed', before, s.snapshot()))
    return fails


def _check(case, s, res, fails, descr, OP=OP, key_sigs=None):
    nk, n = s.nk, len(s.keys)
    m = truthful(res)
    if m:
        fails.append(Fail(f'C03:{OP}:truthful', f'{descr}: {m}', None, m))
    want_cols = nk + len(case['aggs']) + (1 if case['apply'] else 0)
    if len(res.cols()) != want_cols:
        fails.append(Fail(f'{PID}:{OP}:column-count', f'{descr}: {len(res.cols())} columns, expected {nk} key columns + one per aggregate',
                          want_cols, list(res.column_names())))
        return
    if len(res) != n or any(len(c._underlying) != n for c in res.cols()):
        fails.append(Fail(f'{PID}:{OP}:row-count', f'{descr}: {len(res)} rows for an input of {n} rows', n,
                          [len(c._underlying) for c in res.cols()], f'{PID}:{OP}:expand:post'))
        return
    got_keys = [tuple(list(c._underlying)[i] for c in res.cols()[:nk]) for i in range(n)]
    # "reproduces the partition key columns unchanged", read strictly (cell identity, column dtype)
    changed = key_columns_changed(res, key_sigs, s.keys) if key_sigs is not None and len(key_sigs) == nk else None
    if changed and (changed[0] == 'dtype-changed' or all(a == b for a, b in zip(got_keys, s.keys))):
        # every row still shows a key EQUAL to its own, but not the same cell / not the same column dtype
        fails.append(Fail(f'{PID}:{OP}:key-columns:{changed[0]}', f'{descr}: the first {nk} columns are not the input key columns unchanged '
                          f'({changed[0]}: input {changed[1]!r}, result {changed[2]!r})', changed[1], changed[2], f'{PID}:{OP}:expand:post'))
        return
    if not rows_same(got_keys, s.keys):
        cls = 'row-order' if Counter(map(rkey, got_keys)) == Counter(map(rkey, s.keys)) else 'key-columns'
        fails.append(Fail(f'{PID}:{OP}:{cls}', f'{descr}: the first {nk} columns are not the input key columns, row by row',
                          s.keys, got_keys, f'{PID}:{OP}:expand:post'))
        return

    # aggregate() with the same arguments (fresh recording function so the logs stay apart)
    s2 = AggSetup(case)
    try:
        agg = s2.T.aggregate(s2.over, **s2.kwargs)
        agg_keys = [tuple(list(c._underlying)[i] for c in agg.cols()[:nk]) for i in range(len(agg))]
    except Exception as e:
        fails.append(Fail(f'{PID}:aggregate:raises:{type(e).__name__}', f'{descr}: the companion aggregate() call raised {e!r}', None, repr(e)))
        agg, agg_keys = None, []

    def lookup(col, key):
        hits = [col[g] for g, k in enumerate(agg_keys) if k == key]
        return hits[0] if len(hits) == 1 else ('<no unique aggregate row for key>', key, len(hits))

    order, grows = group_by_hand(s.keys)
    group_of = [next(g for g, k in enumerate(order) if k == key) for key in s.keys]
    outs = [(a, f'v_{a}') for a in case['aggs']] + ([('apply', 'rec')] if case['apply'] else [])
    for agg_name, colname in outs:
        col = out_column(res, colname)
        if col is None:
            fails.append(Fail(f'{PID}:{OP}:{agg_name}:missing-column', f'{descr}: no output column {colname}', colname,
                              list(res.column_names())))
            continue
        # (a) hand oracle
        if agg_name == 'apply':
            per_group = [apply_value([s.vals[i] for i in rows]) for rows in grows]
            eq = lambda a, b: a == b            # noqa: E731
        else:
            per_group = [textbook(agg_name, [s.vals[i] for i in rows]) for rows in grows]
            eq = close
        want = [per_group[g] for g in group_of]
        if not all(eq(a, b) for a, b in zip(col, want)):
            per_row_consistent = all(eq(col[i], col[j]) for i in range(n) for j in range(n) if group_of[i] == group_of[j])
            cls = 'value' if per_row_consistent else 'rows-of-one-group-differ'
            fails.append(Fail(f'{PID}:{OP}:{agg_name}:{cls}', f'{descr}: {colname} is not the group value expanded to the rows', want, col,
                              f'{PID}:{OP}:{agg_name}:elem'))
        elif case.get('dtypes') and agg_name != 'apply':
            check_result_dtype(PID, OP, agg_name, named_column(res, colname), want, fails, descr)
        # (b) aggregate() joined back on the key
        if agg is not None:
            acol = out_column(agg, colname)
            if acol is None:
                continue
            via = [lookup(acol, key) for key in s.keys]
            if not all(eq(a, b) for a, b in zip(col, via)):
                fails.append(Fail(f'{PID}:{OP}:{agg_name}:differs-from-aggregate',
                                  f'{descr}: {colname} differs from aggregate() looked up through each row\'s key', via, col,
                                  f'{PID}:lemma:window=aggregate-join-rows'))


def nontrivial(case):
    if case.get('op') in ('samename', 'rewrite'):
        return history_signature(case)
    return agg_signature(case)


if __name__ == '__main__':
    main(PID, cases, evaluate,
         rule='every table of each block in `bound`: window(...) has the input row count and order, key columns unchanged, and each '
              'aggregate / apply column equals (a) the hand oracle expanded to rows and (b) aggregate(...) with the same arguments '
              'looked up through each row\'s key tuple; input unchanged; plus call histories on one table object and stdev of '
              'large-offset values vs an exact Fraction reference (relative 1e-9), as in C12; plus apply functions that use their argument as a '
              'list and means of big-int / Fraction / Decimal / float columns (vs Python sum/len in the element type and vs aggregate); key columns compared '
              'cell by cell at type + repr level and by dtype, over partitions whose key cells are equal but distinguishable (0.0/-0.0, True/1/1.0, 2/2.0); '
              'apply functions that modify their argument, each vs the function on a fresh list; two same-named vectors with different contents in one call; call / in-place cell write (hash-colliding values '
              'included) / call again histories vs the oracle on the new contents and vs aggregate. distinct = distinct (nk, mode, rows, groups, interleaved, '
              'all-None group, None key, aggs, apply) signatures',
         bound=lambda tier: dict(agg_bound(tier, heavy=True),
                                 repeat_variants=['ext', 'view-name'] if tier == 'quick' else REPEAT_VARIANTS,
                                 precision_families=[f for f, _ in PRECISION_FAMILIES], precision_len=[2, 4 if tier == 'quick' else 5],
                                 seq_apply_functions=SEQ_APPLY_NAMES, exact_mean_families={f: [repr(x) for x in p] for f, p in EXACT_MEAN_FAMILIES},
                                 exact_mean_len=[1, 3 if tier == 'quick' else 4], mutating_apply_functions=MUT_APPLY_NAMES,
                                 same_name_vector_pairs=SAMENAME_HOWS, same_name_plans=len(SAMENAME_PLANS),
                                 rewrite_writes=REWRITE_HOWS, rewrite_key_pairs=[p[0] for p in REWRITE_KEY_PAIRS], rewrite_value_pairs=[p[0] for p in REWRITE_VAL_PAIRS]),
         nontrivial=nontrivial)

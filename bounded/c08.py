"""C08 bounded stand-in: in-place assignment matches list assignment, promotes or rejects, is atomic.

Scope (exhaustive inside it): vectors of length 0..4 of 7 dtypes (int, float, str, bool, nullable
int, object, date) x
  * key forms: every int index -n-1..n, every slice of a reduced cube (start/stop in
    {None,-5,-2,-1,0,1,2,3,5}, step in {None,-2,-1,1,2}), every boolean mask (Vector and list) of
    length n and n+-1, every index list / tuple / int-vector of length 1..2 over -n-1..n;
  * value forms: 8 pool scalars (None, fitting, narrower, wider, twice wider, foreign kinds),
    same-length sequences over the symbols {fits, narrower, wider, wider2, foreign, None} (all
    sequences for <= 2 positions, single/paired placements for 3..4), wrong-length sequences,
    tuple / Vector containers, and a sized iterable that raises at each position while consumed.
  The full key cube is run with 4 representative values on int / nullable-int vectors; the full
  value set is run on one key per distinct addressed-position tuple for every dtype.
  * tables up to 3x3: cell / row / column / region assignment with fitting, wider, None and
    foreign values, wrong shapes and out-of-range indices; rename_columns with every old/new list
    of length <= 2 over {a, b, c, missing} (and length mismatch).
  * ONE multi-value write whose values need two or more different promotions, every order
    (int <- float + complex, bool <- int + float + complex, date <- date + datetime, with narrower values and
    None mixed in), lengths 2 and 3, through slice / mask / index-list / index-vector keys on vectors and through
    table column and table region writes: final kind covers every element, existing elements converted;
  * failing multi-value writes that mix None with an incompatible value in every order (and with a wider
    value in front): contents, kind, nullable flag, name and fingerprint unchanged, on vectors and table columns;
  * table writes addressed by column NAME as the first access after a rename through a live view
    (t['a'].name = 'z', t.a.name, t.cols()[i].name, renamed twice, two columns swapping names): the new name
    writes its column, the old name must raise and change nothing; the same on tables whose names differ only
    in case / sanitisation (reported under one key of its own).
  * "fails for any reason": writes during which a CONVERSION raises ('unconv' block).  Int / nullable-int
    columns of length 1..3 that hold an int no float can represent (10**400, -10**400, at every position) receive
    float / complex scalars and sequences (wider value first / last, with None, list / tuple / Vector) through
    every key form (one key per addressed-position tuple), so promoting the existing elements raises
    OverflowError; float / complex / int / bool columns receive such an int as (part of) the written value; the
    same through table cell, column, row and region writes.  If the write raises, values, element types, schema,
    name and fingerprint must be exactly what they were (key '...:not-atomic-when-<which>-conversion-raises');
    if it does not raise, the contents must equal (==) list assignment.
Oracle: a pure-Python model (list assignment on the addressed positions + the kind lattice).
Any raise must leave view(v) and v.fingerprint() exactly as before.
"""
import itertools
from datetime import date, datetime

from harness import *  # noqa
from serif.errors import SerifTypeError

STRICT_TABLE_ATOMIC = False      # a multi-column table write that fails half-way: statement undecided

_EV = {}


def cev(src):
    if src not in _EV:
        _EV[src] = ev(src)
    x = _EV[src]
    if isinstance(x, list):
        return list(x)
    if isinstance(x, dict):
        return {k: list(v) for k, v in x.items()}
    return x


D, D2, D3, D4 = date(2020, 1, 31), date(2021, 3, 1), date(2019, 12, 31), date(2020, 2, 29)
DTM = datetime(2022, 5, 6, 7, 8)

BASE = {
    'int': ([1, 2, 3, 4], int, 'n'),
    'float': ([1.5, 2.5, 3.5, 4.5], float, 'f'),
    'str': (['a', 'b', 'c', 'd'], str, None),
    'bool': ([True, False, True, False], bool, 'flag'),
    'nint': ([1, None, 3, None], int, 'maybe'),
    'object': ([1, 'a', 2.5, (1,)], object, 'o'),
    'date': ([D, D2, D3, D4], date, 'when'),
}
DTM2, DTM3 = datetime(2023, 1, 2, 3, 4), datetime(2019, 9, 8, 7, 6)
BASE2 = dict(BASE, datetime=([DTM, DTM2, DTM3, DTM], datetime, 'stamp'))      # strengthen blocks only
# symbols: F fits, n narrower, W wider, V wider still, X foreign, N None
SYM = {
    'int': {'F': [7, 8, 9, 10], 'n': True, 'W': 2.5, 'V': 1j, 'X': 'x'},
    'float': {'F': [7.5, 8.5, 9.5, 10.5], 'n': 7, 'W': 1j, 'X': 'x'},
    'str': {'F': ['p', 'q', 'r', 's'], 'X': 5},
    'bool': {'F': [False, True, False, True], 'W': 5, 'V': 2.5, 'X': 'x'},
    'nint': {'F': [7, 8, 9, 10], 'n': True, 'W': 2.5, 'V': 1j, 'X': 'x'},
    'object': {'F': ['zz', 3, (2,), 4.5]},
    'date': {'F': [D4, D3, D2, D], 'W': DTM, 'X': 5},
}
SCALARS = [None, 7, True, 2.5, 1j, 'x', D, DTM]
CUBE_STARTS = [None, -5, -2, -1, 0, 1, 2, 3, 5]
CUBE_STEPS = [None, -2, -1, 1, 2]


class Boom:
    """Sized iterable that raises while being consumed, at position p."""

    def __init__(self, vals, p):
        self.vals, self.p = list(vals), p

    def __len__(self):
        return len(self.vals)

    def __iter__(self):
        for i, x in enumerate(self.vals):
            if i == self.p:
                raise RuntimeError(f'boom at {i}')
            yield x
        if self.p >= len(self.vals):
            raise RuntimeError('boom at end')


# --------------------------------------------------------------------------------------------
# model
# --------------------------------------------------------------------------------------------

def kind_join(k, t):
    """Kind after accepting a value of type t into a column of kind k; None if incompatible."""
    if k is None:
        return None
    if belongs(t, k):
        return k
    if belongs(k, t) and t is not object:
        return t
    return None


def convert(e, k):
    if e is None:
        return None
    if k is float:
        return float(e)
    if k is complex:
        return complex(e)
    if k is int:
        return int(e)
    if k is datetime and type(e) is date:
        return datetime.combine(e, datetime.min.time())
    return e


def widened(w, g):
    if same(g, w):
        return True
    if g is None or w is None:
        return False
    if type(w) is date and type(g) is datetime:
        return g == datetime.combine(w, datetime.min.time())
    return type(w) in NUM_LADDER and type(g) in NUM_LADDER and belongs(type(w), type(g)) and g == w


def positions(key, n):
    """('ok', [positions]) or ('fail', reason) following Python sequence semantics."""
    form, k = key
    if form == 'int':
        if -n <= k < n:
            return 'ok', [k % n]
        return 'fail', 'index'
    if form == 'slice':
        return 'ok', list(range(n))[slice(*k)]
    if form in ('lmask', 'vmask'):
        if len(k) != n:
            return 'fail', 'mask-length'
        return 'ok', [i for i, m in enumerate(k) if m]
    out = []
    for i in k:
        if not -n <= i < n:
            return 'fail', 'index'
        out.append(i % n)
    return 'ok', out


def model(L, kind, nullable, key, val):
    """Expected outcome of v[key] = val.

    returns ('fail', reason) | ('noop',) | ('ok', contents, kind, nullable, written_positions, promoted)
    """
    n = len(L)
    st, pos = positions(key, n)
    vform = val[0]
    if st == 'fail':
        return ('fail', pos)
    if vform == 's':
        values = [val[1]] * len(pos)
    elif vform == 'boom':
        return ('fail', 'boom' if len(val[1]) == len(pos) else 'length-or-boom')
    else:
        values = list(val[1])
        if len(values) != len(pos):
            return ('fail', 'length')
    if not pos:
        return ('noop',)
    k2 = kind
    for x in values:
        if x is None:
            continue
        k2 = kind_join(k2, type(x))
        if k2 is None:
            return ('fail', 'type')
    null2 = nullable or any(x is None for x in values)
    promoted = k2 is not kind
    out = [convert(e, k2) if promoted else e for e in L]
    for p, x in zip(pos, values):
        out[p] = x
    return ('ok', out, k2, null2, set(pos), promoted)


# --------------------------------------------------------------------------------------------
# enumeration
# --------------------------------------------------------------------------------------------

def all_keys(n):
    keys = [['int', i] for i in range(-n - 1, n + 1)]
    for a in CUBE_STARTS:
        for b in CUBE_STARTS:
            for c in CUBE_STEPS:
                keys.append(['slice', [a, b, c]])
    for ln in (n - 1, n, n + 1):
        if ln < 0:
            continue
        for m in itertools.product([False, True], repeat=ln):
            keys.append(['vmask', list(m)])
            if m:
                keys.append(['lmask', list(m)])
    rng = list(range(-n - 1, n + 1))
    for form in ('ilist', 'ituple', 'ivec'):
        for i in rng:
            keys.append([form, [i]])
        for i in rng:
            for j in rng:
                keys.append([form, [i, j]])
    return keys


def reduced_keys(n):
    """One key per (form, outcome/addressed-position tuple)."""
    seen, out = set(), []
    for key in all_keys(n):
        st, pos = positions(key, n)
        form = key[0]
        if form in ('ituple', 'ivec') and len(key[1]) == 2 and st == 'ok':
            form_sig = form
        else:
            form_sig = form
        sig = (form_sig, st, tuple(pos) if st == 'ok' else pos)
        if form == 'slice':
            # keep negative-step and positive-step representatives apart
            step = key[1][2]
            sig += ((step or 1) > 0,)
        if sig in seen:
            continue
        seen.add(sig)
        out.append(key)
    return out


def materialise(dt, syms):
    s = SYM[dt]
    return [None if c == 'N' else (s['F'][j] if c == 'F' else s[c]) for j, c in enumerate(syms)]


def value_forms(dt, m):
    """Value forms for a key that addresses m positions."""
    s = SYM[dt]
    alphabet = ['F'] + [c for c in 'nWVX' if c in s] + ['N']
    vals = [['s', x] for x in SCALARS]
    seqs = []
    if 1 <= m <= 2:
        seqs = [list(c) for c in itertools.product(alphabet, repeat=m)]
    elif m >= 3:
        seqs = [['F'] * m]
        for c in alphabet[1:]:
            for p in range(m):
                q = ['F'] * m
                q[p] = c
                seqs.append(q)
        for c1, c2 in [('W', 'X'), ('W', 'V'), ('N', 'X'), ('X', 'W'), ('V', 'W'), ('N', 'W'), ('n', 'X'), ('N', 'V')]:
            if c1 in alphabet and c2 in alphabet:
                for p2 in {1, m - 1}:
                    q = ['F'] * m
                    q[0], q[p2] = c1, c2
                    seqs.append(q)
    elif m == 0:
        seqs = [[]]
    for q in seqs:
        vals.append(['l', materialise(dt, q)])
    # wrong lengths
    for ln in {m - 1, m + 1, m + 2}:
        if ln >= 0 and ln != m and ln <= 4:
            vals.append(['l', materialise(dt, ['F'] * ln)])
            if 'X' in s and ln:
                vals.append(['l', materialise(dt, ['X'] + ['F'] * (ln - 1))])
    # containers
    if m:
        vals.append(['t', materialise(dt, ['F'] * m)])
        vals.append(['v', materialise(dt, ['F'] * m)])
        if 'W' in s:
            vals.append(['v', materialise(dt, ['W'] + ['F'] * (m - 1))])
            vals.append(['t', materialise(dt, ['F'] * (m - 1) + ['W'])])
    # raising iterables
    for ln in {m, m + 1}:
        if 1 <= ln <= 4:
            for p in range(ln):
                vals.append(['boom', materialise(dt, ['F'] * ln), p])
    if m and 'W' in s:
        vals.append(['boom', materialise(dt, ['W'] + ['F'] * (m - 1)), m - 1])
    return vals


TCOLS = {'a': [1, 2, 3], 'b': ['x', 'y', 'z'], 'c': [0.5, 1.5, 2.5]}
TKIND = {'a': int, 'b': str, 'c': float,
         'n': int, 'flag': bool, 'when': date, 's': str,                                # strengthen tables
         'Val': int, 'val': int, 'my col': int, 'my_col': int}
CELLVALS = {'a': [9, None, 2.5, 'q'], 'b': ['w', None, 5], 'c': [9.5, None, 1j, 'q', 4]}


def tables():
    names = list(TCOLS)
    for r in (2, 3, 1):
        for c in (2, 3, 1):
            yield {nm: TCOLS[nm][:r] for nm in names[:c]}


# ---- strengthen ------------------------------------------------------------------------------------
PROMO_POOL = {
    # values offered to ONE multi-value write; a sequence qualifies when it needs >= 2 different promotions
    'int': [True, 7, 2.5, 1 + 2j],
    'bool': [False, 7, 2.5, 1 + 2j],
    'nint': [7, 2.5, 1 + 2j, None],
    'date': [D4, DTM, DTM2, None],
    'datetime': [DTM2, D4, D3, None],
}
FAIL_POOL = {
    # F fits, N None, X incompatible, W wider (accepted alone)
    'int': {'F': 7, 'X': 'x', 'W': 2.5}, 'float': {'F': 7.5, 'X': 'x', 'W': 1j}, 'str': {'F': 'p', 'X': 5},
    'bool': {'F': False, 'X': 'x', 'W': 7}, 'date': {'F': D4, 'X': 5, 'W': DTM}, 'nint': {'F': 7, 'X': 'x', 'W': 2.5},
    'datetime': {'F': DTM2, 'X': 'x'},
}
PROMO_KEYS = {
    2: [['slice', [None, None, None]], ['slice', [None, None, -1]], ['vmask', [True, True]], ['lmask', [True, True]],
        ['ilist', [0, 1]], ['ilist', [1, 0]], ['ituple', [-1, -2]], ['ivec', [0, 1]]],
    3: [['slice', [0, 2, None]], ['slice', [1, 3, None]], ['slice', [None, None, -1]], ['slice', [None, None, 2]], ['slice', [None, None, None]],
        ['vmask', [True, False, True]], ['lmask', [False, True, True]], ['vmask', [True, True, True]],
        ['ilist', [0, 2]], ['ilist', [2, 0]], ['ituple', [1, 2]], ['ivec', [0, 1]], ['ilist', [0, 1, 2]], ['ilist', [2, 1, 0]],
        ['ilist', [-1, -3]], ['ivec', [2, 0, 1]]],
    4: [['slice', [1, 3, None]], ['slice', [0, 3, None]], ['slice', [None, 0, -1]], ['vmask', [True, True, False, True]], ['lmask', [False, True, False, True]],
        ['ilist', [3, 0, 1]], ['ituple', [0, -1]], ['ivec', [1, 2]]],
}


def promotions_needed(dt, seq):
    kind = BASE2[dt][1]
    if kind in (date, datetime):
        ts = {type(x) for x in seq if x is not None}
        return 2 if ts == {date, datetime} else 0
    return len({type(x) for x in seq if x is not None and not belongs(type(x), kind)})


def promo_sequences(dt, m):
    return [list(q) for q in itertools.product(PROMO_POOL[dt], repeat=m) if promotions_needed(dt, q) >= 2]


def fail_sequences(dt, m):
    pool = FAIL_POOL[dt]
    out = []
    for q in itertools.product([c for c in 'FNXW' if c == 'N' or c in pool], repeat=m):
        if 'N' in q and 'X' in q:
            out.append([None if c == 'N' else pool[c] for c in q])
    return out


T2 = {'n': [1, 2, 3], 'flag': [True, False, True], 'when': [D, D2, D3], 's': ['x', 'y', 'z']}
T2DT = {'n': 'int', 'flag': 'bool', 'when': 'date', 's': 'str'}
TWIN_TABLES = [
    {'x y': [1, 2, 3], 'b': ['x', 'y', 'z']},                                  # not a twin: a name that is not its own attribute spelling
    {'Val': [1, 2, 3], 'val': [4, 5, 6]}, {'val': [4, 5, 6], 'Val': [1, 2, 3]},
    {'Val': [1, 2, 3], 'b': ['x', 'y', 'z'], 'val': ['p', 'q', 'r']}, {'my col': [1, 2, 3], 'my_col': [4, 5, 6]},
    {'my_col': ['x', 'y', 'z'], 'my col': [1, 2, 3]},
]


def rename_plans(names):
    plans = []
    for i, nm in enumerate(names):
        for how in ('view', 'attr', 'cols'):
            plans.append([[i, 'z', how]])
        plans.append([[i, 'x y', 'view']])
        plans.append([[i, 'z', 'view'], [i, 'y', 'view']])                 # renamed twice through one view
        for other in names:
            if other != nm:
                plans.append([[i, other.upper(), 'view']])                 # now differs from a neighbour only in case
    for i in range(len(names)):
        for j in range(i + 1, len(names)):
            plans.append([[i, names[j], 'view'], [j, names[i], 'view']])   # two columns swap names
            plans.append([[j, names[i], 'cols'], [i, names[j], 'cols']])
    return plans


def names_after(names, plan):
    cur, gone = list(names), []
    for i, new, how in plan:
        gone.append(cur[i])
        cur[i] = new
    return cur, [g for g in dict.fromkeys(gone) if g not in cur]


def name_write_cases(t, plan, universe, r):
    """Cell / column / row-by-name-list writes addressed by name on table t after plan."""
    vals = {int: [9, None, 2.5, 'q'], str: ['w', None, 5], float: [9.5, None, 'q']}
    names = list(t)
    after, gone = names_after(names, plan)
    kind_at = lambda j: type(t[names[j]][0])
    for nm in universe:
        exact = [j for j, x in enumerate(after) if x == nm]
        kind = kind_at(exact[0]) if len(exact) == 1 else int
        for x in vals[kind]:
            for i in sorted({0, r - 1, -1}):
                yield {'k': 'trn', 'form': 'cell', 't': lit(t), 'plan': plan, 'row': i, 'name': nm, 'x': lit(x)}
            yield {'k': 'trn', 'form': 'column', 't': lit(t), 'plan': plan, 'rows': [None, None, None], 'name': nm, 'x': lit(x)}
        fill = {int: [7, 8, 9], str: ['p', 'q', 'r'], float: [7.5, 8.5, 9.5]}[kind][:r]
        yield {'k': 'trn', 'form': 'column', 't': lit(t), 'plan': plan, 'rows': [None, None, None], 'name': nm, 'x': lit(fill)}
        yield {'k': 'trn', 'form': 'column', 't': lit(t), 'plan': plan, 'rows': [None, None, -1], 'name': nm, 'x': lit(fill)}
    # a row written through a list of names (both orders)
    for a, b in itertools.permutations(universe, 2):
        ea = [j for j, x in enumerate(after) if x == a]
        eb = [j for j, x in enumerate(after) if x == b]
        xa = vals[kind_at(ea[0]) if len(ea) == 1 else int][0]
        xb = vals[kind_at(eb[0]) if len(eb) == 1 else int][0]
        yield {'k': 'trn', 'form': 'row', 't': lit(t), 'plan': plan, 'row': 0, 'names': [a, b], 'x': lit([xa, xb])}


def cases_strengthen(tier):
    # ---- A: one multi-value write needing two or more different promotions, every order
    for dt in PROMO_POOL:
        for n, keys in PROMO_KEYS.items():
            for key in keys:
                m = len(positions(key, n)[1])
                for q in promo_sequences(dt, m):
                    forms = ('l', 't', 'v') if (m == 2 or tier != 'quick') else ('l',)
                    for form in forms:
                        yield {'k': 'vec', 'dt': dt, 'n': n, 'key': key, 'val': [form, lit(q)], 'blk': 'promo'}
    # ---- B: failing writes that mix None with an incompatible value
    for dt in FAIL_POOL:
        for n, keys in PROMO_KEYS.items():
            for key in keys:
                m = len(positions(key, n)[1])
                for q in fail_sequences(dt, m):
                    for form in ('l', 't'):
                        yield {'k': 'vec', 'dt': dt, 'n': n, 'key': key, 'val': [form, lit(q)], 'blk': 'none+bad'}
    # ---- C: the same through table column / region writes
    rowspecs = [[None, None, None], [0, 2, None], [1, None, None], [None, None, -1], [None, None, 2]]
    for r in (3, 2):
        t = {nm: col[:r] for nm, col in T2.items()}
        names = list(t)
        for j, nm in enumerate(names):
            dt = T2DT[nm]
            for rs in rowspecs:
                m = len(list(range(r))[slice(*rs)])
                if m < 2:
                    continue
                seqs = (promo_sequences(dt, m) if dt in PROMO_POOL else []) + fail_sequences(dt, m)
                for q in seqs:
                    for cs in (['name', nm], ['int', j]):
                        yield {'k': 'tcol', 't': lit(t), 'rows': rs, 'col': cs, 'val': ['l', lit(q)], 'blk': 'promo'}
        for rs in rowspecs:
            m = len(list(range(r))[slice(*rs)])
            if m < 2:
                continue
            for csl, cols in ([[0, 2, None], ['n', 'flag']], [[0, 3, None], ['n', 'flag', 'when']], [[2, 0, -1], ['when', 'flag']]):
                lists = [promo_sequences(T2DT[c], m) for c in cols]
                for i in range(max(len(x) for x in lists)):
                    src = {f'z{q}': lists[q][i % len(lists[q])] for q in range(len(cols))}
                    yield {'k': 'tregion', 't': lit(t), 'rows': rs, 'cols': csl, 'val': ['t', lit(src)], 'blk': 'promo'}
                bad = fail_sequences(T2DT[cols[0]], m)
                for i, b in enumerate(bad):
                    src = {f'z{q}': (b if q == 0 else lists[q][i % len(lists[q])]) for q in range(len(cols))}
                    yield {'k': 'tregion', 't': lit(t), 'rows': rs, 'cols': csl, 'val': ['t', lit(src)], 'blk': 'none+bad'}
    # ---- E: names that differ only in case / sanitisation
    for full in TWIN_TABLES:
        for r in (3, 1):
            t = {k: v[:r] for k, v in full.items()}
            yield from name_write_cases(t, [], list(t) + ['missing'], r)
    # ---- D: writes addressed by column name, first access after a rename through a live view
    for t in tables():
        names = list(t)
        r = len(t[names[0]])
        if tier == 'quick' and r == 2 and len(names) != 2:
            continue
        for plan in rename_plans(names):
            after, gone = names_after(names, plan)
            universe = list(dict.fromkeys(after + gone + ['missing']))
            yield from name_write_cases(t, plan, universe, r)


def cases(tier, seed):
    yield from cases_base(tier, seed)
    yield from cases_strengthen(tier)
    yield from cases_unconvertible(tier)


# --------------------------------------------------------------------------------------------
# "fails for any reason": a conversion raises while the write is carried out
# --------------------------------------------------------------------------------------------
HUGE = 10 ** 400          # an int: float(HUGE) and complex(HUGE) raise OverflowError


def hsrc(x):
    """Source of a value; the huge int is written symbolically (ev() evaluates expressions)."""
    if isinstance(x, (list, tuple)):
        inner = ', '.join(hsrc(e) for e in x)
        return '[' + inner + ']' if isinstance(x, list) else '(' + inner + (',' if len(x) == 1 else '') + ')'
    if isinstance(x, dict):
        return '{' + ', '.join(f'{k!r}: {hsrc(v)}' for k, v in x.items()) + '}'
    if type(x) is int and abs(x) == HUGE:
        return '10**400' if x > 0 else '-10**400'
    return lit(x)


# columns that hold an unconvertible element ('existing') ...
UNCONV_EXISTING = [
    [HUGE], [HUGE, 2], [1, HUGE], [HUGE, 2, 3], [1, HUGE, 3], [1, 2, HUGE], [-HUGE, 2, HUGE],
    [HUGE, None], [None, HUGE, 3], [1, None, -HUGE],
]
# ... and ordinary columns that are written with such a value ('written')
UNCONV_TARGETS = [[1.5], [1.5, 2.5], [1.5, 2.5, 3.5], [1.5, None, 3.5], [1j, 2j], [1j, 2j, None], [1, 2, 3], [True, False], [True, False, True]]


def unconv_values(col, m, tier):
    """(which, value form, values) for a key addressing m >= 1 positions of `col`."""
    out = []
    if any(type(x) is int and abs(x) == HUGE for x in col):
        for x in (2.5, 1j, -0.0):
            out.append(('existing-element', 's', x))
        seqs = [[2.5] * m, [1j] * m]
        if m >= 2:
            seqs += [[7] * (m - 1) + [2.5], [2.5] + [7] * (m - 1), [None] * (m - 1) + [2.5], [1j] + [7] * (m - 1), [7] * (m - 1) + [1j]]
        for q in seqs:
            for form in (('l', 't', 'v') if tier != 'quick' or q is seqs[0] else ('l',)):
                out.append(('existing-element', form, q))
        return out
    first = next(x for x in col if x is not None)
    fit = 7.5 if type(first) is float else 7j if type(first) is complex else 7
    if type(first) in (float, complex):
        out.append(('written-value', 's', HUGE))
        out.append(('written-value', 's', -HUGE))
        seqs = [[HUGE] * m] + ([[HUGE] + [fit] * (m - 1), [fit] * (m - 1) + [HUGE], [None] * (m - 1) + [HUGE]] if m >= 2 else [])
    else:
        # int / bool column: the huge int arrives together with a value that widens the column to float / complex
        seqs = [[2.5, HUGE] + [fit] * (m - 2), [HUGE, 2.5] + [fit] * (m - 2), [fit] * (m - 2) + [1j, HUGE]] if m >= 2 else []
    for q in seqs:
        for form in ('l', 't'):
            out.append(('written-value', form, q))
    return out


def cases_unconvertible(tier):
    for col in UNCONV_EXISTING + UNCONV_TARGETS:
        n = len(col)
        for key in reduced_keys(n):
            st, pos = positions(key, n)
            if st != 'ok' or not pos:
                continue
            for which, form, x in unconv_values(col, len(pos), tier):
                yield {'k': 'unconv', 'on': 'vec', 'which': which, 'col': hsrc(col), 'key': key, 'val': [form, hsrc(x)]}
    # the same through table writes: column 'a' is the column under test, 'b' / 'c' ordinary neighbours
    for col in [c for c in UNCONV_EXISTING + UNCONV_TARGETS if len(c) >= 2]:
        n = len(col)
        t = {'a': col, 'b': ['x', 'y', 'z'][:n], 'c': [0.5, 1.5, 2.5][:n]}
        huge_in_col = any(type(x) is int and abs(x) == HUGE for x in col)
        which = 'existing-element' if huge_in_col else 'written-value'
        first = next(x for x in col if x is not None)
        if huge_in_col:
            cellvals = [2.5, 1j]
        elif type(first) in (float, complex):
            cellvals = [HUGE, -HUGE]
        else:
            cellvals = []
        for i in range(n):
            for x in cellvals:
                for cs in (['name', 'a'], ['int', 0]):
                    yield {'k': 'unconv', 'on': 'cell', 'which': which, 't': hsrc(t), 'row': i, 'col': cs, 'x': hsrc(x)}
                yield {'k': 'unconv', 'on': 'row', 'which': which, 't': hsrc(t), 'row': i, 'how': 't[i]', 'x': hsrc([x, 'q', 9.5])}
                yield {'k': 'unconv', 'on': 'row', 'which': which, 't': hsrc(t), 'row': i, 'how': 't[i, :]', 'x': hsrc([x, 'q', 9.5])}
        for rs in ([None, None, None], [0, 2, None], [1, None, None], [None, None, -1]):
            m = len(list(range(n))[slice(*rs)])
            if not m:
                continue
            for _, form, x in unconv_values(col, m, 'quick'):
                if form == 't':
                    continue
                yield {'k': 'unconv', 'on': 'column', 'which': which, 't': hsrc(t), 'rows': rs, 'col': ['name', 'a'], 'val': [form, hsrc(x)]}
                if form == 'l':
                    src = {'z0': x, 'z1': ['p', 'q', 'r'][:m]}
                    yield {'k': 'unconv', 'on': 'region', 'which': which, 't': hsrc(t), 'rows': rs, 'cols': [0, 2, None], 'val': ['t', hsrc(src)]}


def cases_base(tier, seed):
    # ---- index phase: the full key cube with representative values
    for dt in ('int', 'nint'):
        for n in range(5):
            for key in all_keys(n):
                st, pos = positions(key, n)
                m = len(pos) if st == 'ok' else 1
                if key[0] == 'int':
                    reps = [['s', SYM[dt]['F'][0]], ['s', SYM[dt]['W']]]
                else:
                    reps = [['s', SYM[dt]['F'][0]], ['s', SYM[dt]['W']], ['l', materialise(dt, ['F'] * m)]]
                    if m + 1 <= 4:
                        reps.append(['l', materialise(dt, ['F'] * (m + 1))])
                for val in reps:
                    yield {'k': 'vec', 'dt': dt, 'n': n, 'key': key, 'val': [val[0], lit(val[1])] + val[2:]}
    # ---- decision phase: every value form on one key per addressed-position tuple
    for dt in BASE:
        for n in range(5):
            for key in reduced_keys(n):
                st, pos = positions(key, n)
                m = len(pos) if st == 'ok' else 1
                if key[0] == 'int':
                    forms = [['s', x] for x in SCALARS]
                else:
                    forms = value_forms(dt, m)
                for val in forms:
                    yield {'k': 'vec', 'dt': dt, 'n': n, 'key': key, 'val': [val[0], lit(val[1])] + val[2:]}
    # ---- tables
    for t in tables():
        names = list(t)
        r, c = len(t[names[0]]), len(names)
        colspecs = [['int', j] for j in range(-c - 1, c + 1)] + [['name', nm] for nm in names + ['missing']]
        # cell
        for i in range(-r - 1, r + 1):
            for cs in colspecs:
                col = names[cs[1] % c] if cs[0] == 'int' and -c <= cs[1] < c else (cs[1] if cs[1] in names else names[0])
                for x in CELLVALS[col]:
                    yield {'k': 'tcell', 't': lit(t), 'row': i, 'col': cs, 'x': lit(x)}
        # row
        fit = {'a': 9, 'b': 'w', 'c': 9.5}
        for i in range(-r - 1, r + 1):
            for how in ('t[i]', 't[i,:]'):
                row = [fit[nm] for nm in names]
                yield {'k': 'trow', 't': lit(t), 'row': i, 'how': how, 'vals': lit(row)}
                yield {'k': 'trow', 't': lit(t), 'row': i, 'how': how, 'vals': lit(row + [1])}
                yield {'k': 'trow', 't': lit(t), 'row': i, 'how': how, 'vals': lit(row[:-1])}
                yield {'k': 'trow', 't': lit(t), 'row': i, 'how': how, 'vals': lit([None] * c)}
                for j in range(c):
                    bad = list(row)
                    bad[j] = (1, 2) if False else {'a': 'q', 'b': 5, 'c': 'q'}[names[j]]
                    yield {'k': 'trow', 't': lit(t), 'row': i, 'how': how, 'vals': lit(bad)}
                    wide = list(row)
                    wide[j] = {'a': 2.5, 'b': 'w', 'c': 1j}[names[j]]
                    yield {'k': 'trow', 't': lit(t), 'row': i, 'how': how, 'vals': lit(wide)}
        # column
        rowspecs = [[None, None, None], [0, 1, None], [1, None, None], [None, None, 2], [None, None, -1], [2, 1, None], [-1, None, None]]
        for cs in colspecs:
            if cs[0] == 'int' and not -c <= cs[1] < c:
                col = names[0]
            else:
                col = names[cs[1] % c] if cs[0] == 'int' else (cs[1] if cs[1] in names else names[0])
            for rs in rowspecs:
                m = len(list(range(r))[slice(*rs)])
                for x in CELLVALS[col]:
                    yield {'k': 'tcol', 't': lit(t), 'rows': rs, 'col': cs, 'val': ['s', lit(x)]}
                f = {'a': [7, 8, 9], 'b': ['p', 'q', 'r'], 'c': [7.5, 8.5, 9.5]}[col]
                yield {'k': 'tcol', 't': lit(t), 'rows': rs, 'col': cs, 'val': ['l', lit(f[:m])]}
                if m + 1 <= 3:
                    yield {'k': 'tcol', 't': lit(t), 'rows': rs, 'col': cs, 'val': ['l', lit(f[:m + 1])]}
                if m >= 1:
                    yield {'k': 'tcol', 't': lit(t), 'rows': rs, 'col': cs, 'val': ['l', lit(f[:m - 1])]}
                    w = {'a': 2.5, 'b': 5, 'c': 'q'}[col]
                    yield {'k': 'tcol', 't': lit(t), 'rows': rs, 'col': cs, 'val': ['l', lit(f[:m - 1] + [w])]}
        # region: scalar / Table of the same shape / Table of a wrong shape
        colslices = [[None, None, None], [0, 1, None], [1, None, None], [None, None, 2], [None, None, -1], [-1, None, None], [2, 1, None]]
        for rs in rowspecs:
            for csl in colslices:
                tcols = names[slice(*csl)]
                m = len(list(range(r))[slice(*rs)])
                for x in (None,):
                    yield {'k': 'tregion', 't': lit(t), 'rows': rs, 'cols': csl, 'val': ['s', lit(x)]}
                if len({TKIND[nm] for nm in tcols}) == 1 and tcols:
                    yield {'k': 'tregion', 't': lit(t), 'rows': rs, 'cols': csl, 'val': ['s', lit(fit[tcols[0]])]}
                f = {'a': [7, 8, 9], 'b': ['p', 'q', 'r'], 'c': [7.5, 8.5, 9.5]}
                if tcols:
                    src = {f'z{j}': f[nm][:m] for j, nm in enumerate(tcols)}
                    yield {'k': 'tregion', 't': lit(t), 'rows': rs, 'cols': csl, 'val': ['t', lit(src)]}
                    if m + 1 <= 3:
                        src2 = {f'z{j}': f[nm][:m + 1] for j, nm in enumerate(tcols)}
                        yield {'k': 'tregion', 't': lit(t), 'rows': rs, 'cols': csl, 'val': ['t', lit(src2)]}
                    src3 = dict(src)
                    src3['extra'] = f['a'][:m]
                    yield {'k': 'tregion', 't': lit(t), 'rows': rs, 'cols': csl, 'val': ['t', lit(src3)]}
    # ---- rename_columns
    t3 = {nm: TCOLS[nm][:2] for nm in TCOLS}
    olds = ['a', 'b', 'c', 'missing']
    news = ['x', 'a', 'b']
    for lo in range(0, 3):
        for old in itertools.product(olds, repeat=lo):
            for ln in range(0, 3):
                for new in itertools.product(news, repeat=ln):
                    yield {'k': 'rename', 't': lit(t3), 'old': list(old), 'new': list(new)}


# --------------------------------------------------------------------------------------------
# evaluation
# --------------------------------------------------------------------------------------------

def mkvec(dt, n):
    vals, kind, name = BASE2[dt]
    vals = vals[:n]
    nullable = dt == 'nint' and (n == 0 or any(x is None for x in vals))
    if dt == 'object':
        return Vector(list(vals), dtype=DataType(object, nullable=False), name=name), vals, kind, False, name
    if not vals:
        return Vector([], dtype=DataType(kind, nullable=nullable), name=name), vals, kind, nullable, name
    v = Vector(list(vals), name=name)
    return v, vals, kind, bool(v.schema().nullable), name


def vsrc(dt, n):
    vals, kind, name = BASE2[dt]
    vals = vals[:n]
    nm = f', name={name!r}' if name else ''
    if dt == 'object':
        return f'Vector({lit(vals)}, dtype=object{nm})'
    if not vals:
        return f'Vector([], dtype=DataType({kind.__name__}, nullable={dt == "nint"}){nm})'
    return f'Vector({lit(vals)}{nm})'


def mkkey(key):
    form, k = key
    if form == 'int':
        return k
    if form == 'slice':
        return slice(*k)
    if form == 'lmask':
        return list(k)
    if form == 'vmask':
        return Vector(list(k)) if k else Vector([], dtype=DataType(bool))
    if form == 'ilist':
        return list(k)
    if form == 'ituple':
        return tuple(k)
    return Vector(list(k))


def keysrc(key):
    form, k = key
    if form == 'int':
        return str(k)
    if form == 'slice':
        s = slice(*k)
        return f'{"" if s.start is None else s.start}:{"" if s.stop is None else s.stop}:{"" if s.step is None else s.step}'
    if form == 'vmask':
        return f'Vector({k})' if k else 'Vector([], dtype=bool)'
    if form == 'ivec':
        return f'Vector({k})'
    if form == 'ituple':
        return str(tuple(k))
    return str(k)


def mkval(val):
    f = val[0]
    x = cev(val[1])
    if f == 's':
        return x, val[1]
    if f == 'l':
        return x, val[1]
    if f == 't':
        return tuple(x), lit(tuple(x))
    if f == 'v':
        return (Vector(x) if x else Vector([])), f'Vector({val[1]})'
    return Boom(x, val[2]), f'Boom({val[1]}, raises_at={val[2]})'


KEYSITE = {'int': 'int', 'slice': 'slice', 'lmask': 'mask', 'vmask': 'mask', 'ilist': 'index-list', 'ituple': 'index-list', 'ivec': 'index-vector'}


def value_class(kind, nullable, values):
    """Which value decides the expected outcome, relative to the first value that does not fit as-is."""
    def fits(x):
        return (x is None and nullable) or (x is not None and belongs(type(x), kind))
    nonfit = [x for x in values if not fits(x)]
    return nonfit


def c03_cause(v):
    """Why the vector lies about itself after an assignment: a None in a non-nullable column, or a value of a foreign kind."""
    sch = v.schema()
    if sch is None:
        return 'untyped'
    for x in v._underlying:
        if x is not None and not belongs(type(x), sch.kind):
            return 'multi-value'
    return 'none-write' + ('-object' if sch.kind is object else '')


def eval_vec(case):
    dt, n, key = case['dt'], case['n'], case['key']
    val = case['val']
    v, L, kind, nullable, name = mkvec(dt, n)
    pyval = cev(val[1])
    mval = [val[0], pyval] + val[2:]
    exp = model(L, kind, nullable, key, mval)
    value, valsrc = mkval(val)
    src = f'v = {vsrc(dt, n)}; v[{keysrc(key)}] = {valsrc}'
    site = f'Vector.setitem.{KEYSITE[key[0]]}'      # index phase: one code path per key form
    dsite = 'Vector.setitem.decision'                 # accept / promote / reject: one code path for all key forms
    before, fp0 = view(v), v.fingerprint()
    k = mkkey(key)
    fails = []
    try:
        v[k] = value
        err = None
    except Exception as e:
        err = e.with_traceback(None)      # no frame cycle: vectors must die with the case
    after, fp1 = view(v), v.fingerprint()
    if isinstance(err, AliasError):
        # v was created two lines above and never shared: the tracker confuses it with another vector
        fails.append(Fail(f'C08:Vector.setitem:spurious-AliasError' + ('-empty' if n == 0 else ''),
                          f'{src} raised AliasError on a fresh, unshared vector: ' + str(err).splitlines()[0], 'no AliasError', repr(err)))
    if err is not None:
        # ---- atomicity: any failure leaves the vector exactly as it was
        if after != before or fp1 != fp0:
            why = exp[1] if exp[0] == 'fail' else 'unexpected'
            fails.append(Fail(f'C08:{site}:not-atomic-on-{type(err).__name__}', f'{src} raised {err!r} but the vector changed: {before} -> {after}', before, after))
        if exp[0] == 'fail':
            if exp[1] == 'type' and not isinstance(err, SerifTypeError):
                fails.append(Fail(f'C08:{dsite}:incompatible-value-wrong-exception', f'{src} raised {type(err).__name__} instead of SerifTypeError', 'SerifTypeError', repr(err)))
            return fails
        if exp[0] == 'noop' or isinstance(err, AliasError):
            return fails                       # nothing addressed: raising or not is undecided, state is unchanged
        # expected success
        values = [pyval] * len(positions(key, n)[1]) if val[0] == 's' else list(pyval)
        nonfit = value_class(kind, nullable, values)
        cls = f'raised-{type(err).__name__}'
        if isinstance(err, SerifTypeError) and nonfit:
            first = nonfit[0]
            if first is None:
                cls = 'none-rejected'
            elif kind is bool:
                cls = 'bool-widening-rejected'
            else:
                cls = f'{kind.__name__}-widening-rejected'
        where = dsite if isinstance(err, SerifTypeError) and nonfit else site
        fails.append(Fail(f'C08:{where}:{cls}', f'{src} raised {type(err).__name__}: {err}; expected contents {exp[1]!r} <{exp[2].__name__}>', exp[1], repr(err)))
        return fails
    # ---- no exception
    got = list(v)
    sch = v.schema()
    gk = None if sch is None else sch.kind
    if len(got) != n:
        fails.append(Fail(f'C08:{site}:length-changed', f'{src}: len {n} -> {len(got)}', n, len(got)))
    if v.name != name:
        fails.append(Fail(f'C08:{site}:name-changed', f'{src}: name {name!r} -> {v.name!r}', name, v.name))
    if exp[0] == 'fail':
        reason = exp[1]
        if reason == 'type':
            values = [pyval] * len(positions(key, n)[1]) if val[0] == 's' else list(pyval)
            nonfit = value_class(kind, nullable, values)
            first_bad = nonfit and nonfit[0] is not None and kind_join(kind, type(nonfit[0])) is None
            cls = 'incompatible-value-accepted' if first_bad else 'later-incompatible-value-accepted'
        elif reason == 'index':
            cls = 'bad-index-accepted'
        elif reason == 'mask-length':
            cls = 'wrong-mask-length-accepted'
        elif reason == 'length':
            cls = 'length-mismatch-accepted'
        else:
            cls = 'raising-value-swallowed'
        where = dsite if reason == 'type' else site
        fails.append(Fail(f'C08:{where}:{cls}', f'{src} did not raise ({reason}); vector is now {got!r} {sch!r}', 'an error, vector unchanged', got))
        m = truthful(v)
        if m:
            fails.append(Fail(f'C03:Vector.setitem.{c03_cause(v)}:truthful', f'{src}: {m}', None, repr(sch)))
        return fails
    if exp[0] == 'noop':
        if after != before:
            fails.append(Fail(f'C08:{site}:changed-without-addressed-position', f'{src}: {before} -> {after}', before, after))
        return fails
    _, want, k2, null2, written, promoted = exp
    values_ok = len(got) == len(want)
    if values_ok:
        for i, (g, w) in enumerate(zip(got, want)):
            ok = widened(w, g) if i in written else same(g, w)
            if not ok and i not in written and gk is not k2 and widened(g, w):
                ok = True          # converted to the (wrong) kind actually chosen: reported once, as the kind failure below
            if not ok:
                values_ok = False
                if i in written:
                    cls = 'wrong-written-value'
                elif promoted:
                    cls = 'existing-element-not-converted'
                else:
                    cls = 'unaddressed-position-changed'
                fails.append(Fail(f'C08:{site}:{cls}', f'{src}: vector is {got!r}, list assignment (+ promotion to {k2.__name__}) gives {want!r}', want, got))
                break
    if gk is not k2:
        values = [pyval] * len(written) if val[0] == 's' else list(pyval)
        nonfit = value_class(kind, nullable, values)
        first_decides = bool(nonfit) and nonfit[0] is not None and kind_join(kind, type(nonfit[0])) is k2
        cls = 'wrong-kind-after-promotion' if (first_decides or not promoted) else 'later-wider-value-not-promoted'
        fails.append(Fail(f'C08:{dsite}:{cls}', f'{src}: schema {sch!r}, expected kind {k2.__name__} (values {got!r})', k2.__name__, repr(sch)))
    wrote_none = any(want[i] is None for i in written)
    if wrote_none and (sch is None or not sch.nullable):
        suffix = '-object' if kind is object else ''
        fails.append(Fail(f'C08:{dsite}:none-not-made-nullable{suffix}', f'{src}: None was written but schema is {sch!r}', 'nullable', repr(sch)))
    if fp1 != Vector(list(got)).fingerprint():
        fails.append(Fail(f'C08:{site}:stale-fingerprint', f'{src}: fingerprint() does not match the new contents', None, None))
    m = truthful(v)
    if m:
        fails.append(Fail(f'C03:Vector.setitem.{c03_cause(v)}:truthful', f'{src}: {m}', None, repr(sch)))
    return fails


# ---- tables

def mktable(d):
    return Table({k: list(v) for k, v in d.items()})


def resolve_cols(names, cs):
    """col spec -> list of column positions or None if invalid."""
    c = len(names)
    if cs[0] == 'int':
        return [cs[1] % c] if -c <= cs[1] < c else None
    if cs[0] == 'name':
        return [names.index(cs[1])] if cs[1] in names else None
    return list(range(c))[slice(*cs[1])]


def grid(t):
    return [list(col) for col in t.cols()]


_FP0 = {}


def check_table(case, src, site, d, t, before_view, err, col_expect, all_or_nothing, fp0=None):
    """col_expect: {col position: model outcome}; None => the whole assignment must fail."""
    names = list(d)
    fails = []
    got = grid(t)
    if fp0 is None:
        fp0 = _FP0.pop(id(t), None)
    _FP0.clear()
    try:
        fp1 = [c.fingerprint() for c in t.cols()]
    except Exception:
        fp1 = None
    if err is not None and fp0 is not None and fp1 is not None and fp1 != fp0 and view(t) == before_view:
        fails.append(Fail(f'C08:{site}:fingerprint-changed-on-failure', f'{src} raised {err!r}; cells and schema are unchanged but the column fingerprints are not',
                          fp0, fp1))
    if err is None and fp1 is not None and fp1 != [Vector(list(c)).fingerprint() for c in t.cols()]:
        fails.append(Fail(f'C08:{site}:stale-fingerprint', f'{src}: a column fingerprint() does not match its new contents', None, None))
    kinds = [c.schema().kind for c in t.cols()]
    if t.column_names() != names:
        fails.append(Fail(f'C08:{site}:column-names-changed', f'{src}: {t.column_names()!r}', names, t.column_names()))
    if any(len(col) != len(d[names[0]]) for col in got) or len(got) != len(names):
        fails.append(Fail(f'C08:{site}:shape-changed', f'{src}: {got!r}', None, got))
        return fails
    must_fail = col_expect is None or any(o[0] == 'fail' for o in col_expect.values())
    if err is not None:
        if not must_fail:
            bad = [o for o in col_expect.values() if o[0] == 'ok']
            cls = f'raised-{type(err).__name__}'
            return fails + [Fail(f'C08:{site}:{cls}', f'{src} raised {err!r}; every addressed cell accepts its value', None, repr(err))]
        if view(t) != before_view:
            # untouched columns must be untouched in any case
            touched = set(col_expect or {})
            for j, nm in enumerate(names):
                if j not in touched and not same(got[j], d[nm]):
                    fails.append(Fail(f'C08:{site}:unaddressed-column-changed-on-failure', f'{src} raised {err!r}; column {nm!r} is now {got[j]!r}', d[nm], got[j]))
                    return fails
            if all_or_nothing or STRICT_TABLE_ATOMIC:
                fails.append(Fail(f'C08:{site}:not-atomic-on-{type(err).__name__}', f'{src} raised {err!r} but the table changed: {got!r}', [d[nm] for nm in names], got))
            else:
                # each column individually unchanged or completely assigned
                for j in touched:
                    o = col_expect[j]
                    if same(got[j], d[names[j]]):
                        continue
                    if o[0] == 'ok' and all(widened(w, g) if i in o[4] else same(g, w) for i, (g, w) in enumerate(zip(got[j], o[1]))):
                        continue
                    fails.append(Fail(f'C08:{site}:column-half-written-on-failure', f'{src} raised {err!r}; column {names[j]!r} is now {got[j]!r}', d[names[j]], got[j]))
                    break
        return fails
    if must_fail:
        why = 'bad column / row / shape' if col_expect is None else [o[1] for o in col_expect.values() if o[0] == 'fail'][0]
        return fails + [Fail(f'C08:{site}:invalid-assignment-accepted', f'{src} did not raise ({why}); table is now {got!r}', 'an error', got)]
    for j, nm in enumerate(names):
        o = col_expect.get(j)
        if o is None or o[0] == 'noop':
            if not same(got[j], d[nm]):
                fails.append(Fail(f'C08:{site}:unaddressed-cell-changed', f'{src}: column {nm!r} is {got[j]!r}', d[nm], got[j]))
                break
            continue
        _, want, k2, null2, written, promoted = o
        for i, (g, w) in enumerate(zip(got[j], want)):
            if not (widened(w, g) if i in written else same(g, w)):
                cls = 'wrong-written-cell' if i in written else ('existing-element-not-converted' if promoted else 'unaddressed-cell-changed')
                fails.append(Fail(f'C08:{site}:{cls}', f'{src}: column {nm!r} is {got[j]!r}, expected {want!r}', want, got[j]))
                return fails
        if kinds[j] is not k2:
            fails.append(Fail(f'C08:Vector.setitem.decision:wrong-kind-after-promotion', f'{src}: column {nm!r} schema {t.cols()[j].schema()!r}, expected {k2.__name__}', k2.__name__, kinds[j].__name__))
        if any(want[i] is None for i in written) and not t.cols()[j].schema().nullable:
            fails.append(Fail(f'C08:Vector.setitem.decision:none-not-made-nullable', f'{src}: None written into column {nm!r}, schema {t.cols()[j].schema()!r}', 'nullable', repr(t.cols()[j].schema())))
    for col in t.cols():
        m = truthful(col)
        if m:      # the table only forwards to the column's __setitem__: same defect, same key
            fails.append(Fail(f'C03:Vector.setitem.{c03_cause(col)}:truthful', f'{src}: {m}', None, None))
            break
    return fails


def spec_src(cs):
    if cs[0] in ('int',):
        return str(cs[1])
    if cs[0] == 'name':
        return repr(cs[1])
    s = slice(*cs[1])
    return f'{"" if s.start is None else s.start}:{"" if s.stop is None else s.stop}:{"" if s.step is None else s.step}'


def run_table(d, do):
    t = mktable(d)
    before = view(t)
    _FP0.clear()
    _FP0[id(t)] = [c.fingerprint() for c in t.cols()]
    try:
        do(t)
        err = None
    except Exception as e:
        err = e.with_traceback(None)      # no frame cycle: vectors must die with the case
    return t, before, err


def eval_tcell(case):
    d = cev(case['t'])
    names = list(d)
    i, cs, x = case['row'], case['col'], cev(case['x'])
    src = f't = Table({case["t"]}); t[{i}, {spec_src(cs)}] = {case["x"]}'
    cols = resolve_cols(names, cs)
    t, before, err = run_table(d, lambda t: t.__setitem__((i, cs[1]), x))
    if cols is None:
        exp = None
    else:
        j = cols[0]
        exp = {j: model(d[names[j]], TKIND[names[j]], False, ['int', i], ['s', x])}
    return check_table(case, src, 'Table.setitem.cell', d, t, before, err, exp, True)


def eval_trow(case):
    d = cev(case['t'])
    names = list(d)
    i, vals = case['row'], cev(case['vals'])
    key = i if case['how'] == 't[i]' else (i, slice(None))
    src = f't = Table({case["t"]}); {case["how"].replace("i", str(i))} = {case["vals"]}'
    t, before, err = run_table(d, lambda t: t.__setitem__(key, vals))
    if len(vals) != len(names):
        exp = None
    else:
        exp = {j: model(d[nm], TKIND[nm], False, ['int', i], ['s', vals[j]]) for j, nm in enumerate(names)}
    single = len(names) == 1
    return check_table(case, src, 'Table.setitem.row', d, t, before, err, exp, single or exp is None or all(o[0] == 'fail' and o[1] == 'index' for o in exp.values()))


def eval_tcol(case):
    d = cev(case['t'])
    names = list(d)
    rs, cs = case['rows'], case['col']
    val = case['val']
    x = cev(val[1])
    src = f't = Table({case["t"]}); t[{spec_src(["slice", rs])}, {spec_src(cs)}] = {val[1]}'
    cols = resolve_cols(names, cs)
    t, before, err = run_table(d, lambda t: t.__setitem__((slice(*rs), cs[1]), x))
    if cols is None:
        exp = None
    else:
        j = cols[0]
        exp = {j: model(d[names[j]], TKIND[names[j]], False, ['slice', rs], [val[0], x])}
    return check_table(case, src, 'Table.setitem.column', d, t, before, err, exp, True)


def eval_tregion(case):
    d = cev(case['t'])
    names = list(d)
    rs, csl = case['rows'], case['cols']
    val = case['val']
    x = cev(val[1])
    cols = list(range(len(names)))[slice(*csl)]
    src = f't = Table({case["t"]}); t[{spec_src(["slice", rs])}, {spec_src(["slice", csl])}] = ' + (val[1] if val[0] == 's' else f'Table({val[1]})')
    if val[0] == 't':
        value = mktable(x)
        srccols = list(x.values())
        if len(srccols) != len(cols):
            exp = None
        else:
            exp = {j: model(d[names[j]], TKIND[names[j]], False, ['slice', rs], ['l', srccols[q]]) for q, j in enumerate(cols)}
    else:
        value = x
        exp = {j: model(d[names[j]], TKIND[names[j]], False, ['slice', rs], ['s', x]) for j in cols}
    t, before, err = run_table(d, lambda t: t.__setitem__((slice(*rs), slice(*csl)), value))
    if exp is not None and not cols:
        exp = {}
    aon = exp is None or len(cols) <= 1 or all(o[0] == 'fail' for o in exp.values())
    return check_table(case, src, 'Table.setitem.region', d, t, before, err, exp, aon)


def eval_rename(case):
    d = cev(case['t'])
    names = list(d)
    old, new = case['old'], case['new']
    src = f't = Table({case["t"]}); t.rename_columns({old!r}, {new!r})'
    sim = list(names)
    ok = len(old) == len(new)
    if ok:
        for o, nw in zip(old, new):
            if o not in sim:
                ok = False
                break
            sim[sim.index(o)] = nw
    t = mktable(d)
    before = view(t)
    try:
        t.rename_columns(list(old), list(new))
        err = None
    except Exception as e:
        err = e.with_traceback(None)      # no frame cycle: vectors must die with the case
    got = t.column_names()
    cells_same = same(grid(t), [d[nm] for nm in names])
    fails = []
    if not cells_same:
        fails.append(Fail('C08:Table.rename_columns:cells-changed', src, None, grid(t)))
    if err is not None:
        if got != names:
            fails.append(Fail('C08:Table.rename_columns:not-atomic', f'{src} raised {err!r} but column_names() = {got!r}', names, got))
        if ok:
            fails.append(Fail(f'C08:Table.rename_columns:raised-{type(err).__name__}', f'{src} raised {err!r}; expected names {sim!r}', sim, repr(err)))
        return fails
    if not ok:
        fails.append(Fail('C08:Table.rename_columns:invalid-rename-accepted', f'{src} did not raise; column_names() = {got!r}', 'an error', got))
    elif got != sim:
        fails.append(Fail('C08:Table.rename_columns:wrong-names', f'{src}: column_names() = {got!r}', sim, got))
    return fails


def _loose(n):
    return n.lower().replace(' ', '_')


def renamed_table(d, plan):
    """A fresh table with the plan applied: all views taken first, then the names set; nothing else touched."""
    t = mktable(d)
    cur = list(d)
    views = {}
    for i, new, how in plan:
        if (i, how) in views:
            continue
        if how == 'view':
            views[(i, how)] = t[cur[i]]
        elif how == 'attr':
            views[(i, how)] = getattr(t, cur[i])
        else:
            views[(i, how)] = t.cols()[i]
    for i, new, how in plan:
        views[(i, how)].name = new
    return t


def plan_src(d, plan):
    cur = list(d)
    parts = []
    for i, new, how in plan:
        tgt = {'view': f't[{cur[i]!r}]', 'attr': f't.{cur[i]}', 'cols': f't.cols()[{i}]'}[how]
        parts.append(f'{tgt}.name = {new!r}')
    return ('views taken, then ' + '; '.join(parts) + '; ') if parts else ''


def eval_trn(case):
    d = cev(case['t'])
    plan, form = case['plan'], case['form']
    have = list(d)
    after, gone = names_after(have, plan)
    req = case['names'] if form == 'row' else [case['name']]
    x = cev(case['x'])
    idx, must_raise, undecided, twin, unsan = [], None, False, False, False
    for nm in req:
        exact = [j for j, a in enumerate(after) if a == nm]
        loose = sum(1 for a in after if _loose(a) == _loose(nm))
        if len(exact) == 1:
            idx.append(exact[0])
            twin = twin or loose > 1
            unsan = unsan or not nm.isidentifier()      # the name is not its own attribute spelling ('x y')
        elif len(exact) > 1 or loose:
            undecided = True               # ambiguous, or a case / sanitisation variant: may be resolved or rejected
        else:
            must_raise = must_raise or nm
    if undecided and not must_raise:
        return []
    if len(set(after)) != len(after):
        return []
    d2 = {after[j]: d[have[j]] for j in range(len(have))}
    kinds = [type(d[h][0]) for h in have]
    if form == 'cell':
        key, ksrc = (case['row'], case['name']), f't[{case["row"]}, {case["name"]!r}]'
    elif form == 'column':
        key, ksrc = (slice(*case['rows']), case['name']), f't[{spec_src(["slice", case["rows"]])}, {case["name"]!r}]'
    else:
        key, ksrc = (case['row'], list(req)), f't[{case["row"]}, {list(req)!r}]'
    src = f't = Table({case["t"]}); {plan_src(d, plan)}{ksrc} = {case["x"]}'
    try:
        ref = renamed_table(d, plan)       # an identical twin supplies the 'before' picture: t itself is not touched
        before, fp0 = view(ref), [c.fingerprint() for c in ref.cols()]
        t = renamed_table(d, plan)
    except Exception as e:
        return [Fail(f'C08:rename-through-view:raised-{type(e).__name__}', src + f': preparing the table raised {e!r}', None, repr(e))]
    try:
        t[key] = x
        err = None
    except Exception as e:
        err = e.with_traceback(None)
    if must_raise:
        exp = None
    elif form == 'cell':
        exp = {idx[0]: model(d[have[idx[0]]], kinds[idx[0]], False, ['int', case['row']], ['s', x])}
    elif form == 'column':
        exp = {idx[0]: model(d[have[idx[0]]], kinds[idx[0]], False, ['slice', case['rows']], ['l' if isinstance(x, list) else 's', x])}
    else:
        exp = {j: model(d[have[j]], kinds[j], False, ['int', case['row']], ['s', x[q]]) for q, j in enumerate(idx)}
    tag = '.case-twin-name' if twin else ('.unsanitised-name' if unsan else ('.after-rename' if plan else '.by-name'))
    aon = exp is None or len(exp) <= 1 or all(o[0] == 'fail' and o[1] == 'index' for o in exp.values())
    fails = check_table(case, src, f'Table.setitem.{form}{tag}', d2, t, before, err, exp, aon, fp0=fp0)
    if twin or unsan:
        # The statements do not decide these: C17 defines a column key of table item assignment as
        # the ACCESSOR name (so with columns 'Val','val' the key 'val' addresses column 0, and the
        # stored name 'x y' is not a key at all), while exact stored names are promised only for
        # string INDEXING.  Demanding getitem-style resolution here asked for more than is stated
        # (reported once as a false alarm, see DESIGN.md addendum): C08-level failures of these two
        # families are dropped, C03 truthfulness findings are kept.
        fails = [f for f in fails if not f['key'].startswith('C08:')]
    return fails


def _cells_equal(got, want):
    return len(got) == len(want) and all((g is None) == (w is None) and (g is None or g == w) for g, w in zip(got, want))


def _snap(v):
    return (view(v), tuple(type(x).__name__ for x in v._underlying), v.fingerprint())


def eval_unconv(case):
    """A write during which converting an element / a value raises: raise => nothing changed at all;
    no raise => the contents are what list assignment gives (compared with ==)."""
    on, which = case['on'], case['which']
    cls = f'not-atomic-when-{which}-conversion-raises'
    fails = []
    if on == 'vec':
        L = cev(case['col'])
        key, val = case['key'], case['val']
        x = cev(val[1])
        site = f'Vector.setitem.{KEYSITE[key[0]]}'
        pos = positions(key, len(L))[1]
        src = f"v = Vector({case['col']}, name='n'); v[{keysrc(key)}] = " + (f'Vector({val[1]})' if val[0] == 'v' else f'tuple({val[1]})' if val[0] == 't' else val[1])
        try:
            v = Vector(list(L), name='n')
            value = x if val[0] in ('s', 'l') else tuple(x) if val[0] == 't' else Vector(list(x))
            k = mkkey(key)
        except Exception:
            return []                   # building the operands is not the operation under test
        before = _snap(v)
        try:
            v[k] = value
            err = None
        except Exception as e:
            err = e.with_traceback(None)
        after = _snap(v)
        if err is not None:
            if after != before:
                fails.append(Fail(f'C08:{site}:{cls}', f'{src} raised {type(err).__name__} ({err}) but the vector changed: schema {before[0][3]} -> {after[0][3]}, '
                                  f'element types {before[1]} -> {after[1]}, name {before[0][2]!r} -> {after[0][2]!r}, fingerprint '
                                  f'{"same" if before[2] == after[2] else "changed"}', before[0][3:] + (before[1],), after[0][3:] + (after[1],)))
            return fails
        want = list(L)
        for p, w in zip(pos, [x] * len(pos) if val[0] == 's' else list(x)):
            want[p] = w
        got = list(v._underlying)
        if not _cells_equal(got, want) or v.name != 'n':
            fails.append(Fail(f'C08:{site}:unconvertible-write-wrong-contents', f'{src} did not raise; the vector holds other values than list assignment gives',
                              hsrc(want), repr(after[0])[:300]))
        m = truthful(v)
        if m:
            fails.append(Fail(f'C03:Vector.setitem.{c03_cause(v)}:truthful', f'{src}: {m[:300]}', None, repr(v.schema())))
        return fails
    # ---- table writes
    d = cev(case['t'])
    names = list(d)
    n = len(d['a'])
    try:
        t = mktable(d)
    except Exception:
        return []
    if on == 'cell':
        i, cs, x = case['row'], case['col'], cev(case['x'])
        src = f"t = Table({case['t']}); t[{i}, {spec_src(cs)}] = {case['x']}"
        do = lambda: t.__setitem__((i, cs[1]), x)
        addressed, assign = {'a'}, {'a': ([i], [x])}
    elif on == 'row':
        i, x = case['row'], cev(case['x'])
        src = f"t = Table({case['t']}); {case['how'].replace('i', str(i))} = {case['x']}"
        key = i if case['how'] == 't[i]' else (i, slice(None))
        do = lambda: t.__setitem__(key, list(x))
        addressed, assign = set(names), {nm: ([i], [x[j]]) for j, nm in enumerate(names)}
    elif on == 'column':
        rs, val = case['rows'], case['val']
        x = cev(val[1])
        rows = list(range(n))[slice(*rs)]
        value = x if val[0] in ('s', 'l') else Vector(list(x))
        src = f"t = Table({case['t']}); t[{spec_src(['slice', rs])}, 'a'] = " + (f'Vector({val[1]})' if val[0] == 'v' else val[1])
        do = lambda: t.__setitem__((slice(*rs), 'a'), value)
        addressed, assign = {'a'}, {'a': (rows, [x] * len(rows) if val[0] == 's' else list(x))}
    else:
        rs, csl, x = case['rows'], case['cols'], cev(case['val'][1])
        rows = list(range(n))[slice(*rs)]
        cols = names[slice(*csl)]
        try:
            value = mktable(x)
        except Exception:
            return []
        src = f"t = Table({case['t']}); t[{spec_src(['slice', rs])}, {spec_src(['slice', csl])}] = Table({case['val'][1]})"
        do = lambda: t.__setitem__((slice(*rs), slice(*csl)), value)
        addressed, assign = set(cols), {nm: (rows, list(col)) for nm, col in zip(cols, x.values())}
    site = f'Table.setitem.{on}'
    before = {nm: _snap(c) for nm, c in zip(names, t.cols())}
    try:
        do()
        err = None
    except Exception as e:
        err = e.with_traceback(None)
    if t.column_names() != names or len(t.cols()) != len(names):
        return [Fail(f'C08:{site}:column-names-changed', f'{src}: {t.column_names()!r}', names, t.column_names())]
    after = {nm: _snap(c) for nm, c in zip(names, t.cols())}
    if err is not None:
        for nm in names:
            if after[nm] == before[nm]:
                continue
            if nm == 'a' or nm not in addressed or len(addressed) == 1 or STRICT_TABLE_ATOMIC:
                # the column in which the conversion raises, and every column the write does not address, must be untouched
                # (an ordinary neighbour column of a multi-column write may already be assigned: statement undecided)
                fails.append(Fail(f'C08:{site}:{cls}' if nm == 'a' else f'C08:{site}:unaddressed-column-changed-on-failure',
                                  f'{src} raised {type(err).__name__} ({err}) but column {nm!r} changed: schema {before[nm][0][3]} -> {after[nm][0][3]}, '
                                  f'element types {before[nm][1]} -> {after[nm][1]}, fingerprint {"same" if before[nm][2] == after[nm][2] else "changed"}',
                                  before[nm][0][3:] + (before[nm][1],), after[nm][0][3:] + (after[nm][1],)))
                break
        return fails
    for nm in names:
        want = list(d[nm])
        if nm in assign:
            for p, w in zip(*assign[nm]):
                want[p] = w
        if not _cells_equal(list(t.cols()[names.index(nm)]._underlying), want):
            fails.append(Fail(f'C08:{site}:unconvertible-write-wrong-contents', f'{src} did not raise; column {nm!r} holds other values than list assignment gives',
                              hsrc(want), repr(after[nm][0])[:300]))
            break
    for col in t.cols():
        m = truthful(col)
        if m:
            fails.append(Fail(f'C03:Vector.setitem.{c03_cause(col)}:truthful', f'{src}: {m[:300]}', None, None))
            break
    return fails


EVAL = {'unconv': eval_unconv, 'vec': eval_vec, 'tcell': eval_tcell, 'trow': eval_trow, 'tcol': eval_tcol, 'tregion': eval_tregion, 'rename': eval_rename,
        'trn': eval_trn}


def evaluate(case):
    try:
        return EVAL[case['k']](case)
    except Exception as e:
        import traceback
        return [Fail(f'C08:harness:{case["k"]}:oracle-crash', f'{type(e).__name__}: {e} {traceback.format_exc()[-300:]}', None, None)]


def nontrivial(case):
    k = case['k']
    if k == 'vec':
        dt, n, key, val = case['dt'], case['n'], case['key'], case['val']
        vals, kind, name = BASE2[dt]
        pyval = cev(val[1])
        exp = model(vals[:n], kind, dt == 'nint', key, [val[0], pyval] + val[2:])
        st, pos = positions(key, n)
        kinds = tuple(type(x).__name__ for x in (pyval if isinstance(pyval, list) else [pyval]))
        return (dt, n, key[0], tuple(pos) if st == 'ok' else pos, val[0], kinds, exp[0], exp[1] if exp[0] == 'fail' else None)
    if k == 'unconv':
        return (k,) + tuple(str(case.get(f)) for f in ('on', 'which', 'col', 't', 'key', 'row', 'rows', 'cols', 'how', 'val', 'x'))
    return (k,) + tuple(str(case.get(f)) for f in ('t', 'row', 'col', 'rows', 'cols', 'x', 'vals', 'val', 'old', 'new', 'how', 'plan', 'form', 'name', 'names'))


if __name__ == '__main__':
    main('C08', cases, evaluate,
         rule='vectors of length 0..4 of 7 dtypes x key forms (int -n-1..n, 9x9x5 slice cube, all masks of length n and n+-1 as Vector and list, '
              'index list/tuple/int-vector of length 1..2 over -n-1..n) x value forms (8 scalars, symbol sequences over fits/narrower/wider/wider2/'
              'foreign/None, wrong lengths, tuple/Vector containers, sized iterable raising at each position): full key cube x 4 values on int and '
              'nullable-int, full value set x one key per addressed-position tuple on every dtype; tables up to 3x3 cell/row/column/region writes; '
              'rename_columns over all old/new lists of length<=2; one multi-value write needing >=2 different promotions in every order (vector keys, '
              'table column / region); failing writes mixing None with an incompatible value; writes addressed by column name as the first access '
              'after renames through live views; case-twin column names; writes during which a conversion raises (int columns holding +-10**400 receiving float / complex values, float / complex / int / bool columns receiving +-10**400; vector keys of every form, table cell / row / column / region).  Oracle: list assignment on the addressed positions + kind lattice; any raise '
              'must leave view() and fingerprint() unchanged.  distinct = (dtype, n, key form, addressed positions, value form, value kinds, outcome)',
         bound=lambda tier: {'max_len': 4, 'dtypes': 7, 'slice_cube': '9x9x5', 'index_list_len': 2, 'table': '3x3'},
         nontrivial=nontrivial)

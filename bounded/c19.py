"""C19 bounded stand-in: CSV ingestion is faithful to the file.

Round trip: a grid of cell texts is written with csv.writer (so quoting is the csv module's), read back
with serif.read_csv, and compared with an oracle computed from the cells:
  one column per header cell, named verbatim; one row per record; cell -> None if empty/blank, else
  int(stripped) if int() accepts, else float(stripped) if float() accepts, else the stripped string;
  short records padded with None; dtype of a column == ordinary inference on its values
  (Vector(values).schema()); header-less -> col_0, col_1, ...; header-only / empty input -> empty table.

Scope (14 cell texts: '', ' ', '1', ' 2 ', '1.5', '1e3', 'abc', 'a<delim>b', '"q"', 'x\\ny', 'é', '007', 'nan', '-')
-----
grids    : records x columns.  Exhaustive over the full 14-text alphabet for 1x1, 2x1, 1x2, 2x2, 1x3 (and 3x1 in
           thorough); a 4-text alphabet for 2x3 (quick), 7-text for 2x3, 6-text for 3x2 and 4-text for 3x3 (thorough).
           (14^6 = 7.5M, so the larger shapes cannot be exhaustive over all 14 texts; every column content and
           every adjacent pair of cells over the full alphabet is covered by the smaller shapes.)
options  : delimiter in , ; tab | x has_header x path / io.StringIO, on every grid up to 2x2 over an 8-text
           alphabet (quick: 5-text).
jagged   : every truncation pattern of every record (to any length 0..width) on the grids up to 2x3 / 3x3 over a
           4-text alphabet, with and without header (first record full length when header-less).
headers  : every header of width <= 3 over {'a', 'A b', '', '1', ' x'} (repeats included) on a fixed data grid.
edge     : empty input and header-only input for every delimiter / has_header / input kind / width <= 3.
crlf     : quoted cells with embedded '\\r\\n', lone '\\r', '\\n', mixtures and cells that are only a line break (9 texts),
           grids 1x1, 1x2, 2x1 over all 9 and 2x2 over 4 (thorough: 5 / 9, plus 1x3, 3x2), record terminators '\\r\\n', '\\n', '\\r',
           QUOTE_ALL and QUOTE_MINIMAL, with and without header, header cells with line breaks x all delimiters.  The text is
           written to a file in BINARY mode (exact line endings) and read by path, and read from io.StringIO(text, newline=''):
           both tables must match the oracle (csv.reader over the text + cell rule) and each other cell by cell.
short    : EVERY data record shorter than the header: header widths 2..5 (names 'id', 'name', 'comment', '', 'id'), 1..3 records,
           every pattern of record lengths 0..width-1 (blank lines included; header followed by blank lines only with all
           three terminators), delimiters x path / StringIO  -> still one column per header cell, None padded.
unidigit : cell texts made of NON-ASCII digit characters and other numeric look-alikes ('²', '¹⁰', '①', '½', '1²' - str.isdigit() /
           isnumeric() say yes, int() says no -> strings; '١٢٣', '１２', '१२', '-١', '٣.٥' - int() / float() accept them -> 123, 12, 12,
           -1, 3.5; '1_000', '+5', '.5', '0x10', 'infinity', padded ' ² '): the cell rule is what int() / float() ACCEPT, and read_csv
           never raises.  Grids 1x1, 2x1, 1x2 over the 16 texts + 4 ASCII texts (thorough: 3x1 over 9), with / without header,
           all delimiters x path / StringIO on 1x1 and a 2x1 subset, and as header cells (named verbatim).
onecol   : ONE-column files with blank lines inside / at the end of the data: 1..4 records, each a blank line (a zero-field record) or
           one of 5 cells, every pattern, with header and header-less (first record non-blank), terminators x delimiters x
           path / StringIO: a zero-field record is a record -> one row, cell None.
"""
import atexit
import csv
import io
import itertools
import os
import tempfile

from harness import *  # noqa
from serif import read_csv

CELLS = ['', ' ', '1', ' 2 ', '1.5', '1e3', 'abc', 'a<D>b', '"q"', 'x\ny', 'é', '007', 'nan', '-']
C8 = ['', ' ', '1', ' 2 ', '1.5', 'abc', 'a<D>b', 'x\ny']
C7 = ['', ' ', '1', '1.5', 'abc', 'a<D>b', '007']
C5 = ['', '1', ' 2 ', 'abc', 'a<D>b']
C4 = ['', '1', '1.5', 'abc']
DELIMS = [',', ';', '\t', '|']
HEADER_NAMES = ['a', 'A b', '', '1', ' x']

_tmp = {'path': None}


def tmp_path():
    if _tmp['path'] is None:
        # a memory-backed directory when there is one: thousands of tiny files are written and re-read (30x faster than disk)
        shm = '/dev/shm' if os.path.isdir('/dev/shm') and os.access('/dev/shm', os.W_OK) else None
        fd, p = tempfile.mkstemp(prefix='c19_', suffix='.csv', dir=shm)
        os.close(fd)
        _tmp['path'] = p
        atexit.register(lambda: os.path.exists(p) and os.remove(p))
    return _tmp['path']


# ---------------------------------------------------------------------------------------------
# oracle
# ---------------------------------------------------------------------------------------------
def cell_value(text):
    if text == '' or text.strip() == '':
        return None
    s = text.strip()
    try:
        return int(s)
    except ValueError:
        pass
    try:
        return float(s)
    except ValueError:
        pass
    return s


def kind_of(v):
    return 'none' if v is None else type(v).__name__


def render(records, delim, lineterminator='\r\n', quote_all=False):
    buf = io.StringIO(newline='')
    w = csv.writer(buf, delimiter=delim, lineterminator=lineterminator, quoting=csv.QUOTE_ALL if quote_all else csv.QUOTE_MINIMAL)
    for rec in records:
        w.writerow(rec)
    return buf.getvalue()


def default_header(width):
    return [f'h{i}' for i in range(width)]


# ---------------------------------------------------------------------------------------------
def grids(alphabet, nrec, width):
    for flat in itertools.product(alphabet, repeat=nrec * width):
        yield [list(flat[r * width:(r + 1) * width]) for r in range(nrec)]


def cases(tier, seed):
    yield from cases_v1(tier, seed)
    yield from crlf_cases(tier)
    yield from short_cases(tier)
    yield from unidigit_cases(tier)
    yield from onecol_cases(tier)


# ---------------------------------------------------------------------------------------------
# cells of non-ASCII digit characters: the rule is what int() / float() accept, not str.isdigit() / isnumeric() / a regex
# ---------------------------------------------------------------------------------------------
UNI_CELLS = ['\u00b2', '\u00b9\u2070', '\u2460', '\u0661\u0662\u0663', '\uff11\uff12', '\u0663.\u0665', '\u00bd', '-\u0661', '1\u00b2',
             '\u0967\u0968', ' \u00b2 ', '1_000', '+5', '.5', '0x10', 'infinity']
UNI_ASCII = ['1', '', 'abc', '1.5']
assert [t.isdigit() for t in UNI_CELLS[:3]] == [True, True, True]


def _accepts(fn, text):
    try:
        fn(text)
        return True
    except ValueError:
        return False


# the texts are what this block says they are (under this interpreter): digits for str.isdigit(), not for int(); or the converse
assert not any(_accepts(int, t) or _accepts(float, t) for t in UNI_CELLS[:3] + [UNI_CELLS[6], UNI_CELLS[8]])
assert int(UNI_CELLS[3]) == 123 and int(UNI_CELLS[4]) == 12 and float(UNI_CELLS[5]) == 3.5 and int(UNI_CELLS[7]) == -1 and int(UNI_CELLS[9]) == 12


def unidigit_cases(tier):
    q = tier == 'quick'
    alpha = UNI_CELLS + UNI_ASCII
    n = 0
    for nrec, width in [(1, 1), (2, 1), (1, 2)] + ([] if q else [(3, 1)]):
        for g in grids(alpha if nrec < 3 else UNI_CELLS[:7] + ['1', ''], nrec, width):
            if not any(c in UNI_CELLS for rec in g for c in rec):
                continue
            n += 1
            yield {'op': 'grid', 'grid': g, 'header': default_header(width) if n % 2 else None, 'delim': ',', 'input': 'sio', 'uni': True}
    for g in list(grids(UNI_CELLS, 1, 1)) + [[[a], [b]] for a in UNI_CELLS[:8] for b in (UNI_CELLS[:5] if q else UNI_CELLS)]:
        for d in DELIMS:
            for inp in ('sio', 'path'):
                for hh in (True, False):
                    if d == ',' and inp == 'sio':
                        continue
                    yield {'op': 'grid', 'grid': g, 'header': default_header(1) if hh else None, 'delim': d, 'input': inp, 'uni': True}
    for hdr in itertools.product(UNI_CELLS[:5] + ['a'], repeat=2):
        yield {'op': 'grid', 'grid': [['1', UNI_CELLS[0]], [UNI_CELLS[3], '']], 'header': list(hdr), 'delim': ',', 'input': 'sio', 'uni': True}


# ---------------------------------------------------------------------------------------------
# one-column files: a blank line inside the data is a zero-field record, i.e. a row whose only cell is None
# ---------------------------------------------------------------------------------------------
ONECOL_CELLS = ['1', 'abc', '', ' ', '2.5']


def onecol_cases(tier):
    q = tier == 'quick'
    choices = [None] + ONECOL_CELLS                       # None: a blank line (zero fields)
    for nrec in (1, 2, 3) if q else (1, 2, 3, 4):
        for combo in itertools.product(choices, repeat=nrec):
            if all(c is not None for c in combo):
                continue                                  # no blank line: the ordinary grids
            g = [[] if c is None else [c] for c in combo]
            few = nrec >= 3
            for hh in (True, False):
                if not hh and combo[0] is None:
                    continue                              # header-less: the first record fixes the width (not decided for a blank one)
                for d in ([','] if few else DELIMS):
                    for inp in ('sio', 'path'):
                        for lt in (TERMINATORS if (not few or not q) else ['\r\n', '\n']):
                            yield {'op': 'grid', 'grid': g, 'header': ['id'] if hh else None, 'delim': d, 'input': inp, 'width': 1, 'lt': lt,
                                   'onecol': True}


def cases_v1(tier, seed):
    q = tier == 'quick'
    base = {'delim': ',', 'input': 'sio'}
    # -- grids --------------------------------------------------------------------------------
    shapes = [(1, 1, CELLS), (2, 1, CELLS), (1, 2, CELLS), (2, 2, CELLS), (1, 3, CELLS)]
    if q:
        shapes += [(2, 3, C4)]
    else:
        shapes += [(3, 1, CELLS), (2, 3, C7), (3, 2, C7[:6]), (3, 3, C4)]
    n = 0
    for nrec, width, alpha in shapes:
        for g in grids(alpha, nrec, width):
            n += 1
            yield dict(base, op='grid', grid=g, header=default_header(width) if n % 2 else None)
    # -- option matrix ------------------------------------------------------------------------
    alpha = C5 if q else C8
    for nrec, width in [(1, 1), (2, 1), (1, 2), (2, 2)]:
        for g in grids(alpha, nrec, width):
            for d in DELIMS:
                for hh in (True, False):
                    for inp in ('sio', 'path'):
                        yield {'op': 'grid', 'grid': g, 'header': default_header(width) if hh else None, 'delim': d, 'input': inp}
    # -- jagged records -----------------------------------------------------------------------
    jshapes = [(1, 2), (2, 2), (1, 3), (2, 3)] + ([] if q else [(3, 2), (3, 3)])
    for nrec, width in jshapes:
        alpha = C4 if nrec * width <= 6 else ['', '1', 'abc']
        for cut in itertools.product(range(0, width + 1), repeat=nrec):
            if all(c == width for c in cut):
                continue
            for flat in itertools.product(alpha, repeat=sum(cut)):
                jg, k = [], 0
                for c in cut:
                    jg.append(list(flat[k:k + c]))
                    k += c
                yield dict(base, op='grid', grid=jg, header=default_header(width), width=width)
                if cut[0] == width:
                    yield dict(base, op='grid', grid=jg, header=None, width=width)
    # -- headers ------------------------------------------------------------------------------
    for width in (1, 2, 3):
        for hdr in itertools.product(HEADER_NAMES, repeat=width):
            for d in ([','] if q else DELIMS):
                yield {'op': 'grid', 'grid': [['1', 'abc', ''][:width], ['', ' 2 ', '1.5'][:width]], 'header': list(hdr),
                       'delim': d, 'input': 'sio'}
    # -- edge: empty and header-only ----------------------------------------------------------
    for d in DELIMS:
        for inp in ('sio', 'path'):
            for hh in (True, False):
                yield {'op': 'empty', 'delim': d, 'input': inp, 'has_header': hh}
            for width in (1, 2, 3):
                yield {'op': 'header-only', 'header': ['a', 'b', 'a'][:width], 'delim': d, 'input': inp}


# ---------------------------------------------------------------------------------------------
# carriage returns inside quoted cells: path input (exact bytes on disk) must read like the same text as a stream
# ---------------------------------------------------------------------------------------------
CR_CELLS = ['a', 'x\r\ny', 'x\ry', 'x\ny', '\r', '\r\n', 'p\r\n\r\nq', ' 1\r2 ', '7\r']
CR_CELLS5 = ['a', 'x\r\ny', 'x\ry', '\r', '1\n\r2']
TERMINATORS = ['\r\n', '\n', '\r']


def crlf_cases(tier):
    q = tier == 'quick'
    shapes = [(1, 1, CR_CELLS), (1, 2, CR_CELLS), (2, 1, CR_CELLS), (2, 2, CR_CELLS5[:4] if q else CR_CELLS5)]
    if not q:
        shapes += [(1, 3, CR_CELLS), (2, 2, CR_CELLS), (3, 2, CR_CELLS5[:4])]
    for nrec, width, alpha in shapes:
        for g in grids(alpha, nrec, width):
            for lt in TERMINATORS:
                for hh in ((True,) if nrec * width == 4 else (True, False)):        # 2x2: with header only
                    yield {'op': 'crlf', 'grid': g, 'header': default_header(width) if hh else None, 'delim': ',', 'lt': lt, 'input': 'path+sio'}
    # header cells with embedded line breaks; other delimiters
    for hdr in (['h\r\n0', 'h\r1'], ['a\rb', 'a\rb'], ['\r', 'x']):
        for lt in TERMINATORS:
            for d in DELIMS:
                yield {'op': 'crlf', 'grid': [['x\r\ny', '1'], ['2', 'u\rv']], 'header': hdr, 'delim': d, 'lt': lt, 'input': 'path+sio'}


# ---------------------------------------------------------------------------------------------
# EVERY data record shorter than the header (trailing header cells nobody fills; header followed by blank lines only)
# ---------------------------------------------------------------------------------------------
SHORT_HEADER = ['id', 'name', 'comment', '', 'id']
SHORT_FILL = ['1', '', 'abc', ' ', '2.5']


def short_cases(tier):
    q = tier == 'quick'
    for width in (2, 3, 4, 5):
        for nrec in (1, 2, 3):
            if q and width == 5 and nrec == 3:
                continue
            for cut in itertools.product(range(0, width), repeat=nrec):          # every record strictly shorter than the header
                g = [[SHORT_FILL[(r + j) % len(SHORT_FILL)] for j in range(c)] for r, c in enumerate(cut)]
                blank_only = not any(cut)
                for d in (DELIMS if (blank_only or not q or width <= 3) else [',', '\t']):
                    for inp in ('sio', 'path'):
                        for lt in (TERMINATORS if blank_only else ['\r\n']):
                            yield {'op': 'grid', 'grid': g, 'header': SHORT_HEADER[:width], 'delim': d, 'input': inp, 'width': width, 'lt': lt,
                                   'short': True}


# ---------------------------------------------------------------------------------------------
def write_bytes(text):
    p = tmp_path()
    with open(p, 'wb') as fh:                 # binary: the line endings on disk are exactly those of `text`
        fh.write(text.encode('utf-8'))
    return p


def eval_crlf(case):
    delim, lt = case['delim'], case['lt']
    header = case['header']
    has_header = header is not None
    records = ([header] if has_header else []) + case['grid']
    fails = []
    for quote_all in (True, False):
        text = render(records, delim, lineterminator=lt, quote_all=quote_all)
        parsed = list(csv.reader(io.StringIO(text, newline=''), delimiter=delim))   # the csv module's reading is the truth
        if not parsed:
            continue
        names = list(parsed[0]) if has_header else [f'col_{i}' for i in range(len(parsed[0]))]
        grid = parsed[1:] if has_header else parsed
        width = len(names)
        if not grid or width == 0 or any(len(rec) > width for rec in grid):
            continue                              # header-only / no column at all / over-long records: other cases, or not decided
        want_cols = [[cell_value(rec[j]) if j < len(rec) else None for rec in grid] for j in range(width)]
        jag = any(len(rec) < width for rec in grid)
        desc0 = f'{text!r}, has_header={has_header}, delimiter={delim!r}'
        got = {}
        for inp in ('path', 'sio'):
            desc = f'read_csv({desc0}, input={inp}' + (' (file written in binary mode)' if inp == 'path' else '') + ')'
            try:
                if inp == 'path':
                    t = read_csv(write_bytes(text), delimiter=delim, has_header=has_header)
                else:
                    t = read_csv(io.StringIO(text, newline=''), delimiter=delim, has_header=has_header)
            except Exception as e:
                fails.append(Fail('C19:read_csv:raises' + (':jagged' if jag else ''), f'{desc} raised {type(e).__name__}: {e}', 'a table',
                                  type(e).__name__))
                continue
            got[inp] = t
            fails += check_table(t, names, grid, width, want_cols, desc, has_header, jag)
        if len(got) == 2 and all(isinstance(t, Table) for t in got.values()):
            a, b = got['path'], got['sio']
            va = (list(a.column_names()), [list(c) for c in a.cols()], [c.schema() for c in a.cols()])
            vb = (list(b.column_names()), [list(c) for c in b.cols()], [c.schema() for c in b.cols()])
            if not (same(va[0], vb[0]) and same(va[1], vb[1]) and va[2] == vb[2]):
                what = 'column names' if not same(va[0], vb[0]) else ('cells' if not same(va[1], vb[1]) else 'dtypes')
                fails.append(Fail(f'C19:read_csv:path-differs-from-stream:{what.replace(" ", "-")}',
                                  f'read_csv({desc0}): the table read from a path holding exactly these characters differs in its {what} '
                                  f'from the table read from io.StringIO(text, newline="")', vb[:2], va[:2]))
        if fails:
            break
    # one Fail per key
    out, seen = [], set()
    for f in fails:
        if f['key'] not in seen:
            seen.add(f['key'])
            out.append(f)
    return out


def run_read(text, delim, has_header, inp):
    if inp == 'path':
        p = tmp_path()
        with open(p, 'w', encoding='utf-8', newline='') as fh:
            fh.write(text)
        return read_csv(p, delimiter=delim, has_header=has_header)
    return read_csv(io.StringIO(text, newline=''), delimiter=delim, has_header=has_header)


def check_table(t, names, grid, width, want_cols, desc, has_header, jag):
    """Compare a table returned by read_csv with the oracle (names, rows, cells, dtypes)."""
    if not isinstance(t, Table):
        return [Fail('C19:read_csv:not-a-table', desc, 'Table', type(t).__name__)]
    fails = []
    m = truthful(t)
    if m:
        fails.append(Fail('C03:read_csv:truthful', f'{desc}: {m}'))
    got_names = t.column_names()
    if len(got_names) != width:
        return fails + [Fail('C19:read_csv:column-count', f'{desc}: {len(got_names)} columns', width, len(got_names))]
    if not all(type(a) is type(b) and a == b for a, b in zip(got_names, names)):
        fails.append(Fail('C19:read_csv:column-names' + ('' if has_header else ':headerless'), f'{desc}: names {got_names!r}', names, got_names))
    if len(t) != len(grid):
        return fails + [Fail('C19:read_csv:row-count' + (':jagged' if jag else ''), f'{desc}: {len(t)} rows', len(grid), len(t))]
    for j, (col, want) in enumerate(zip(t.cols(), want_cols)):
        got = list(col)
        if not same(got, want):
            bad = next(i for i, (g, w_) in enumerate(zip(got, want)) if not same(g, w_))
            padded = bad < len(grid) and j >= len(grid[bad])
            src = None if padded else grid[bad][j]
            cls = 'padding' if padded else f'expected-{kind_of(want[bad])}-got-{kind_of(got[bad])}'
            fails.append(Fail(f'C19:read_csv:cell:{cls}', f'{desc}: column {j} row {bad}: cell text {src!r} read as {got[bad]!r}',
                              want[bad], got[bad]))
            break
        try:
            ref = Vector(want).schema()
        except Exception:
            ref = None
        if ref is not None and col.schema() != ref:
            fails.append(Fail('C19:read_csv:dtype', f'{desc}: column {j} values {want!r} carry {col.schema()!r}, ordinary inference '
                              f'gives {ref!r}', ref, col.schema()))
            break
    return fails


def evaluate(case):
    if case['op'] == 'crlf':
        return eval_crlf(case)
    delim, inp = case['delim'], case['input']
    where = f'delimiter={delim!r}, input={inp}'
    if case['op'] == 'empty':
        try:
            t = run_read('', delim, case['has_header'], inp)
        except Exception as e:
            return [Fail('C19:read_csv:empty-input-raises', f'read_csv of empty input ({where}) raised {type(e).__name__}: {e}',
                         'empty table', type(e).__name__)]
        if not isinstance(t, Table) or len(t) != 0:
            return [Fail('C19:read_csv:empty-input-not-empty-table', f'read_csv of empty input ({where})', 'empty table', view(t))]
        return []
    if case['op'] == 'header-only':
        hdr = case['header']
        text = render([hdr], delim)
        try:
            t = run_read(text, delim, True, inp)
        except Exception as e:
            return [Fail('C19:read_csv:header-only-raises', f'read_csv({text!r}, {where}) raised {type(e).__name__}: {e}',
                         'empty table', type(e).__name__)]
        fails = []
        if not isinstance(t, Table) or len(t) != 0:
            fails.append(Fail('C19:read_csv:header-only-not-empty-table', f'read_csv({text!r}, {where})', 'empty table (0 rows)', view(t)))
        elif len(t.cols()) not in (0, len(hdr)) or (len(t.cols()) == len(hdr) and list(t.column_names()) != hdr):
            fails.append(Fail('C19:read_csv:header-only-columns', f'read_csv({text!r}, {where}) has columns {t.column_names()!r}', hdr,
                              t.column_names()))
        return fails

    # ---- ordinary grid ----------------------------------------------------------------------
    grid = [[c.replace('<D>', delim) for c in rec] for rec in case['grid']]
    header = case['header']
    has_header = header is not None
    width = case.get('width') or (len(header) if has_header else len(grid[0]))
    records = ([header] if has_header else []) + grid
    text = render(records, delim, lineterminator=case.get('lt', '\r\n'))
    # what the csv module says the file contains (the statement defers to it for quoting)
    parsed = list(csv.reader(io.StringIO(text, newline=''), delimiter=delim))
    if parsed != records:
        # csv.writer/reader do not round-trip this text: the csv module's reading is the truth
        records = parsed
        grid = parsed[1:] if has_header else parsed
        if has_header:
            header = parsed[0]
    names = list(header) if has_header else [f'col_{i}' for i in range(width)]
    if any(len(rec) > width for rec in grid):
        return []                                     # records longer than the header: not decided by the statement
    want_cols = [[cell_value(rec[j]) if j < len(rec) else None for rec in grid] for j in range(width)]
    jag = any(len(rec) < width for rec in grid)
    desc = f'read_csv({text!r}, has_header={has_header}, {where})'

    family = ':non-ascii-digits' if case.get('uni') else ':one-column-blank-line' if case.get('onecol') else ''
    try:
        t = run_read(text, delim, has_header, inp)
    except Exception as e:
        return [Fail('C19:read_csv:raises' + (family or (':jagged' if jag else '')), f'{desc} raised {type(e).__name__}: {e}', 'a table',
                     type(e).__name__)]
    fails = check_table(t, names, grid, width, want_cols, desc, has_header, jag)
    if case.get('uni'):
        for f in fails:
            if f['key'].startswith('C19:read_csv:cell:expected-'):
                f['key'] += ':non-ascii-digit-or-look-alike-text'
    if case.get('onecol'):
        for f in fails:
            if f['key'] == 'C19:read_csv:row-count:jagged':
                f['key'] = 'C19:read_csv:row-count:one-column-blank-line'
                f['what'] += ' (a blank line in a one-column file is a zero-field record: one row, cell None)'
    return fails


def nontrivial(case):
    if case['op'] == 'crlf':
        brk = tuple(sorted({b for rec in case['grid'] + [case['header'] or []] for c in rec
                            for b in ('crlf' if '\r\n' in c else None, 'cr' if '\r' in c.replace('\r\n', '') else None,
                                      'lf' if '\n' in c.replace('\r\n', '') else None) if b}))
        return ('crlf', brk, case['lt'], case['delim'], case['header'] is None, (len(case['grid']), len(case['grid'][0])))
    if case['op'] != 'grid':
        return (case['op'], case['delim'], case['input'])
    if case.get('onecol'):
        return ('onecol', tuple(len(r) for r in case['grid']), case['delim'], case['input'], case.get('lt'), case['header'] is None)
    if case.get('uni'):
        return ('uni', str(case['grid']), case['delim'], case['input'], case['header'] is None)
    if case.get('short'):
        return ('short', tuple(len(r) for r in case['grid']), case['width'], case['delim'], case['input'], case.get('lt'))
    kinds = tuple(sorted({kind_of(cell_value(c)) for rec in case['grid'] for c in rec}))
    quoted = any(('<D>' in c or '"' in c or '\n' in c) for rec in case['grid'] for c in rec)
    jag = tuple(len(r) for r in case['grid']) if case.get('width') else None
    return (kinds, quoted, jag, case['delim'], case['input'], case['header'] is None,
            tuple(case['header']) if case['header'] and case['header'] != default_header(len(case['header'])) else None)


if __name__ == '__main__':
    main('C19', cases, evaluate,
         rule='round trip csv.writer -> read_csv over cell-text grids (exhaustive per shape over the stated alphabet), the full '
              'delimiter x has_header x path/StringIO matrix on grids up to 2x2, every truncation pattern of records (jagged), every '
              'header over a 5-name alphabet incl. repeats, empty and header-only input; quoted cells with embedded CRLF / CR / LF read '
              'from a path (file written in binary mode) and from a newline=\'\' stream, compared with each other and with csv.reader; '
              'every record-length pattern with ALL records shorter than a 2..5 cell header; cells of non-ASCII digit characters and other '
              'numeric look-alikes (decided by what int()/float() accept; never raises); one-column files with blank lines among <= 3 (4) records; oracle = int/float/str/None rule of the '
              'statement + Vector(values).schema(). distinct = (value kinds present, quoting needed, jag pattern, options)',
         bound=lambda tier: {'cell_texts': len(CELLS), 'max_shape': '2x3' if tier == 'quick' else '3x3',
                             'full_alphabet_shapes': ['1x1', '2x1', '1x2', '2x2', '1x3'] + ([] if tier == 'quick' else ['3x1']),
                             'reduced_alphabet_shapes': {'2x3': 4} if tier == 'quick' else {'2x3': 7, '3x2': 6, '3x3': 4},
                             'unidigit_texts': [ascii(c) for c in UNI_CELLS], 'unidigit_shapes': ['1x1', '2x1', '1x2'] + ([] if tier == 'quick' else ['3x1']),
                             'onecol_max_records': 3 if tier == 'quick' else 4, 'onecol_cells': ONECOL_CELLS},
         nontrivial=nontrivial)

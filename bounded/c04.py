"""C04 bounded stand-in: dtype inference is a function of the type set + None presence;
promotion never narrows, never drops nullability, is idempotent.

Scope: all sequences of length <= 4 (quick) / 5 (thorough) over a 13-value pool, compared
with the lattice join computed on the *set* of types; every (dtype, value) promotion pair.

"never on element order, position ... or LENGTH": the 'long' block types sequences and CSV files of
1001 / 1500 / 2500 rows of one kind (int, float, str) in which a value of ANOTHER kind (a float, an int, an
empty cell / short row = None, a text, None followed by a text; for plain sequences also bool, complex,
date) occurs exactly once - at the first, the middle, the 1000th, the 1001st or the last position.  The
dtype of read_csv's column (with and without a header line), of Vector(values) and of infer_dtype (list
and iterator) must be the lattice join of the kinds present, the parsed values must be the cells, and the
same rows in reversed order must give the same dtype (keys '...:long-*').
"""
import io
import itertools
from datetime import date, datetime

from harness import *  # noqa
from contracts import specs

POOL = [None, True, 0, 2.5, 1j, 'a', b'a', date(2020, 1, 1), datetime(2020, 1, 1, 0, 0), [1], {1: 2}, (1,), Opaque(1)]
KINDS = [bool, int, float, complex, str, bytes, date, datetime, list, dict, tuple, object, Opaque]


def set_join(values):
    kinds = {type(v) for v in values if v is not None}
    if not kinds:
        return DataType(object, True)
    k = None
    for t in kinds:
        k = t if k is None else specs.join(k, t)
    return DataType(k, any(v is None for v in values))


def cases(tier, seed):
    n = 4 if tier == 'quick' else 5
    idx = list(range(len(POOL)))
    for ln in range(0, n + 1):
        for combo in itertools.product(idx, repeat=ln):
            yield {'op': 'infer', 'values': lit([POOL[i] for i in combo])}
    for k in KINDS:
        for nullable in (False, True):
            for v in POOL:
                yield {'op': 'promote', 'kind': k.__name__, 'nullable': nullable, 'value': lit(v)}
    # "results of arithmetic, joins, aggregates and CSV parsing are typed by the same rule applied
    # to their values": derived columns over small value columns of every ladder kind
    VALCOLS = [[True, False, True], [True, None, False], [1, 2, 3], [1, None, 3], [1.5, 2.5, 0.5], [None, None, None],
               [1, 2.5, True], [date(2020, 1, 1), date(2020, 1, 2), None], ['a', 'b', 'c']]
    for vc in VALCOLS:
        for keys in ([0, 0, 1], [0, 1, 2], [None, None, 0]):
            yield {'op': 'derived', 'values': lit(vc), 'keys': lit(keys)}
    yield from long_cases(tier)


# ---- typing does not depend on size or position: long sequences and long CSV files ------------------
LONG_N = [1001, 1500, 2500]
LONG_BASE = ['int', 'float', 'str']
LONG_POS = ['first', 'middle', 'row-1000', 'row-1001', 'last']
# the one (or two) cells of another kind; 'missing' = the CSV row has no cell for the column at all
ODD = {'int': 7, 'float': 2.5, 'none': None, 'missing': None, 'str': 'n/a', 'bool': True, 'complex': 1j, 'date': date(2020, 1, 1)}
ODD_CSV = [['float'], ['int'], ['none'], ['missing'], ['str'], ['none', 'str'], []]
ODD_SEQ = ODD_CSV[:3] + ODD_CSV[4:] + [['bool'], ['complex'], ['date'], ['none', 'float']]


def long_base_value(base, i):
    r = i % 97
    return r if base == 'int' else r + 0.5 if base == 'float' else 'w%d' % r


def long_values(case):
    """(values, position of the first odd cell) of a 'long' case, from its parameters alone."""
    n, odd = case['n'], case['odd']
    vals = [long_base_value(case['base'], i) for i in range(n)]
    p = {'first': 0, 'middle': n // 2, 'row-1000': 999, 'row-1001': 1000, 'last': n - 1}[case['pos']]
    p = min(p, n - len(odd))
    for j, kind in enumerate(odd):
        vals[p + j] = ODD[kind]
    return vals, p


def long_cases(tier):
    for n in LONG_N:
        for base in LONG_BASE:
            for site in ('read_csv', 'read_csv-noheader', 'Vector', 'infer_dtype'):
                for odd in (ODD_CSV if site.startswith('read_csv') else ODD_SEQ):
                    if odd == [base]:
                        continue
                    for pos in (LONG_POS if odd else LONG_POS[:1]):
                        if n == 1001 and pos == 'last' and len(odd) == 1:
                            continue            # the same input as 'row-1001'
                        if site == 'read_csv-noheader' and 'missing' in odd and pos in ('first', 'last', 'row-1001' if n == 1001 else ''):
                            continue            # without a header line the FIRST row (last, once reversed) decides the number of columns
                        yield {'op': 'long', 'site': site, 'n': n, 'base': base, 'odd': odd, 'pos': pos}


def csv_text(vals, odd, p, header):
    """CSV source of an id column and the value column: None is an empty cell, or (odd kind 'missing') a row
    that ends after the id; everything else is written with repr / as is."""
    missing = {p + j for j, kind in enumerate(odd) if kind == 'missing'}
    lines = ['id,val'] if header else []
    for i, x in enumerate(vals):
        if i in missing:
            lines.append(str(i))
        else:
            lines.append(f'{i},' + ('' if x is None else x if isinstance(x, str) else repr(x)))
    return '\n'.join(lines) + '\n'


def long_observe(case, vals, p, odd):
    """(dtype, values or None, truthful message) of the site on these values."""
    site = case['site']
    if site.startswith('read_csv'):
        t = serif.read_csv(io.StringIO(csv_text(vals, odd, p, site == 'read_csv')), has_header=site == 'read_csv')
        col = t.cols()[1]
        return col.schema(), list(col._underlying), truthful(t)
    if site == 'Vector':
        v = Vector(list(vals))
        return v.schema(), list(v._underlying), truthful(v)
    a, b = serif.typing.infer_dtype(list(vals)), serif.typing.infer_dtype(iter(vals))
    return (a if a == b else (a, b)), None, None


def eval_long(case):
    fails = []
    site = case['site']
    vals, p = long_values(case)
    odd = case['odd']
    want = set_join(vals)
    descr = (f"{site} of {case['n']} rows of {case['base']} cells" +
             (f" with {[ODD[k] for k in odd]!r} ({'/'.join(odd)}) at row {p + 1}" if odd else ''))
    seen = {}
    for order in ('forward', 'reversed'):
        if order == 'forward':
            vs, pp, oo = vals, p, odd
        else:
            vs, pp, oo = vals[::-1], len(vals) - p - len(odd), odd[::-1]
        try:
            got, got_vals, m = long_observe(case, vs, pp, oo)
        except Exception as e:
            fails.append(Fail(f'C04:{site}:long-raises:{type(e).__name__}', f'{descr} [{order}]: raised {e!r}', want, repr(e)))
            continue
        seen[order] = got
        if m:
            fails.append(Fail(f'C03:{site}:truthful', f'{descr} [{order}]: {m[:200]}', None, got))
        if got_vals is not None and not same(got_vals, vs):
            bad = next((i for i, (g, w) in enumerate(zip(got_vals, vs)) if not same(g, w)), None)
            fails.append(Fail(f'C04:{site}:long-values', f'{descr} [{order}]: the column does not hold the cells (first difference at row {bad})',
                              None if bad is None else vs[bad], None if bad is None else got_vals[bad]))
        if got != want:
            fails.append(Fail(f'C04:{site}:long-not-typed-by-inference',
                              f'{descr} [{order}]: typed {got}, the lattice join of the kinds present is {want}', want, got))
    if len(seen) == 2 and seen['forward'] != seen['reversed']:
        fails.append(Fail(f'C04:{site}:long-dtype-depends-on-row-order',
                          f"{descr}: typed {seen['forward']}, the same rows in reversed order {seen['reversed']}", want, seen))
    return fails


def derived_columns(vals, keys):
    """(site, result column) pairs produced by library operations from a value column."""
    out = []
    t = Table({'k': keys, 'v': vals})
    for fn in ('sum', 'mean', 'min', 'max', 'count', 'stdev'):
        for meth in ('aggregate', 'window'):
            try:
                r = getattr(t, meth)(over='k', **{fn + '_over': 'v'})
            except Exception:
                continue
            out.append((f'{meth}.{fn}', r.cols()[-1]))
    other = Table({'k2': [0, 5], 'w': vals[:2]})
    for meth in ('join', 'full_join', 'inner_join'):
        try:
            r = getattr(t, meth)(other, 'k', 'k2', expect='many_to_many')
        except Exception:
            continue
        for j, c in enumerate(r.cols()):
            out.append((f'{meth}.col{j}', c))
    v = Vector(vals)
    if all(x is None or isinstance(x, (bool, int, float, complex)) for x in vals):
        # arithmetic (where Python defines the scalar operation)
        for name, f in (('add', lambda: v + v), ('mul2', lambda: v * 2), ('radd', lambda: 1 + v), ('neg', lambda: -v),
                        ('truediv', lambda: v / 2), ('rsub', lambda: 2.5 - v)):
            try:
                out.append((name, f()))
            except Exception:
                continue
    return out


KIND_BY_NAME = {k.__name__: k for k in KINDS}


def evaluate(case):
    fails = []
    if case['op'] == 'infer':
        vals = ev(case['values'])
        want = set_join(vals)
        if len(vals):
            v = Vector(vals)
            got = v.schema()
            m = truthful(v)
            if m:
                fails.append(Fail('C03:infer:truthful', m, None, got))
        else:
            got = serif.typing.infer_dtype(vals)
        if got != want:
            none_first = len(vals) and vals[0] is None
            fails.append(Fail('C04:infer_dtype:set-join' + (':leading-none' if none_first else ''),
                              f'Vector({case["values"]}).schema() = {got}, lattice join of the type set = {want}',
                              want, got, 'C04:typing.infer_dtype:post'))
        got2 = serif.typing.infer_dtype(iter(vals))
        if got2 != want:
            fails.append(Fail('C04:infer_dtype:iterator', f'infer_dtype(iter({case["values"]})) = {got2} != {want}', want, got2))
        return fails
    if case['op'] == 'long':
        return eval_long(case)
    if case['op'] == 'derived':
        for site, col in derived_columns(ev(case['values']), ev(case['keys'])):
            if not isinstance(col, Vector) or isinstance(col, Table):
                continue
            vals = list(col)
            if not vals:
                continue
            got, want = col.schema(), set_join(vals)
            m = truthful(col)
            if m:
                fails.append(Fail(f'C03:{site}:truthful', f'{site} of {case["values"]} by {case["keys"]}: {m}', None, got))
            elif got is None or got.kind is not want.kind or (want.nullable and not got.nullable):
                # the statement's rule gives the kind exactly; a nullable flag without a None is tolerated
                # only where the operation documents it (explicit-dtype sites keep the operand's flag)
                fails.append(Fail(f'C04:{site}:not-typed-by-inference', f'{site} of {case["values"]} by {case["keys"]}: values {vals!r} typed {got}, inference gives {want}', want, got))
        return fails
    k = KIND_BY_NAME[case['kind']]
    d = DataType(k, case['nullable'])
    v = ev(case['value'])
    r = d.promote_with(v)
    want = specs.promote_spec(d, v)
    if r != want:
        fails.append(Fail('C04:promote_with:spec', f'{d!r}.promote_with({case["value"]}) = {r!r}, lattice says {want!r}', want, r,
                          'C04:typing.DataType.promote_with:post'))
    if d.nullable and not r.nullable:
        fails.append(Fail('C04:promote_with:drops-nullable', f'{d!r}.promote_with({case["value"]}) = {r!r}', None, r))
    if r.promote_with(v) != r:
        fails.append(Fail('C04:promote_with:not-idempotent', f'{d!r} with {case["value"]}', r, r.promote_with(v)))
    if specs.join(r.kind, d.kind) is not r.kind:
        fails.append(Fail('C04:promote_with:narrows', f'{d!r}.promote_with({case["value"]}) = {r!r}', None, r))
    return fails


def nontrivial(case):
    if case['op'] == 'long':
        return ('long', case['site'], case['n'], case['base'], tuple(case['odd']), case['pos'])
    if case['op'] == 'derived':
        return ('d', case['values'], case['keys'])
    if case['op'] == 'infer':
        vals = ev(case['values'])
        return ('i', tuple(sorted({type(v).__name__ for v in vals})), len(vals)) if len(vals) >= 2 else None
    return ('p', case['kind'], case['nullable'], case['value'])


if __name__ == '__main__':
    main('C04', cases, evaluate,
         rule='all sequences over a 13-value pool (None, bool, int, float, complex, str, bytes, date, datetime, list, dict, tuple, user class) up to the stated length, in every order, compared with the join of the type set; all (kind, nullable, value) promotion triples; long block: read_csv (header / no header), Vector and infer_dtype on 1001 / 1500 / 2500 rows of int / float / str with one or two cells of another kind (float, int, empty, missing, text, bool, complex, date) at the first / middle / 1000th / 1001st / last row, forward and reversed. distinct = distinct (type multiset signature, length) for sequences of length>=2 plus every promotion triple',
         bound=lambda tier: {'max_len': 4 if tier == 'quick' else 5, 'pool': 13, 'promotion_pairs': 13 * 2 * 13,
                             'long_rows': LONG_N, 'long_positions': LONG_POS, 'long_odd_kinds': sorted(ODD)},
         nontrivial=nontrivial)

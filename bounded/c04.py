"""C04 bounded stand-in: dtype inference is a function of the type set + None presence;
promotion never narrows, never drops nullability, is idempotent.

Scope: all sequences of length <= 4 (quick) / 5 (thorough) over a 13-value pool, compared
with the lattice join computed on the *set* of types; every (dtype, value) promotion pair.
"""
import itertools
from datetime import date, datetime

from harness import *  # noqa
from contracts import specs

POOL = [None, True, 0, 2.5, 1j, 'a', b'a', date(2020, 1, 1), datetime(2020, 1, 1, 0, 0), [1], {1: 2}, (1,), Opaque(1)]
KINDS = [bool, int, float, complex, str, bytes, date, datetime, list, dict, tuple, object, Opaque]


def set_join(values):
    kinds = {type(v) for v in values if v is not None}
    if not kinds:
        return DataType(object, True)
    k = None
    for t in kinds:
        k = t if k is None else specs.join(k, t)
    return DataType(k, any(v is None for v in values))


def cases(tier, seed):
    n = 4 if tier == 'quick' else 5
    idx = list(range(len(POOL)))
    for ln in range(0, n + 1):
        for combo in itertools.product(idx, repeat=ln):
            yield {'op': 'infer', 'values': lit([POOL[i] for i in combo])}
    for k in KINDS:
        for nullable in (False, True):
            for v in POOL:
                yield {'op': 'promote', 'kind': k.__name__, 'nullable': nullable, 'value': lit(v)}
    # "results of arithmetic, joins, aggregates and CSV parsing are typed by the same rule applied
    # to their values": derived columns over small value columns of every ladder kind
    VALCOLS = [[True, False, True], [True, None, False], [1, 2, 3], [1, None, 3], [1.5, 2.5, 0.5], [None, None, None],
               [1, 2.5, True], [date(2020, 1, 1), date(2020, 1, 2), None], ['a', 'b', 'c']]
    for vc in VALCOLS:
        for keys in ([0, 0, 1], [0, 1, 2], [None, None, 0]):
            yield {'op': 'derived', 'values': lit(vc), 'keys': lit(keys)}


def derived_columns(vals, keys):
    """(site, result column) pairs produced by library operations from a value column."""
    out = []
    t = Table({'k': keys, 'v': vals})
    for fn in ('sum', 'mean', 'min', 'max', 'count', 'stdev'):
        for meth in ('aggregate', 'window'):
            try:
                r = getattr(t, meth)(over='k', **{fn + '_over': 'v'})
            except Exception:
                continue
            out.append((f'{meth}.{fn}', r.cols()[-1]))
    other = Table({'k2': [0, 5], 'w': vals[:2]})
    for meth in ('join', 'full_join', 'inner_join'):
        try:
            r = getattr(t, meth)(other, 'k', 'k2', expect='many_to_many')
        except Exception:
            continue
        for j, c in enumerate(r.cols()):
            out.append((f'{meth}.col{j}', c))
    v = Vector(vals)
    if all(x is None or isinstance(x, (bool, int, float, complex)) for x in vals):
        # arithmetic (where Python defines the scalar operation)
        for name, f in (('add', lambda: v + v), ('mul2', lambda: v * 2), ('radd', lambda: 1 + v), ('neg', lambda: -v),
                        ('truediv', lambda: v / 2), ('rsub', lambda: 2.5 - v)):
            try:
                out.append((name, f()))
            except Exception:
                continue
    return out


KIND_BY_NAME = {k.__name__: k for k in KINDS}


def evaluate(case):
    fails = []
    if case['op'] == 'infer':
        vals = ev(case['values'])
        want = set_join(vals)
        if len(vals):
            v = Vector(vals)
            got = v.schema()
            m = truthful(v)
            if m:
                fails.append(Fail('C03:infer:truthful', m, None, got))
        else:
            got = serif.typing.infer_dtype(vals)
        if got != want:
            none_first = len(vals) and vals[0] is None
            fails.append(Fail('C04:infer_dtype:set-join' + (':leading-none' if none_first else ''),
                              f'Vector({case["values"]}).schema() = {got}, lattice join of the type set = {want}',
                              want, got, 'C04:typing.infer_dtype:post'))
        got2 = serif.typing.infer_dtype(iter(vals))
        if got2 != want:
            fails.append(Fail('C04:infer_dtype:iterator', f'infer_dtype(iter({case["values"]})) = {got2} != {want}', want, got2))
        return fails
    if case['op'] == 'derived':
        for site, col in derived_columns(ev(case['values']), ev(case['keys'])):
            if not isinstance(col, Vector) or isinstance(col, Table):
                continue
            vals = list(col)
            if not vals:
                continue
            got, want = col.schema(), set_join(vals)
            m = truthful(col)
            if m:
                fails.append(Fail(f'C03:{site}:truthful', f'{site} of {case["values"]} by {case["keys"]}: {m}', None, got))
            elif got is None or got.kind is not want.kind or (want.nullable and not got.nullable):
                # the statement's rule gives the kind exactly; a nullable flag without a None is tolerated
                # only where the operation documents it (explicit-dtype sites keep the operand's flag)
                fails.append(Fail(f'C04:{site}:not-typed-by-inference', f'{site} of {case["values"]} by {case["keys"]}: values {vals!r} typed {got}, inference gives {want}', want, got))
        return fails
    k = KIND_BY_NAME[case['kind']]
    d = DataType(k, case['nullable'])
    v = ev(case['value'])
    r = d.promote_with(v)
    want = specs.promote_spec(d, v)
    if r != want:
        fails.append(Fail('C04:promote_with:spec', f'{d!r}.promote_with({case["value"]}) = {r!r}, lattice says {want!r}', want, r,
                          'C04:typing.DataType.promote_with:post'))
    if d.nullable and not r.nullable:
        fails.append(Fail('C04:promote_with:drops-nullable', f'{d!r}.promote_with({case["value"]}) = {r!r}', None, r))
    if r.promote_with(v) != r:
        fails.append(Fail('C04:promote_with:not-idempotent', f'{d!r} with {case["value"]}', r, r.promote_with(v)))
    if specs.join(r.kind, d.kind) is not r.kind:
        fails.append(Fail('C04:promote_with:narrows', f'{d!r}.promote_with({case["value"]}) = {r!r}', None, r))
    return fails


def nontrivial(case):
    if case['op'] == 'derived':
        return ('d', case['values'], case['keys'])
    if case['op'] == 'infer':
        vals = ev(case['values'])
        return ('i', tuple(sorted({type(v).__name__ for v in vals})), len(vals)) if len(vals) >= 2 else None
    return ('p', case['kind'], case['nullable'], case['value'])


if __name__ == '__main__':
    main('C04', cases, evaluate,
         rule='all sequences over a 13-value pool (None, bool, int, float, complex, str, bytes, date, datetime, list, dict, tuple, user class) up to the stated length, in every order, compared with the join of the type set; all (kind, nullable, value) promotion triples. distinct = distinct (type multiset signature, length) for sequences of length>=2 plus every promotion triple',
         bound=lambda tier: {'max_len': 4 if tier == 'quick' else 5, 'pool': 13, 'promotion_pairs': 13 * 2 * 13},
         nontrivial=nontrivial)
